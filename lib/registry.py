"""Registry of implemented checks -> MANIFEST.json (bin/mkmanifest)."""
CHECKS = {}
# checks reviewed by the lead (soaked over seeds, kill-checked); only these are registered in MANIFEST.json
APPROVED = {"C01", "C02", "C03", "C21", "C45", "C28", "C29", "C43", "C44", "C04", "C05", "C06", "C15", "C16", "C07", "C11", "C38", "C39", "C23", "C24", "C25", "C35", "C37", "C40", "C41", "C42", "C46", "C31", "C32", "C12", "C13", "C14", "C26", "C27", "C30", "C19", "C20", "C22", "C08", "C09", "C10", "C17", "C18", "C33", "C34", "C36"}
NA_DEFAULT = "check not built yet in this framework (work in progress); not claimed"

def reg(pid, category, text, note, technique, design_ref=None, engine=None):
    CHECKS[pid] = dict(category=category, text=text, note=note, technique=technique,
                       design_ref=design_ref or ("DESIGN.md §3 " + pid), engine=engine)

reg("C21", "exploration",
    "Runtime differential monitor: ~5e6 (quick) / ~6.5e8 (thorough) boundary-biased and random tuples through the real "
    "ev_token_bucket_update_/cfg_new/get_tick_/init_ compared with an __int128 reference, under UBSan+ASan. Sampling of a 64-bit space: "
    "held-on-observed, not a proof.",
    "trusts the __int128 reference in harness/h_ratelim_arith.c; level space sampled with bias to 0, +-burst, INT64 extremes, above-burst",
    "differential runtime oracle (int128 reference) + UBSan over generated tuples")
