"""C40 textual address conversion (DESIGN §3 C40): evutil_inet_ntop for every buffer length, evutil_inet_pton
against the platform's strict parser, evutil_parse_sockaddr_port / evutil_format_sockaddr_port_ round trip.
Generators and oracles are in harness/h_util.c; the oracle is the platform inet_pton."""
from checks import generic
import vlib

# The harness allocates and frees many small exact-size blocks per evaluation; ASan's default 256 MB quarantine makes
# every allocation touch fresh pages (7x slower).  16 MB still keeps a freed block poisoned for thousands of evaluations.
ASAN_ENV = dict(ASAN_OPTIONS=vlib.sanitizer_env("asan")["ASAN_OPTIONS"] + ":quarantine_size_mb=16")

RULE = ("inputs = IPv4 addresses (blocks of 65536 consecutive addresses, each formatted into buffers of 16, L+1, L and (1 address in 4) a rotating "
        "length; plus boundary-biased samples with every length 0..48), IPv6 addresses (all 256 zero-word masks x random words, "
        "v4-mapped/compatible/special forms; every buffer length 0..48 and 64), address strings (grammar of IPv4/IPv6 text incl. every "
        "'::' placement, leading zeros, v4 tails, plus structural and character mutations) parsed under both families, and "
        "sockaddr<->text round trips with ports 1..65535; non-trivial = an address (or an address-like string containing a digit and a "
        "'.'/':' separator); distinct = hash of the address / string (one hash per 65536-address block in the enumeration mode)")
REG = dict(category="exploration",
           text="Runtime differential monitor: evutil_inet_ntop output for every buffer length (exact-size heap buffers under ASan, canaries in "
                "the -O2 enumeration) must be NULL or a terminated text that the platform inet_pton maps back to the address; evutil_inet_pton "
                "must agree with the platform inet_pton (after the leading-zero allowance) on >=1.5e5 (quick) / 6e6 (thorough) generated and "
                "mutated strings; parse_sockaddr_port/format round trip. Thorough enumerates all 2^32 IPv4 addresses; IPv6 and strings are sampled.",
           note="trusts glibc inet_pton as the strict parser; IPv6 space and string space are sampled (structured + random), not enumerated",
           technique="differential runtime oracle (platform inet_pton) + ASan exact-size buffers over generated inputs")


def steps(seed, tier):
    small = 6 if tier == "quick" else None   # few shards for small steps: process start-up dominates them
    off = (seed * 37) % 2048
    return [
        dict(flavor="plain", harness="h_util", args=["--mode", "ntop4", "--n1", 2048, "--n2", off], cases=dict(quick=32), tiers=("quick",), shards=4),
        dict(flavor="plain", harness="h_util", args=["--mode", "ntop4"], cases=dict(thorough=65536), tiers=("thorough",), timeout=6000),
        dict(flavor="asan", env=ASAN_ENV, harness="h_util", args=["--mode", "ntop4s"], cases=dict(quick=150, thorough=2000), seed_off=1, shards=small),
        dict(flavor="asan", env=ASAN_ENV, harness="h_util", args=["--mode", "ntop6"], cases=dict(quick=400, thorough=15000), seed_off=2),
        dict(flavor="plain", harness="h_util", args=["--mode", "ntop6"], cases=dict(quick=1500, thorough=60000), seed_off=3),
        dict(flavor="asan", env=ASAN_ENV, harness="h_util", args=["--mode", "pton"], cases=dict(quick=300, thorough=12000), seed_off=4),
        dict(flavor="asan", env=ASAN_ENV, harness="h_util", args=["--mode", "sap"], cases=dict(quick=200, thorough=8000), seed_off=5, shards=small),
    ]


def run(tier, seed):
    def post(res):
        n4 = res.stats.get("ntop4_blocks_of_65536", 0) * 65536
        res.extra["enumerated_subspace"] = ("IPv4 addresses enumerated in consecutive blocks: %d of 4294967296%s"
                                            % (n4, " (complete)" if n4 == 1 << 32 else ""))
        res.extra["ipv4_space_exhaustive"] = (n4 == 1 << 32)
    return generic.run_spec("C40", tier, seed, steps(seed, tier), RULE,
                            required=["ntop_text", "ntop_null", "ntop4_addresses", "ntop6_addresses", "ntop6_zero_run_masks",
                                      "pton4_both_accept", "pton6_both_accept", "pton4_both_reject", "pton6_both_reject",
                                      "pton_leading_zero_form_accepted", "pton_mutated_strings", "roundtrip4_ok", "roundtrip6_ok",
                                      "parse4_ok", "parse6_ok", "parse_invalid_addr", "parse_outlen_too_small"],
                            assumptions=["the platform (glibc) inet_pton is the strict reference parser",
                                         "IPv6 addresses and address strings are sampled from structured generators; only IPv4 is enumerated (thorough tier)"],
                            post=post)
