"""C20 bufferevent read/write timeouts under the virtual clock (DESIGN §3 C20): socket, pair and filter
bufferevents; per-direction idle_since model; the loop is made to wake exactly at every model deadline."""
from checks import generic

RULE = ("random histories of set_timeouts (1 us..1 h, changed, cleared), enable/disable, application writes, peer sends/drains at "
        "scripted virtual instants (incl. deadline-1us/deadline/deadline+1us), read watermark suspension, per-bufferevent rate-limit "
        "suspension, flush, for socket / pair / filter-over-socket / filter-over-pair; oracle: TIMEOUT|dir exactly at the first loop "
        "iteration with vnow >= idle_since+T while enabled, not suspended (and output pending for writes), never otherwise, direction "
        "disabled in the callback; non-trivial = a timeout fired on time or a transfer postponed a running deadline; distinct = hash of the script")
STEPS = [
    dict(flavor="asan", harness="h_bev2", args=["--mode", "timeout"], cases=dict(quick=2000, thorough=120000),
         timeout=dict(quick=600, thorough=3000)),
]
REG = dict(
    category="exploration",
    text="Read/write timeouts fire with BEV_EVENT_TIMEOUT|READING/WRITING and disable the direction iff it was enabled, not "
         "suspended (and had pending output) with no successful transfer for the configured time; never while disabled; every "
         "transfer, enable, unsuspend and set_timeouts restarts the interval - on virtual time, for socket, pair and filter.",
    note="No transport faults and no clock oversleep (a spurious wake-up legitimately restarts the timer); rate-limit suspension "
         "state is read from the private suspend flags; no read watermarks on filters (they trip an evbuffer re-entrancy defect "
         "outside this property); TLS bufferevents not covered.",
    technique="runtime monitor with reference idle_since model on a virtual clock")


def run(tier, seed):
    return generic.run_spec("C20", tier, seed, STEPS, RULE,
                            required=["timeouts_on_time_read", "timeouts_on_time_write", "restart_postponed_deadline", "read_transfers",
                                      "write_transfers", "wm_suspensions", "wm_unsuspensions", "bw_suspensions", "bw_unsuspensions",
                                      "op_set_timeouts", "op_enable", "op_disable", "op_flush"],
                            assumptions=["timeouts are judged on virtual time at loop-iteration granularity"])
