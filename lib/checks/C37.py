"""C37 the DNS server parses any incoming packet safely and faithfully (DESIGN §3 C37)."""
from gen import dnssrvgen

RULE = ("query grammar (0..60 questions, backward compression, AN/NS/AR records, OPT of many sizes) plus byte mutations (truncation, bit "
        "flips, counts 0/65535, pointer loops, pointers past the end, reserved label types, label/rdlength past the end, opcodes, QR, "
        "junk after OPT) sent as UDP datagrams and as TCP length-prefixed streams (lengths 0/1/65535/off-by-one) in arbitrary segments; "
        "an independent strict parser classifies every message must-callback / must-not / either and the callback's questions, the "
        "NOTIMPL replies and the reply sizes are compared; non-trivial = at least one message reached a server port and was judged; "
        "distinct = hash of the case script")
REQUIRED = ["callbacks", "callback_questions_exact", "malformed_not_delivered", "msgs_wellformed", "msgs_malformed", "nonzero_opcode_msgs",
            "tcp_frames", "tcp_segments_sent", "udp_datagrams_sent", "responses", "responses_truncated", "edns_size_used",
            "reason_pointer-loop", "reason_pointer-past-end", "reason_rdata-past-end", "reason_qr-set", "tcp_zero_length_frames",
            "tcp_incomplete_frames", "census_clean"]
ASSUME = ["the reference parser lib/ref/dnswire_srv.py is correct (RFC 1035/6891; no code shared with evdns.c)",
          "out-of-bounds accesses and leaks are those visible to ASan/UBSan/LSan and to the allocation census of event_set_mem_functions",
          "CALIBRATED: well-formed standard queries with >=1 question are delivered; dropped messages get no reply; a zero-length TCP frame closes the connection; "
          "UDP datagrams are read into a 1500-byte buffer; names of 256/257 wire bytes, forward pointers, QDCOUNT 0, trailing bytes are 'either'"]

REG = dict(category="exploration",
           text="Runtime monitor of the real evdns server ports (UDP and TCP listener) fed ~4.8e3 (quick) / ~2.9e5 (thorough) generated and mutated "
                "messages / TCP streams in arbitrary segmentation under ASan+UBSan+LSan with a per-case allocation census; an independent strict DNS "
                "parser decides for every message whether the user callback may/must/must not run and with which questions, whether NOTIMPL is due, "
                "and which size limit (OPT) the reply must respect. Held-on-observed only.",
           note="trusts lib/ref/dnswire_srv.py; hostile inputs are sampled from a grammar + mutations, not coverage-guided; no allocation-failure injection",
           technique="sanitizers + census + differential oracle (strict reference parser) over generated/mutated inputs")


def run(tier, seed):
    return dnssrvgen.run_check("C37", tier, seed, RULE, REQUIRED, ASSUME)


def replay(info):
    return dnssrvgen.replay(info)
