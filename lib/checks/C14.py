"""C14 allocation-failure atomicity of evbuffer operations (DESIGN §3 C14)."""
from checks import generic

RULE = ("case = a random prefix of 0-15 C12 operations over 1-3 evbuffers (each with a recording callback), then one allocating operation "
        "executed with the n-th allocation of the library failing (memfault via event_set_mem_functions), for n = 1,2,.. on an identically "
        "rebuilt world until the fault no longer fires (that last run is the dry run that measured the allocation count); verdict per fault "
        "point: reported failure => contents/length of every buffer and the callback ledger equal the snapshot; reported success => the "
        "model's full effect (size-returning ops: exactly the reported count); then 20 further C12-checked ops, free, allocation census. "
        "evaluations = cases; non-trivial/distinct = fault points that fired (hash of history + n)")

STEPS = [dict(flavor="asan", harness="h_evbuf", args=["--mode", "allocfail"], cases=dict(quick=3000, thorough=100000), timeout=dict(quick=900, thorough=7200))]
REQUIRED = ["fault_points", "faults_reported_as_failure", "dry_runs", "cb_invocations", "enomem_add", "enomem_prepend", "enomem_add_printf",
            "enomem_pullup", "enomem_expand", "enomem_reserve_commit", "enomem_add_iovec", "enomem_readln", "enomem_add_reference",
            "enomem_add_cb", "op_remove_buffer", "op_add_buffer_reference"]

REG = dict(category="fault_enumeration",
           text="Fault enumeration: for ~3e3 (quick) / ~1e5 (thorough) (history, operation) pairs every allocation the operation performs is made "
                "to fail in turn (exhaustive over n for that operation on that history); atomicity, full-effect-on-success, no leak (allocator census), "
                "and 20 further model-checked operations, under ASan+UBSan. Histories are sampled, not enumerated.",
           note="trusts the byte-string model and snapshot in harness/h_evbuf.c and the memfault allocator (harness/common/memfault.c); only "
                "allocations made through event_mm_* are failed; operands are thawed before the faulted op (a frozen operand refuses before allocating)",
           technique="allocation-failure injection (n-th allocation, all n) + differential byte-string model + allocator census")


def run(tier, seed):
    return generic.run_spec("C14", tier, seed, STEPS, RULE, required=REQUIRED,
                            assumptions=["only library allocations through event_set_mem_functions are failed", "single-threaded"])
