"""C08 every public call returns with all internal locks released (DESIGN §3 C08).

h_locks sweeps a table of API points (every lock-taking public function of
event.h, buffer.h, bufferevent.h, listener.h, dns.h, http.h, watch.h that is
reachable with simple arguments, on valid and on awkward objects) on fresh
fixtures: dry run, then the same call under the n-th allocation failing, all
allocations from n on failing, and the k-th epoll_ctl/socket/connect/accept4/
eventfd/pipe2/... call failing with EPERM/EBADF/ENOMEM/EAGAIN.  lockmon's
per-thread ledger decides; a second thread then takes every lock of the fixture.
"""
from checks import generic

RULE = ("case = one API point of the table (index = case mod table size; arguments drawn from the per-case PRNG) run once "
        "without fault and then under injected faults (quick: 4 drawn from the measured space {oom n<=allocs, oomall n, "
        "k-th syscall x errno}; thorough: all of them); evaluations = executions of a point (dry + fault runs); "
        "non-trivial = the point works on a live fixture or had at least one fault run; distinct = hash(point, PRNG state, fault list)")

# LeakSanitizer is off here on purpose: memory lost on an error path is not a lock statement (C10/C14 look at memory)
ASAN = "abort_on_error=1:detect_leaks=0:allocator_may_return_null=1:handle_abort=0:detect_stack_use_after_return=0:malloc_context_size=12"

STEPS = [
    dict(flavor="asan", harness="h_locks", args=[], cases=dict(quick=480, thorough=1920),
         env={"ASAN_OPTIONS": ASAN}, timeout=dict(quick=600, thorough=3000)),
    dict(flavor="asan", harness="h_locks", args=["--mode", "debuglocks"], cases=dict(quick=96, thorough=576), seed_off=101,
         env={"ASAN_OPTIONS": ASAN}, timeout=dict(quick=600, thorough=3000)),
]

REG = dict(
    category="fault_enumeration",
    text=("Lock-ledger sweep of ~120 API points covering the public functions of event.h, buffer.h, bufferevent.h, "
          "listener.h, dns.h, http.h and watch.h on valid and awkward objects (regular file under epoll, closed fd, frozen "
          "buffers, negative/huge sizes), each repeated under every allocation failure the call reaches and under "
          "EPERM/EBADF/ENOMEM/EAGAIN on each epoll_ctl/socket/connect/accept4/eventfd/pipe2/accept/sendto/recvfrom/ioctl/"
          "sigaction call it makes (thorough: all n; quick: sampled). After each call the calling thread must hold exactly "
          "the locks it held before, the ledger must show no unlock-not-held / re-lock of the non-recursive base lock / "
          "free-while-held, and a second thread must obtain every lock of the fixture."),
    note=("Trusts harness/common/lockmon.c (ledger kept outside the library, installed through evthread_set_lock_callbacks) and "
          "memfault/sysfault for the fault positions. A second pass runs with evthread_enable_lock_debugging() so the library's "
          "own lock assertions are live. Functions not in the table (evrpc, evtag, ws, ssl transports) and paths that need a "
          "specific peer behaviour beyond the scripted ones are not covered; the lock-enabled re-runs of other properties' "
          "workloads (DESIGN W(b)) are not part of this check. A crash of the library while a fault is injected (unchecked "
          "allocation result etc.) is not a lock statement: it is counted (fault_runs_that_killed_the_process), printed as a NOTE "
          "line and the sweep continues in a new process; it becomes a violation only if the report involves evthread*.c. "
          "Crashes without an injected fault are violations."),
    technique="API x fault enumeration with an external lock ledger and a second-thread probe",
)


def run(tier, seed):
    return generic.run_spec("C08", tier, seed, STEPS, RULE,
                            required=["api_points_run", "runs_nofault", "faults_fired_oom", "faults_fired_sys",
                                      "second_thread_probes_ok", "locks_taken", "points_allocating", "points_with_syscalls"],
                            level="exploration",
                            assumptions=["lockmon sees every lock operation because the library takes locks only through the installed callbacks",
                                         "fault positions are those reached by the dry run of the same call on an identical fresh fixture",
                                         "LeakSanitizer is disabled in this harness (memory lost on error paths is outside C08)"])
