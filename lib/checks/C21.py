"""C21 token-bucket refill arithmetic vs an __int128 reference (DESIGN §3 C21)."""
from checks import generic

RULE = ("boundary-biased + uniform random tuples (rate, burst, level incl. deficit and above-burst, 32-bit tick delta) "
        "through ev_token_bucket_update_, and (rates, bursts, tick_len) through ev_token_bucket_cfg_new/get_tick_/init_; "
        "non-trivial = a refill that changed the bucket (delta in 1..INT_MAX) or an accepted configuration; "
        "distinct = hash of the full tuple")
STEPS = [
    dict(flavor="asan", harness="h_ratelim_arith", args=["--mode", "update"], cases=dict(quick=3000, thorough=400000)),
    dict(flavor="asan", harness="h_ratelim_arith", args=["--mode", "above"], cases=dict(quick=1500, thorough=200000), seed_off=7),
    dict(flavor="asan", harness="h_ratelim_arith", args=["--mode", "cfg"], cases=dict(quick=800, thorough=50000), seed_off=13),
]


def run(tier, seed):
    return generic.run_spec("C21", tier, seed, STEPS, RULE,
                            required=["updates", "deficit_levels", "levels_above_burst", "clamped_to_burst", "cfg_accepted", "cfg_rejected", "get_tick"],
                            assumptions=["64-bit value space is sampled, not enumerated; UBSan (signed overflow, shifts) is live in the library objects"])
