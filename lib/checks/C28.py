"""C28 URI parse/join round trip and RFC 3986 component equality (DESIGN §3 C28).

All intelligence is in harness/h_uri.c: grammar generator (components known by
construction), token-soup + mutation generator, exhaustive enumeration over a
delimiter alphabet behind 12 prefixes, setter-built URIs; oracle = own RFC 3986
splitter/validators (tri-state: must-accept / must-reject / either) plus the
reference-free join-parse round trip on every accepted input, under all 8 flag
combinations."""
from checks import generic

# smaller quarantine: the workload is millions of tiny malloc/free pairs; 256 MB of quarantine makes ASan ~8x slower
ASAN = ("abort_on_error=1:detect_leaks=1:allocator_may_return_null=1:handle_abort=0:detect_stack_use_after_return=0:"
        "malloc_context_size=12:quarantine_size_mb=16:allocator_release_to_os_interval_ms=-1")
ENV = dict(ASAN_OPTIONS=ASAN)
NPREFIX = 12
EA = 12


def _enum_cases(L, bs, prefixes=NPREFIX):
    total = sum(EA ** l for l in range(L + 1))
    return prefixes * ((total + bs - 1) // bs)


RULE = ("inputs: RFC 3986 grammar strings with a-priori known components (incl. IP-literals, IPvFuture, pct-encoding, empty "
        "components, the header's unix: form), delimiter-heavy token soups and 1-3 edit mutations, every string of length <= L over "
        "the alphabet 'a1:/?#@[]% .' behind each of 12 prefixes (quick L=4; thorough L=5, and L=6 behind the prefixes '', 's://', 's://unix:/k', 's://['), and URIs built "
        "with the setters; each input under all 8 flag sets; non-trivial = accepted by at least one flag set (so components were "
        "compared and join/parse round-tripped) and length >= 3, or a setter-built URI that joined and re-parsed; distinct = hash of the "
        "input string / of the setter call sequence")
def _st(mode, quick=None, thorough=None, shards=None, seed_off=0, extra=()):
    """one step dict per tier: the quick tier uses few shards (an ASan process costs ~0.3 s to start and leak-check,
    more than the quick work of a shard), the thorough tier all cores"""
    out = []
    for tier, n, sh in (("quick", quick, shards), ("thorough", thorough, None)):
        if n is None:
            continue
        d = dict(flavor="asan", harness="h_uri", args=["--mode", mode] + list(extra), tiers=(tier,), cases={tier: n}, env=ENV,
                 seed_off=seed_off, timeout=3000)
        if sh:
            d["shards"] = sh
        out.append(d)
    return out


STEPS = (_st("gram", quick=20000, thorough=2000000, shards=4)
         + _st("rand", quick=30000, thorough=3000000, shards=4, seed_off=3)
         + _st("setter", quick=15000, thorough=2000000, shards=2, seed_off=5)
         + _st("enum", quick=_enum_cases(4, 512), shards=8, extra=["--n1", 4, "--n2", 512])
         + _st("enum", thorough=_enum_cases(5, 2048), extra=["--n1", 5, "--n2", 2048]))
# thorough: length 6 behind the four most structure-bearing prefixes: "" (0), "s://" (3), "s://unix:/k" (5), "s://[" (7)
for _p in (0, 3, 5, 7):
    STEPS += _st("enum", thorough=_enum_cases(6, 8192, 1), extra=["--n1", 6, "--n2", 8192, "--arg", str(_p)])
REQUIRED = ["accepted", "rejected", "must_accept", "must_reject", "either", "components_compared", "roundtrip_ok",
            "join_text_checked", "join_limit_checked", "unix_form_pinned", "unix_form_accepted", "host_ipv6", "host_ipvfuture",
            "host_empty", "brackets_stripped", "port_set", "port_empty", "userinfo_seen", "query_empty_string",
            "fragment_empty_string", "nonconf_only_accept", "reject_bad_pct", "reject_bad_port", "reject_bad_char",
            "reject_bad_host", "reject_bad_scheme", "gen_ref_agree", "setter_accepted", "setter_refused", "setter_join_refused",
            "setter_roundtrip_ok", "setter_unix"]

REG = dict(
    category="exploration",
    text=("evhttp_uri_parse_with_flags / evhttp_uri_join / evhttp_uri_set_* run on generated, mutated and exhaustively enumerated "
          "short strings under all 8 flag combinations; every accepted input must join and re-parse to identical components "
          "(NULL vs \"\" and port -1 vs set distinguished), its components must equal an independent RFC 3986 split, join must be the "
          "concatenation of the components, and setter-accepted URIs must round-trip or be refused by join."),
    note=("Sampled, except the enumeration (all strings up to length 4 (quick) / 5, and 6 behind four of the prefixes (thorough), over 12 symbols behind 12 fixed prefixes). Trusts the "
          "harness's own RFC 3986 splitter (cross-checked against the grammar generator on every generated URI). Calibrated choices: "
          "ports above 65535 refused, NONCONFORMANT does not relax the colon-in-first-segment rule, lenient platform inet_pton forms "
          "inside otherwise well-formed IPv6 literals are 'either', UNIX-socket forms the header does not pin are 'either'. "
          "ASan/UBSan live with exact-size heap copies of every input."),
    technique="generated + exhaustive short inputs, tri-state RFC 3986 reference splitter, join-parse round trip, ASan/UBSan",
)


def run(tier, seed):
    return generic.run_spec("C28", tier, seed, STEPS, RULE, required=REQUIRED,
                            assumptions=["input space sampled except for the bounded enumeration; RFC 3986 reference is hand-written in the harness",
                                         "IPv6 literal acceptance between strict RFC 3986 and platform inet_pton() is not judged"])
