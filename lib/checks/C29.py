"""C29 URI escaping, query parsing, HTML escaping (DESIGN §3 C29).  Harness h_uri, modes enc/dec/query/html/xenum."""
from checks import generic

ASAN = ("abort_on_error=1:detect_leaks=1:allocator_may_return_null=1:handle_abort=0:detect_stack_use_after_return=0:"
        "malloc_context_size=12:quarantine_size_mb=16:allocator_release_to_os_interval_ms=-1")
ENV = dict(ASAN_OPTIONS=ASAN)
EA = 12


def _xenum_cases(L, bs):
    total = sum(EA ** l for l in range(L + 1))
    return (total + bs - 1) // bs


RULE = ("byte strings (all 256 values incl. NUL for the sized encoder; lengths 0..2048) through uriencode/uridecode in both '+' modes; "
        "hostile decoder inputs ('%' at every distance from the end, bad hex, '+', '?') through uridecode, evhttp_decode_uri and the "
        "internal decoder on exact-size heap blocks; query strings (empty pieces, missing '=', empty keys, duplicate keys in both "
        "cases, escapes incl. %00) under all 4 flag sets plus the whole-URI entry point; markup-heavy strings through htmlescape; "
        "plus every string of length <= L over '%41aAg+?&=; ' (decoder, encoder, query) and over '<>&\"\\'a;#l0 q' (htmlescape), "
        "quick L=4, thorough L=6; non-trivial = contains an escape, '+', '&' or markup character (len >= 2 for encoder inputs); "
        "distinct = hash of the input")
def _st(mode, quick=None, thorough=None, shards=None, seed_off=0, extra=()):
    """one step dict per tier: few shards in the quick tier (process start + leak check cost more than a shard's work)"""
    out = []
    for tier, n, sh in (("quick", quick, shards), ("thorough", thorough, None)):
        if n is None:
            continue
        d = dict(flavor="asan", harness="h_uri", args=["--mode", mode] + list(extra), tiers=(tier,), cases={tier: n}, env=ENV,
                 seed_off=seed_off, timeout=3000)
        if sh:
            d["shards"] = sh
        out.append(d)
    return out


STEPS = (_st("enc", quick=20000, thorough=2000000, shards=4)
         + _st("dec", quick=40000, thorough=5000000, shards=4, seed_off=3)
         + _st("query", quick=40000, thorough=5000000, shards=4, seed_off=5)
         + _st("html", quick=20000, thorough=2000000, shards=2, seed_off=7)
         + _st("xenum", quick=_xenum_cases(4, 512), shards=4, extra=["--n1", 4, "--n2", 512])
         + _st("xenum", thorough=_xenum_cases(6, 4096), extra=["--n1", 6, "--n2", 4096]))
REQUIRED = ["enc_roundtrips", "enc_with_nul", "enc_plus_mode", "enc_cstr_equiv", "dec_calls", "dec_internal_exact", "dec_pct_valid",
            "dec_pct_truncated", "dec_pct_badhex", "dec_plus_converted", "dec_plus_kept", "dec_deprecated", "query_parses", "query_ok",
            "query_fail", "query_pairs", "query_lastval_replaced", "query_empty_key_skipped", "query_novalue_tolerated",
            "query_value_decoded", "query_whole_uri", "query_nul_truncated", "html_calls", "html_escaped_chars", "html_unescape_ok"]

REG = dict(
    category="exploration",
    text=("evhttp_uriencode/evhttp_uridecode round trip in both '+' modes with exact expected text (unreserved kept, everything else "
          "%XX, space as '+' in plus mode), decoder output compared byte-for-byte with an independent decoder and bounded by the input "
          "length (exact-size heap blocks under ASan, including the internal decoder on unterminated input), "
          "evhttp_parse_query_str(_flags)/evhttp_parse_query compared pair-by-pair with a reference splitter for all flag sets, "
          "evhttp_htmlescape compared with the documented replacements and unescaped back."),
    note=("Sampled plus exhaustive over two 12-symbol alphabets up to length 4 (quick) / 6 (thorough). Calibrated where the header is "
          "silent: query keys are not decoded, keys compare ASCII-case-insensitively for LAST_VAL, one trailing '&' is ignored, values "
          "end at a decoded NUL, a failed parse leaves no pairs."),
    technique="generated + exhaustive short inputs vs independent reference codec/splitter, exact-size heap blocks under ASan/UBSan",
)


def run(tier, seed):
    return generic.run_spec("C29", tier, seed, STEPS, RULE, required=REQUIRED,
                            assumptions=["input space sampled except for the bounded enumeration",
                                         "embedded NUL only for the sized encoder (the other entry points take C strings)"])
