"""C42 tagged-data encoding (DESIGN §3 C42): round trips of evtag_marshal*/encode_* and every decoder on arbitrary
bytes delivered as reference chains of exact-size heap blocks (harness/h_tag.c)."""
from checks import generic

RULE = ("(a) round trips: streams of 1..12 items of 10 kinds (int, int64, string, timeval, raw, buffer, nested buffers, bare encode_int/"
        "encode_int64/encode_tag) with tags and values biased to every encoding-length boundary (2^4k, 2^7k +-1, 2^32-1, 2^64-1), payloads "
        "0..70000 bytes; encoded size checked against the wire format, the stream re-cut into exact-size heap blocks at random places, "
        "peek/peek_length/payload_length checked before each read, values/tags/consumed bytes checked after; (b) arbitrary bytes: valid "
        "items truncated at random prefixes, header corruptions, crafted continuation/nibble-count patterns, oversized lengths, byte runs and "
        "random bytes, each run through all 14 decoders under every split of the first 7 byte boundaries (1 input in 4) or 9 fixed/random "
        "splits: ASan catches any read past a block, success must equal the reference decoder's item and consume exactly it, failure must "
        "leave a suffix of the input; one evaluation = one (item) or one (input, split, decoder) run; non-trivial = every stream / every "
        "non-empty input; distinct = hash of the stream description / input bytes")
REG = dict(category="exploration",
           text="Runtime monitor: ~4e4 (quick) / 4e6 (thorough) marshalled items read back in order with size accounting against the documented "
                "wire format, and ~1e6 (quick) / 1e8 (thorough) decoder runs on arbitrary byte strings delivered as evbuffer reference chains of "
                "exact-size heap blocks in every split of the header region, under ASan+UBSan, compared with an independent reference decoder.",
           note="trusts the reference codec in harness/h_tag.c (written from the wire-format comment; nibble/group order calibrated to the "
                "implementation); input space sampled; two abort-class findings are isolated in forked children while they are present",
           technique="round-trip + differential decoder oracle + ASan red zones around exact-size chain blocks")
STEPS = [
    dict(flavor="asan", harness="h_tag", args=["--mode", "rt"], cases=dict(quick=300, thorough=30000)),
    dict(flavor="asan", harness="h_tag", args=["--mode", "fuzz"], cases=dict(quick=400, thorough=40000), seed_off=1),
]


def run(tier, seed):
    req = ["items", "streams_recut_into_heap_blocks", "wrong_tag_probes", "decoder_success", "decoder_failure",
           "inputs_with_every_header_split", "inputs_holding_a_wellformed_item", "inputs_malformed_or_truncated",
           "int_nibbles_1", "int_nibbles_8", "int_nibbles_9", "int_nibbles_16", "tag_bytes_1", "tag_bytes_5"]
    req += ["marshalled_" + k for k in ("int", "int64", "string", "timeval", "raw", "buffer", "nested", "bare_int", "bare_int64", "bare_tag")]
    req += ["read_back_" + k for k in ("int", "int64", "string", "timeval", "raw", "buffer", "nested", "bare_int", "bare_int64", "bare_tag")]
    return generic.run_spec("C42", tier, seed, STEPS, RULE, required=req,
                            assumptions=["the reference codec follows the wire-format comment of event_tagging.c with the implementation's nibble/group order",
                                         "byte strings are sampled from structured generators, splits are exhaustive only over the first 7 boundaries"])
