"""C42 tagged-data encoding (DESIGN §3 C42): round trips of evtag_marshal*/encode_* and every decoder on arbitrary
bytes delivered as reference chains of exact-size heap blocks (harness/h_tag.c)."""
from checks import generic
import vlib

# The harness allocates and frees many small exact-size blocks per evaluation; ASan's default 256 MB quarantine makes
# every allocation touch fresh pages (7x slower).  16 MB still keeps a freed block poisoned for thousands of evaluations.
ASAN_ENV = dict(ASAN_OPTIONS=vlib.sanitizer_env("asan")["ASAN_OPTIONS"] + ":quarantine_size_mb=16")

RULE = ("(a) round trips: streams of 1..12 items of 10 kinds (int, int64, string, timeval, raw, buffer, nested buffers, bare encode_int/"
        "encode_int64/encode_tag) with tags and values biased to every encoding-length boundary (2^4k, 2^7k +-1, 2^32-1, 2^64-1), payloads "
        "0..70000 bytes; encoded size checked against the wire format, the stream re-cut into exact-size heap blocks at random places, "
        "peek/peek_length/payload_length checked before each read, values/tags/consumed bytes checked after; (b) arbitrary bytes: valid "
        "items truncated at random prefixes, header corruptions, crafted continuation/nibble-count patterns, oversized lengths, byte runs and "
        "random bytes, each run through all 14 decoders under every split of the first 7 byte boundaries (1 input in 4) or 9 fixed/random "
        "splits: ASan catches any read past a block, success must equal the reference decoder's item and consume exactly it, failure must "
        "leave a suffix of the input; one evaluation = one (item) or one (input, split, decoder) run; non-trivial = every stream / every "
        "non-empty input; distinct = hash of the stream description / input bytes")
REG = dict(category="exploration",
           text="Runtime monitor: ~1.6e4 (quick) / 1e6 (thorough) marshalled items read back in order with size accounting against the documented "
                "wire format, and ~5e5 (quick) / 5e7 (thorough) decoder runs on arbitrary byte strings delivered as evbuffer reference chains of "
                "exact-size heap blocks in every split of the header region, under ASan+UBSan, compared with an independent reference decoder.",
           note="trusts the reference codec in harness/h_tag.c (written from the wire-format comment; nibble/group order calibrated to the "
                "implementation); input space sampled; two abort-class findings are isolated in forked children while they are present",
           technique="round-trip + differential decoder oracle + ASan red zones around exact-size chain blocks")


def steps(isoarg):
    extra = ["--arg", isoarg] if isoarg else []
    return [
        dict(flavor="asan", env=ASAN_ENV, harness="h_tag", args=["--mode", "rt"] + extra, cases=dict(quick=120, thorough=8000)),
        dict(flavor="asan", env=ASAN_ENV, harness="h_tag", args=["--mode", "fuzz"] + extra, cases=dict(quick=150, thorough=15000), seed_off=1),
    ]


def run(tier, seed):
    # Probe: does either of the two isolated abort classes (see harness/h_tag.c) still abort?  One forked evaluation per class.
    # The bulk steps then run the class in-process (clean) or skip it (still aborting; the probe's report is the finding).
    vlib.build("asan", ["h_tag"])
    pres = vlib.Result("C42")
    vlib.run_harness(pres, "asan", "h_tag", ["--mode", "probe"], 1, seed, nshards=1, env_extra=ASAN_ENV)
    st = pres.stats
    known = all(st.get("probe_%s_crashes" % c, 0) + st.get("probe_%s_clean" % c, 0) > 0 for c in ("tag_overread", "empty_unmarshal"))
    # if the probe itself failed, the bulk steps fall back to learning by forking (slower, same verdict)
    isoarg = "t%de%d" % (1 if st.get("probe_tag_overread_crashes") else 0, 1 if st.get("probe_empty_unmarshal_crashes") else 0) if known else None

    def post(res):
        for k, v in pres.stats.items():
            res.add_stat(k, v)
        res.viol += pres.viol
        res.inconclusive += pres.inconclusive
        res.flavors |= pres.flavors

    req = ["items", "streams_recut_into_heap_blocks", "wrong_tag_probes", "decoder_success", "decoder_failure",
           "inputs_with_every_header_split", "inputs_holding_a_wellformed_item", "inputs_malformed_or_truncated",
           "int_nibbles_1", "int_nibbles_8", "int_nibbles_9", "int_nibbles_16", "tag_bytes_1", "tag_bytes_5"]
    req += ["marshalled_" + k for k in ("int", "int64", "string", "timeval", "raw", "buffer", "nested", "bare_int", "bare_int64", "bare_tag")]
    req += ["read_back_" + k for k in ("int", "int64", "string", "timeval", "raw", "buffer", "nested", "bare_int", "bare_int64", "bare_tag")]
    return generic.run_spec("C42", tier, seed, steps(isoarg), RULE, required=req,
                            assumptions=["the reference codec follows the wire-format comment of event_tagging.c with the implementation's nibble/group order",
                                         "byte strings are sampled from structured generators, splits are exhaustive only over the first 7 boundaries",
                                         "while an isolated abort class is present its evaluations are executed only by the probe step "
                                         "(stat isolated_evaluations_skipped_budget counts the skipped ones)"],
                            post=post)
