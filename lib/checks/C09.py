"""C09 cross-thread calls: race-free, not lost, event_del waits (DESIGN §3 C09).

h_thread runs a loop thread sleeping on a one-hour timer and 1..6 workers that
call event_add/del/active, loopbreak/loopexit, bufferevent_write/enable/disable,
evbuffer_add/remove on shared objects (real clock, real threads).  Oracles in the
harness: ticket protocol (every cross-thread activation/add/loopbreak/write is
acted on; 15 s watchdog => re-run once => lost-wakeup), loop-iteration monitor
(the loop blocks again after a serviced wake-up; NONBLOCK loop returns), del-waits (in_cb == 0
right after event_del returns in the owning worker, no callback entry until it
re-arms), conservation of tickets / bytes.  ThreadSanitizer reports are keyed
here by the first library frame of the two racing stacks.
"""
import re
import vlib
from checks import generic

RULE = ("case = one base + loop thread + workers; 'storm' cases mix all operations with slow callbacks, 'solo' cases issue one "
        "kind of cross-thread operation at a time and await each ticket so that nothing else can wake the loop; "
        "non-trivial = at least one ticket / loopbreak / bufferevent_write was issued from a non-loop thread and resolved; "
        "distinct = hash(case index, PRNG state); interleavings are sampled, not enumerated")

STEPS = [
    dict(flavor="tsan", harness="h_thread", args=["--mode", "pthreads"], cases=dict(quick=32, thorough=1200),
         timeout=dict(quick=400, thorough=3000)),
    dict(flavor="tsan", harness="h_thread", args=["--mode", "lockmon", "--n1", "80"], cases=dict(quick=16, thorough=400), seed_off=31,
         timeout=dict(quick=400, thorough=3000)),
    dict(flavor="asan", harness="h_thread", args=["--mode", "lockmon", "--n1", "40"], cases=dict(quick=16, thorough=400), seed_off=57,
         timeout=dict(quick=400, thorough=3000)),
]

REG = dict(
    category="exploration",
    text=("Randomized real-thread schedules (TSan build with pthread locks; TSan and ASan builds with the lock monitor injecting "
          "yields/sleeps around every critical section) over epoll/poll/select and eventfd/pipe notification: every cross-thread "
          "event_active, event_add(10 ms), event_add(ready fd), loopbreak/loopexit and bufferevent_write carries a ticket that the "
          "sleeping loop (one-hour timer) must act on; event_del/event_del_block returning in a worker must find the callback not "
          "running and no callback may start before the worker re-arms the event; ticket, byte and evbuffer-length conservation; "
          "after a serviced wake-up with nothing else posted the loop must block again (a prepare watcher counts iterations over a "
          "quiet period: at most 50) and event_base_loop(EVLOOP_NONBLOCK) run after the cross-thread traffic must return; "
          "one slot kind adds the first EV_WRITE event to an fd that already carries a registered reader (backends that keep the interest set in user space must be woken for it); every ThreadSanitizer report with a library frame is a violation."),
    note=("Schedules are sampled, not enumerated; a race that needs a window the delay injection does not open can be missed. The "
          "lost-wakeup verdict needs the 15 s watchdog to fire twice for the same case (re-run), all other verdicts are logical. "
          "event_priority_set and other calls not named by the property are not exercised cross-thread. TSan reports without any "
          "library frame are counted (tsan_reports_without_library_frame) and ignored."),
    technique="stress with ThreadSanitizer + ticket/epoch oracles under injected scheduling delays",
)

_FR = re.compile(r"^\s*#\d+\s+(\S+)\s+(\S+?):\d+")
_FR2 = re.compile(r"^\s*#\d+\s+0x[0-9a-f]+\s+in\s+(\S+)\s+(\S+?):\d+")


def _is_lib(path):
    return "/repo/" in path or path.startswith(vlib.REPO.rstrip("/") + "/")


def _tsan_key(text):
    """first library (/repo) function of each of the first two stacks of a TSan report"""
    m = re.search(r"WARNING: ThreadSanitizer: (.+?) \(pid", text)
    kind = m.group(1).replace(" ", "-") if m else "report"
    stacks, cur, in_stack = [], None, False
    for ln in text.splitlines()[1:]:
        fm = _FR2.match(ln) or _FR.match(ln)
        if fm:
            if not in_stack:
                in_stack, cur = True, None
            if cur is None and _is_lib(fm.group(2)):
                cur = fm.group(1)
        else:
            if in_stack:
                stacks.append(cur)
                in_stack = False
                if len(stacks) >= 2:
                    break
    if in_stack and len(stacks) < 2:
        stacks.append(cur)
    fns = sorted(s for s in stacks if s)
    return kind, fns


def post(res):
    out = []
    for v in res.viol:
        if v["key"].startswith("tsan:"):
            kind, fns = _tsan_key(v["text"])
            if not fns:
                res.add_stat("tsan_reports_without_library_frame", 1)
                continue
            v = dict(v, key="tsan:%s:%s" % (kind, "+".join(fns)))
            res.add_stat("tsan_reports_with_library_frame", 1)
        out.append(v)
    res.viol = out
    res.stats.setdefault("tsan_reports_with_library_frame", 0)
    res.stats.setdefault("tsan_reports_without_library_frame", 0)


def run(tier, seed):
    return generic.run_spec("C09", tier, seed, STEPS, RULE,
                            required=["tickets_issued", "tickets_awaited_and_serviced", "tickets_cancelled_by_del", "event_del_calls_checked",
                                      "event_del_while_callback_running", "loopbreak_tickets", "bufferevent_writes", "cases_solo", "cases_storm",
                                      "slow_callbacks", "quiet_period_checks", "nonblock_loop_returned_checks", "cases_epoll", "cases_poll",
                                      "cases_select", "cases_pipe_notify"],
                            assumptions=["real scheduler: the explored interleavings are those the OS and the injected delays produce",
                                         "TSan models pthread mutexes/condvars (evthread_use_pthreads or the pthread-based lock monitor)"],
                            post=post)
