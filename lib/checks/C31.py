"""C31 WebSocket frame decoding: generated RFC 6455 client frame streams, each
sent under several segmentations to a real evws server session (harness h_ws);
the delivered (type, payload) list is compared with the RFC 6455 reference
decoder lib/ref/ws6455.py and across segmentations (DESIGN §3 C31)."""
import hashlib, itertools, json, os, random, sys
import vlib
from ref import ws6455 as W
from gen import wsgen as G

PROP = "C31"
NSHARDS = 16
NSTREAMS = dict(quick=1500, thorough=50000)
RULE = ("generated RFC 6455 client frame streams (masked/unmasked, 7/16/64-bit and non-minimal lengths, fragmented messages, "
        "interleaved control frames, close, reserved opcodes, lengths above the 10 MiB limit, malformed fragmentation, bytes after close) "
        "each run under one-shot / byte-at-a-time / frame-boundary / random (thorough: + header-split, second random) segmentation; "
        "a case = (stream, segmentation); non-trivial = the reference decoder delivers >=1 message or closes on that stream; "
        "distinct = hash of (stream bytes, segment lengths, callback options)")
REG = dict(
    category="exploration",
    text="Runtime differential + metamorphic monitor: ~1 500 (quick) / ~50 000 (thorough) generated RFC 6455 client frame streams, each sent "
         "over loopback to a real evhttp/evws server session under 4 (6) segmentations incl. byte-at-a-time; every message callback, the close "
         "callback, the bytes written back and the socket close are compared with an independent RFC 6455 reference decoder and across "
         "segmentations, under ASan+UBSan+LSan. Sampling of an infinite input space: held-on-observed.",
    note="trusts lib/ref/ws6455.py (reference decoder written from the RFC) and the loopback harness; RFC rules the property does not state "
         "(RSV bits, fragmented/long control frames, UTF-8 validity) are tri-state: either outcome accepted; payloads up to 1 MiB and the "
         "10 MiB limit boundary: 1 stream in quick, 4 in thorough",
    technique="differential runtime oracle (RFC 6455 reference decoder) + segmentation metamorphic relation + sanitizers")

KEY = hashlib.sha1


def stream_rng(seed, idx):
    return random.Random("C31/%d/%d" % (seed, idx))


def make_stream(seed, tier, idx):
    rng = stream_rng(seed, idx)
    if idx < (4 if tier == "thorough" else 1):   # quick: one exact-limit stream (seeded defect C31-2 was missed without it)
        # the documented limit itself: a frame of exactly 10 MiB must be delivered, one byte more closes
        s = G.Stream()
        s.cls = "limit"
        n = W.SIZE_LIMIT - (idx & 1)
        s.add(G.mk_frame(rng, W.BINARY, G.gen_binary(rng, n), lenform=64, masked=(idx < 2)))
        s.add(G.mk_frame(rng, W.TEXT, G.gen_text(rng, 5)))
        s.add(G.mk_header_only(rng, W.BINARY, W.SIZE_LIMIT + 1))
        s.add(G.mk_frame(rng, W.TEXT, G.gen_text(rng, 3)))
        s.tags.update(("too_big", "at_limit", "bytes_after_close"))
        return s.finish()
    return G.gen_stream(rng, tier)


def kinds_for(tier, s):
    k = G.SEG_KINDS[tier]
    if s.cls == "limit":
        return ("one", "frame")
    return k


def case_lines(seed, idx, s, kinds, req, after=None):
    out = ["S0", "S X " + req.hex()] + s.script_pieces()
    segs_all = {}
    for ki, kind in enumerate(kinds):
        segs = G.segmentation(random.Random("C31seg/%d/%d/%s" % (seed, idx, kind)), s, kind)
        segs_all[kind] = segs
        if after is not None and idx * 8 + ki <= after:
            continue          # resuming after a crash: this case already ran
        out.append("CASE %d" % (idx * 8 + ki))
        if s.echo:
            out.append("ECHO 1")
        if s.closeat:
            out.append("CLOSEAT %d %d" % s.closeat)
        out.append("SEND %d" % len(req))
        out.append("FLUSH HS")
        # long SEND lines are split (the cursor is kept by the harness)
        for i in range(0, len(segs), 4000):
            out.append("SEND " + " ".join(map(str, segs[i:i + 4000])))
        out += ["FLUSH WS", "EOF", "FLUSH EOF", "END"]
    return out, segs_all


def request_for(seed, idx):
    rng = random.Random("C31req/%d/%d" % (seed, idx))
    key = G.std_key(rng)
    return G.upgrade_request(key, plain=True), key


def shard_indices(total, shard):
    return range(shard, total, NSHARDS)


def write_script(a):
    seed, tier, shard, total, path, only, after = a
    with open(path, "w") as f:
        for idx in ([only] if only is not None else shard_indices(total, shard)):
            if after is not None and idx * 8 + 7 <= after:
                continue
            s = make_stream(seed, tier, idx)
            req, _ = request_for(seed, idx)
            lines, _ = case_lines(seed, idx, s, kinds_for(tier, s), req, after)
            f.write("\n".join(lines))
            f.write("\n")
    return path


# ------------------------------------------------------------------ judging
def apply_closeat(o, closeat):
    if closeat and len(o.msgs) >= closeat[0]:
        o.msgs = o.msgs[:closeat[0]]
        o.closed = "app-close"
    return o


def okey(o):
    return ([G.msg_repr(t, p) for t, p, _ in o.msgs], bool(o.closed))


def akey(tr):
    return (list(tr.msgs), bool(tr.peer_closed))


def common_prefix(a, b):
    n = 0
    while n < len(a) and n < len(b) and a[n] == b[n]:
        n += 1
    return n


def generic_key(A, E, Eo):
    """key for a deviation that is not one of the recognised known shapes"""
    am, ac = A
    em, ec = E
    n = common_prefix(am, em)
    if n == len(am) == len(em):
        return ("C31:not-closed:%s" % Eo.closed) if ec and not ac else "C31:unexpected-close"
    if n == len(am) < len(em):
        return "C31:message-lost"
    if n == len(em) < len(am):
        return ("C31:delivered-after:%s" % Eo.closed) if ec else "C31:spurious-message"
    x, y = am[n], em[n]
    if x[0] != y[0] and x[1:] == y[1:]:
        return "C31:type-mismatch"
    if x[0] == y[0] and x[1] == y[1]:
        return "C31:payload-mismatch"
    return "C31:message-mismatch"


def judge_stream(s, traces, kinds, stats):
    """-> list of (key, text, kind)"""
    viol = []
    frames = W.split_frames(s.wire)
    outs = [apply_closeat(o, s.closeat) for o in W.acceptable_outcomes(frames)]
    exp = [okey(o) for o in outs]
    dev = okey(apply_closeat(W.decode_nonstandard_fragmentation(frames), s.closeat))

    def best(A):
        bi, bn = 0, -1
        for i, E in enumerate(exp):
            n = common_prefix(A[0], E[0]) * 2 + (1 if A[1] == E[1] else 0)
            if n > bn:
                bi, bn = i, n
        return exp[bi], outs[bi]

    def describe(A, E, kind):
        def short(ms):
            return "[" + ", ".join("(%d,len %d,%s)" % (m[0], m[1], m[3][:24]) for m in ms[:8]) + (" ..." if len(ms) > 8 else "") + "]"
        return ("stream={%s} cls=%s seg=%s opts=%s: delivered %s closed=%s; reference %s closed=%s" % (
            s.desc(), s.cls, kind, dict(echo=s.echo, closeat=s.closeat), short(A[0]), A[1], short(E[0]), E[1]))[:1200]

    def classify_alone(A):
        """key of a run judged on its own (None = equals an acceptable reference outcome)"""
        if A in exp:
            return None
        E, Eo = best(A)
        if A == dev:
            n = len(A[0])
            if n < len(E[0]) and E[0][:n] == A[0] and Eo.msgs[n][2] > 1 and A[1]:
                return "C31:fragmented-message-not-delivered"
            if Eo.closed == "bad-fragmentation":
                return "C31:malformed-fragmentation-accepted"
        return generic_key(A, E, Eo)

    # base run: every frame arrives in its own read, so nothing can follow a closing frame
    # inside the same read
    base_kind = "frame" if "frame" in traces else ("byte" if "byte" in traces and len(s.wire) <= G.BYTEWISE_MAX else None)
    base = akey(traces[base_kind]) if base_kind else None
    base_key = classify_alone(base) if base is not None else None
    for kind in kinds:
        tr = traces.get(kind)
        if tr is None:
            continue
        A = akey(tr)
        stats["cases_judged"] = stats.get("cases_judged", 0) + 1
        stats["msgs_delivered"] = stats.get("msgs_delivered", 0) + len(A[0])
        if A in exp:
            stats["cases_equal_reference"] = stats.get("cases_equal_reference", 0) + 1
            if len(exp) > 1:
                stats["cases_either_rule_touched"] = stats.get("cases_either_rule_touched", 0) + 1
        elif base is not None and A == base:
            viol.append((base_key, describe(A, best(A)[0], kind), kind))
        elif base is not None and base[1] and len(A[0]) > len(base[0]) and A[0][:len(base[0])] == base[0]:
            # the connection was closed at the same point as in the frame-by-frame run, but
            # frames that arrived in the same read as the closing frame were still delivered
            viol.append(("C31:message-after-close", describe(A, best(A)[0], kind), kind))
        elif base is None:
            viol.append((classify_alone(A), describe(A, best(A)[0], kind), kind))
        else:
            viol.append(("C31:segmentation-dependent:" + classify_alone(A)[4:], describe(A, best(A)[0], kind), kind))
        # bytes written back
        k2 = check_written_back(s, tr, A)
        if k2:
            viol.append((k2, "stream={%s} seg=%s RX=%s" % (s.desc(), kind, tr.rx.get("WS")), kind))
    return viol, outs


def check_written_back(s, tr, A):
    rx = tr.rx.get("WS")
    if rx is None or rx[1] != "X":
        return None
    data = bytes.fromhex(rx[2])
    frames, rest = W.parse_server_frames(data)
    if rest and not tr.peer_reset:
        return "C31:written-bytes-malformed"
    echoed = []
    nclose = 0
    for f in frames:
        if f.masked or f.rsv:
            return "C31:written-frame-masked-or-rsv"
        if f.opcode in (1, 2):
            if not s.echo or not f.fin:
                return "C31:unexpected-frame-written"
            echoed.append(G.msg_repr(f.opcode, f.payload))
        elif f.opcode == 8:
            nclose += 1
        elif f.opcode != 10:
            return "C31:unexpected-frame-written"
    if nclose > 1:
        return "C31:close-frame-written-twice"
    if nclose and not tr.peer_closed_any:
        return "C31:close-frame-written-connection-open"
    # the harness echoes text through evws_send_text (a C string): up to the first NUL
    want = [G.msg_repr(m[0], bytes.fromhex(m[3]).split(b"\0")[0] if m[0] == 1 else bytes.fromhex(m[3])) for m in A[0] if m[2] == "X"]
    if s.echo and not tr.peer_reset and echoed != want:
        return "C31:echo-mismatch"
    return None


def judge_shard(a):
    seed, tier, shard, total, outpaths, only = a
    stats, viols, hashes, samples, incon = {}, [], [], [], []
    it = itertools.chain.from_iterable(G.parse_trace(p) for p in outpaths)
    pending = None

    def nxt():
        try:
            return next(it)
        except StopIteration:
            return None
    pending = nxt()
    for idx in ([only] if only is not None else shard_indices(total, shard)):
        s = make_stream(seed, tier, idx)
        kinds = kinds_for(tier, s)
        req, key = request_for(seed, idx)
        traces = {}
        for ki, kind in enumerate(kinds):
            cid = idx * 8 + ki
            if pending is not None and pending.id == cid:
                tr = pending
                pending = nxt()
                if not tr.ended:
                    stats["cases_truncated"] = stats.get("cases_truncated", 0) + 1
                    continue
                if tr.stall:
                    incon.append("case %d: %s" % (cid, tr.stall))
                    continue
                hs = tr.rx.get("HS")
                if tr.session != 1 or hs is None or hs[1] != "X" or not bytes.fromhex(hs[2]).startswith(b"HTTP/1.1 101"):
                    incon.append("case %d: websocket session not established (precondition)" % cid)
                    continue
                traces[kind] = tr
            else:
                stats["cases_missing"] = stats.get("cases_missing", 0) + 1
        if not traces:
            continue
        stats["streams"] = stats.get("streams", 0) + 1
        stats["streams_" + s.cls] = stats.get("streams_" + s.cls, 0) + 1
        v, outs = judge_stream(s, traces, kinds, stats)
        for key_, text, kind in v:
            viols.append((key_, text, dict(seed=seed, tier=tier, idx=idx, kind=kind)))
        if not v:
            stats["streams_all_segmentations_equal_reference"] = stats.get("streams_all_segmentations_equal_reference", 0) + 1
        # evidence counters about what the workload contained
        lax = outs[0]
        nontriv = bool(lax.msgs) or bool(lax.closed)
        for f in s.frames:
            stats["frames"] = stats.get("frames", 0) + 1
            for cond, name in ((f.mask is not None, "frames_masked"), (f.mask is None, "frames_unmasked"),
                               (f.lenform == 7, "frames_len7"), (f.lenform == 16, "frames_len16"), (f.lenform == 64, "frames_len64"),
                               (f.payload is not None and f.lenform != W.minimal_lenform(f.declared), "frames_nonminimal_length"),
                               (f.opcode == 0, "frames_continuation"), (f.opcode in (9, 10), "frames_ping_pong"),
                               (f.opcode == 8, "frames_close"), (f.declared >= 65536 and f.payload is not None, "frames_payload_ge_64k"),
                               (f.declared >= (1 << 20) and f.payload is not None, "frames_payload_ge_1MiB")):
                if cond:
                    stats[name] = stats.get(name, 0) + 1
        for t in s.tags:
            stats["streams_with_" + t] = stats.get("streams_with_" + t, 0) + 1
        stats["ref_msgs"] = stats.get("ref_msgs", 0) + len(lax.msgs)
        stats["ref_msgs_fragmented"] = stats.get("ref_msgs_fragmented", 0) + sum(1 for m in lax.msgs if m[2] > 1)
        if lax.closed:
            stats["ref_close_" + lax.closed] = stats.get("ref_close_" + lax.closed, 0) + 1
        for kind, tr in traces.items():
            stats["cases"] = stats.get("cases", 0) + 1
            stats["seg_" + kind] = stats.get("seg_" + kind, 0) + 1
            if tr.closecb:
                stats["close_callbacks"] = stats.get("close_callbacks", 0) + 1
            if tr.peer_closed:
                stats["server_closed_connection"] = stats.get("server_closed_connection", 0) + 1
            if tr.rx.get("WS", (0,))[0]:
                stats["cases_with_bytes_written_back"] = stats.get("cases_with_bytes_written_back", 0) + 1
            if nontriv:
                h = KEY(s.wire + repr((kind, s.echo, s.closeat)).encode()
                        + repr(G.segmentation(random.Random("C31seg/%d/%d/%s" % (seed, idx, kind)), s, kind)[:64]).encode()).digest()
                hashes.append(int.from_bytes(h[:8], "big"))
        if len(samples) < 2 and nontriv and len(s.wire) < 400:
            tr = traces.get("rand") or list(traces.values())[0]
            samples.append(dict(stream=s.desc(), cls=s.cls, wire_hex=s.wire.hex()[:300], delivered=[list(m[:2]) for m in tr.msgs[:6]],
                                closed=tr.peer_closed, ref_msgs=len(lax.msgs), ref_closed=lax.closed))
    return stats, viols, hashes, samples, incon


def _pool(n):
    import multiprocessing
    return multiprocessing.get_context("fork").Pool(min(n, vlib.NCPU))


def execute(res, tier, seed, only=None):
    vlib.build("asan", ["h_ws"])
    wd = vlib.workdir(PROP)
    total = NSTREAMS[tier]
    shards = [only % NSHARDS] if only is not None else list(range(NSHARDS))
    wargs = [(seed, tier, sh, total, os.path.join(wd, "ws-%s-%d-%d.script" % (tier, seed, sh)), only, None) for sh in shards]
    with _pool(len(wargs)) as p:
        p.map(write_script, wargs)
    jobs = [dict(args=["--arg", a[4], "--n1", 900 if tier == "thorough" else 180], tag="c31-%s-%d-%d" % (tier, seed, a[2]), replay=dict(seed=seed, tier=tier, shard=a[2])) for a in wargs]
    # The harness restarts itself behind a case that died with a sanitizer report.  UBSan stack
    # traces cost ~3 s of symbolisation per report and are not part of the key; --replay runs
    # with the default environment and prints them.
    outs = vlib.run_jobs(res, "asan", "h_ws", jobs, timeout=3600 if tier == "thorough" else 600,
                         env_extra=None if only is not None else {"UBSAN_OPTIONS": "print_stacktrace=0:halt_on_error=1"})
    jargs = [(seed, tier, a[2], total, [o["out"]], only) for a, o in zip(wargs, outs)]
    with _pool(len(jargs)) as p:
        results = p.map(judge_shard, jargs)
    for (stats, viols, hashes, samples, incon), o in zip(results, outs):
        for k, v in stats.items():
            res.add_stat(k, v)
        for key, text, rp in viols:
            res.add_viol(key, text, rp)
        res.hashes.update(hashes)
        for smp in samples:
            if len(res.samples) < 6:
                res.samples.append(smp)
        res.inconclusive += incon[:3]
        if (stats.get("cases_missing", 0) or stats.get("cases_truncated", 0)) and not o["keys"]:
            res.inconclusive.append("trace of %s incomplete without a sanitizer report" % o["job"]["tag"])
    for a in wargs:
        try:
            os.unlink(a[4])
        except OSError:
            pass
    res.evaluations = res.stats.get("cases", 0)
    return res


REQUIRED = ["cases", "ref_msgs", "msgs_delivered", "frames_masked", "frames_unmasked", "frames_len7", "frames_len16", "frames_len64",
            "frames_nonminimal_length", "frames_continuation", "frames_ping_pong", "frames_close", "ref_msgs_fragmented",
            "ref_close_close-frame", "ref_close_reserved-opcode", "ref_close_too-big", "ref_close_bad-fragmentation",
            "streams_with_bytes_after_close", "streams_with_ctl_interleaved", "seg_one", "seg_byte", "seg_frame", "seg_rand",
            "close_callbacks", "server_closed_connection", "cases_with_bytes_written_back", "frames_payload_ge_64k",
            "streams_all_segmentations_equal_reference"]


def run(tier, seed):
    res = vlib.Result(PROP)
    execute(res, tier, seed)
    req = list(REQUIRED)
    req += ["streams_with_at_limit"]
    if tier == "thorough":
        req += ["frames_payload_ge_1MiB", "seg_hdrsplit"]
    return vlib.finish(res, tier, seed, RULE, required=req,
                       assumptions=["the reference decoder lib/ref/ws6455.py is correct",
                                    "RFC rules not stated by the property (RSV bits, control-frame FIN/length, UTF-8) accept either outcome",
                                    "size limit = 10 MiB as documented in ws.c"])


def replay(info):
    r = info["replay"]
    if "idx" not in r:
        # sanitizer report of a whole shard: re-run the shard
        p = r.get("payload", {})
        res = vlib.Result(PROP)
        execute(res, p.get("tier", "quick"), p.get("seed", 1))
    else:
        res = vlib.Result(PROP)
        execute(res, r["tier"], r["seed"], only=r["idx"])
    bad = [v for v in res.viol if v["key"] == info["key"]]
    for v in res.viol:
        print("replayed: key=%s %s" % (v["key"], v["text"][:500]))
    if bad:
        print("VIOLATION property=%s replay=%s" % (PROP, "(replayed)"))
        return 1
    print("not reproduced")
    return 0
