"""C03 priorities and loop control vs reference model (harness/h_core.c, mode prio)."""
from checks import generic

RULE = ("random histories with 1-6 priorities, max_dispatch_interval (callbacks 0/1/2/5/none, time none/0/1ms, limit_after_prio 0-2), activations at "
        "several priorities from outside and inside callbacks, event_active_later_, bursts of >32 deferred callbacks, loopbreak/loopexit(0|t)/loopcontinue at "
        "arbitrary callback points, loop flags 0/ONCE/NONBLOCK/NO_EXIT_ON_EMPTY; callback order, loop return value, got_break/got_exit matched in lockstep; "
        "non-trivial = callbacks ran and >=1 of {higher-priority activation, loopcontinue, over-quota deferral, later promotion} occurred; distinct = hash(seed, case, #callbacks, #queries)")
STEPS = [
    dict(flavor="asan", harness="h_core", args=["--mode", "prio"], cases=dict(quick=16000, thorough=600000)),
    dict(flavor="asan", harness="h_core", args=["--mode", "state"], cases=dict(quick=3000, thorough=60000), seed_off=104),
]
REG = dict(category="exploration",
           text="Online lockstep monitor of the scheduler: one priority level per iteration, FIFO inside a level (groups reported by one dispatch / equal deadlines free), "
                "event_continue on higher-priority activation, quota/time limits only at >= limit_after_prio, later/over-quota callbacks only in a later iteration and never "
                "lost (the model keeps expecting them), loop exit conditions per flag.",
           note="trusts the model in harness/h_core.c; CALIBRATED: EVLOOP_NONBLOCK iterates until nothing is active; deferred callbacks do not pre-empt the running level; "
                "runaway loops are cut by a scripted loopbreak applied to model and library alike",
           technique="lockstep reference-model monitor + ASan/UBSan")


def run(tier, seed):
    return generic.run_spec("C03", tier, seed, STEPS, RULE,
                            required=["callbacks", "later_promoted", "defer_over_quota", "over_quota_deferrals", "loopbreak_seen", "loopexit_seen",
                                      "loopcontinue_or_preempt", "higher_prio_activations", "loops"])
