"""C01 timers: lockstep model of the event loop under a virtual clock (harness/h_core.c, mode timers)."""
from checks import generic

RULE = ("random API histories (add/re-add/del/remove_timer/persist/common-timeout, ops also from inside callbacks, clock advances "
        "0..hours incl. exactly-to-deadline and deadline-1us, wait oversleep) on 4 backends x time-cache on/off, followed in lockstep by a "
        "reference model: every callback, its result flags, every backend wait timeout and loop return is matched; "
        "non-trivial = a history in which >=1 timer fired and >=1 cancel/re-add preceded a deadline; distinct = hash(seed, case, #callbacks, #queries)")
STEPS = [
    dict(flavor="asan", harness="h_core", args=["--mode", "timers"], cases=dict(quick=16000, thorough=600000)),
    dict(flavor="asan", harness="h_core", args=["--mode", "state"], cases=dict(quick=4000, thorough=100000), seed_off=101),
]
REG = dict(category="exploration",
           text="Online lockstep monitor: the real event_base_loop is followed step by step (virtual clock via wrapped clock_gettime/epoll_pwait2/poll/select) "
                "against a reference model of timer semantics: never early, never late (checked at the iteration whose clock reading passes the deadline), "
                "exactly once per add, persist re-arm rule, heap order with equal-deadline groups free, common-timeout FIFO, and the timeout handed to the backend. "
                "Held on the generated histories only.",
           note="trusts the model in harness/h_core.c (CALIBRATED items listed in its header comment: loop time cache, NONBLOCK semantics); ASan+UBSan live; "
                "histories are sampled, not enumerated",
           technique="lockstep reference-model monitor under virtual time + ASan/UBSan")


def run(tier, seed):
    return generic.run_spec("C01", tier, seed, STEPS, RULE,
                            required=["timers_fired", "cancel_or_readd_before_deadline", "persist_rearms", "common_timeout_fired",
                                      "waits_checked", "equal_deadline_groups", "callbacks"],
                            assumptions=["virtual clock: waits never sleep; time advances by the timeout the library asked for plus a scripted oversleep"])
