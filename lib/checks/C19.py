"""C19 bufferevent callback lifecycle (DESIGN §3 C19): regular-language monitor over the user callbacks of
socket / pair / filter bufferevents through connect success, refusal, injected connect errors, hostname lookups
(answered, NXDOMAIN, slow, cancelled by free, numeric) against a harness-owned fake nameserver, EOF / reset,
setcb(NULL), free from inside callbacks and base free."""
from checks import generic

RULE = ("random sessions of 1-6 bufferevents (TCP/AF_UNIX connect ok/refused/injected errno, connect_hostname via evdns with a fake "
        "nameserver: answer, NXDOMAIN, held back, free during lookup, numeric; pre-connected socket, pair, filter; options "
        "DEFER/UNLOCK/THREADSAFE/CLOSE_ON_FREE) with scripted peer traffic, half-close, reset, enable/disable, triggers, "
        "setcb(NULL), free from outside and from planned points inside callbacks, three teardown orders; plus 'order' sessions "
        "where read conditions observed at the read syscalls of several deferred bufferevents must be delivered in that order; "
        "non-trivial = at least one user callback ran; distinct = hash of the script")
STEPS = [
    dict(flavor="asan", harness="h_bev2", args=["--mode", "lifecycle"], cases=dict(quick=6000, thorough=100000),
         timeout=dict(quick=600, thorough=3000)),
]
REG = dict(
    category="exploration",
    text="Bufferevent user callbacks follow the lifecycle: CONNECTED at most once and before any read/write callback of that "
         "connection, EOF/ERROR at most once per direction, no read callback after EOF, nothing after bufferevent_free or "
         "setcb(NULL), deferred batches in order of their conditions; refcount assertion, ASan/UBSan/LSan and a lock ledger live.",
    note="Sampled histories (not exhaustive); single-threaded schedules (THREADSAFE exercised for its lock discipline only); TLS "
         "bufferevents not covered; trusts the kernel's loopback semantics and the sysfault observer for condition order.",
    technique="runtime monitor (regular language over callback sequence) + sanitizers")


def run(tier, seed):
    return generic.run_spec("C19", tier, seed, STEPS, RULE,
                            required=["connected_events", "wm_cycles_after_read_end", "connect_errors_reported", "dns_errors_reported", "lookups_cancelled_by_free", "lookups_cancelled_by_setfd", "server_spoke_first",
                                      "eof_events", "error_events", "freed_inside_callback", "callbacks_cleared", "read_callbacks",
                                      "write_callbacks", "deferred_batches_in_order", "hostname_connects", "subjects_pair", "subjects_filter"],
                            assumptions=["callback order within one deferred batch (CONNECTED, read, write, event) is the library's documented choice; "
                                         "the oracle requires CONNECTED first, data before EOF of the same direction and FIFO across bufferevents"])
