"""C27: every evhttp_make_request request completes exactly once (0 iff cancelled / its connection was freed),
error callback at most once, nothing after cancel/free returned, whatever the peer does; server side: one
response per request at most, clients vanishing at any point, max_connections honoured; everything freed
exactly once (memfault census + ASan).  Harness: harness/h_httpmsg.c, generators: lib/gen/httpmsggen.py."""
import random
import vlib
from gen import httpmsggen as G
from ref import httpstrict as S

PROP = "C27"
# per batch: client fault cases, server vanish cases, max-connection cases
SIZES = dict(quick=(1, 900, 200, 60), thorough=(50, 900, 200, 60))
RULE = ("client: 1-5 queued requests (GET/POST, equal wire length) on one evhttp_connection with retries 0-3 and timeouts against a scripted raw "
        "server: refusal, close/reset/half-close after byte i of a request or byte k of a response (sampled in quick, every i and k for the small "
        "exchanges in thorough), stall until the virtual timeout, close after the response, junk, double responses, injected readv/writev errors, "
        "1-byte library reads/writes; user actions (cancel, connection free, stop+teardown, new request) inside completion/error/chunk/header "
        "callbacks and between loop steps; server: raw clients cutting the request at byte i, vanishing before/within the (up to 1.5 MB) "
        "response, held and chunked replies, pipelining; max_connections 1-3 with 1-3 extra clients. non-trivial = a request was made and its "
        "fate observed, or a server connection was opened; distinct = hash of the case script")
CANCEL_ERR = "4"      # EVREQ_HTTP_REQUEST_CANCEL


def _k(name):
    return "%s:%s" % (PROP, name)


def judge_client(meta, ev, st):
    out = []
    made, mkret = {}, {}
    ccb, ecb, other = {}, {}, {}
    cancel_b, cancel_e = {}, {}
    free_b = free_e = None
    td_free_e = None
    stop_at = None
    teardown = None
    breaks = []            # indices of tick/drained events (a callback chain never spans them)
    for i, e in enumerate(ev):
        t = e[0]
        if t == "mk" and len(e) > 2:
            rid = int(e[1])
            if e[2] == "begin":
                made[rid] = i
            elif e[2].startswith("ret="):
                mkret[rid] = int(e[2][4:])
        elif t == "ccb":
            ccb.setdefault(int(e[1]), []).append((i, e))
        elif t == "ecb":
            ecb.setdefault(int(e[1]), []).append((i, e))
        elif t in ("kcb", "hcb"):
            other.setdefault(int(e[1]), []).append((i, e))
        elif t == "cancel" and e[2] == "begin":
            cancel_b[int(e[1])] = i
        elif t == "cancel" and e[2] == "end":
            cancel_e[int(e[1])] = i
        elif t == "freecon" and len(e) > 3 and e[3] == "teardown":
            # the harness's own end-of-case cleanup is not a user action: a request still pending at that point was never
            # completed (lead fix after seeded defect C27-1: such requests used to be excused as "freed with the connection")
            if e[2] == "end":
                td_free_e = i
        elif t == "freecon" and e[2] == "begin" and free_b is None:
            free_b = i
        elif t == "freecon" and e[2] == "end" and free_e is None:
            free_e = i
        elif t == "stop" and stop_at is None:
            stop_at = i
        elif t == "teardown":
            teardown = i
        elif t in ("tick", "drained"):
            breaks.append(i)
        elif t in ("noidle", "runaway"):
            out.append((_k("loop-never-idle"), "the loop did not reach an idle point (%s)" % t))
    if teardown is None:
        return out
    drained = [e for e in ev if e[0] == "drained"]
    limit_hit = bool(drained) and drained[-1][2] == "settled=0" and not any(e[0] == "tick" and e[-1] == "blocked" for e in ev) \
        and int(drained[-1][1]) >= 40
    blocked = any(e[0] == "tick" and e[-1] == "blocked" for e in ev)
    for rid, mi in made.items():
        st["requests_made"] = st.get("requests_made", 0) + 1
        cc = ccb.get(rid, [])
        ec = ecb.get(rid, [])
        ot = other.get(rid, [])
        desc = "request %d of case (fault %s)" % (rid, meta.get("fault"))
        if len(cc) > 1:
            out.append((_k("completion-callback-twice"), "%s: completion callback ran %d times" % (desc, len(cc))))
        if len(ec) > 1:
            out.append((_k("error-callback-twice"), "%s: error callback ran %d times" % (desc, len(ec))))
        if cc and ec and ec[0][0] > cc[0][0]:
            out.append((_k("error-callback-after-completion"), "%s: error callback after the completion callback" % desc))
        if cc:
            ok = cc[0][1][-1] != "null" and any(t in ("code=200", "code=204") for t in cc[0][1])
            st["completed_ok" if ok else "completed_failed"] = st.get("completed_ok" if ok else "completed_failed", 0) + 1
        if ec:
            st["error_cb_" + ec[0][1][-1]] = st.get("error_cb_" + ec[0][1][-1], 0) + 1
        if rid in cancel_b:
            st["cancelled"] = st.get("cancelled", 0) + 1
            cb_, ce_ = cancel_b[rid], cancel_e.get(rid, cancel_b[rid])
            if any(i > cb_ for i, _ in cc):
                out.append((_k("completion-after-cancel"), "%s: completion callback ran although evhttp_cancel_request was called" % desc))
            elif cc:
                out.append((_k("harness"), "cancel issued for an already completed request"))
            if any(i > ce_ for i, _ in ec + ot):
                out.append((_k("callback-after-cancel"), "%s: a callback ran after evhttp_cancel_request returned" % desc))
            continue
        if free_e is not None and mi < free_e:
            late = [i for i, _ in cc + ec + ot if i > free_e]
            # the completion that belongs to an error callback already running when the user freed the connection is owed
            owed = [i for i, _ in cc if i > free_e and ec and ec[0][0] < free_b and not any(ec[0][0] < b < i for b in breaks)]
            late = [i for i in late if i not in owed]
            if late:
                out.append((_k("callback-after-connection-free"), "%s: a callback ran after evhttp_connection_free returned" % desc))
            if not cc:
                st["freed_with_connection"] = st.get("freed_with_connection", 0) + 1
            continue
        if stop_at is not None and (not cc):
            st["stopped_pending"] = st.get("stopped_pending", 0) + 1
            continue
        if mkret.get(rid, 0) != 0:
            st["make_request_failed"] = st.get("make_request_failed", 0) + 1
            continue
        if not cc:
            # witness class of a deviation known in the tree: with EVHTTP_CON_READ_ON_WRITE_ERROR the EOF that arrives while a
            # partial response is buffered only schedules a deferred re-parse; the incomplete message is then waited for forever
            # (a request queued behind the hung one shares its fate, hence any peer end in the case counts)
            peer_ended = any(e[0] == "pact" and e[-1] in ("close", "reset", "shutdown", "shutwr") for i, e in enumerate(ev))
            if meta.get("rowe") and peer_ended and blocked:
                out.append((_k("request-never-completed:eof-with-partial-response-under-READ_ON_WRITE_ERROR"),
                            "%s: peer ended the connection with a partial response buffered; no completion callback" % desc))
            elif blocked:
                out.append((_k("request-never-completed"), "%s: no completion callback and the loop has nothing left to wait for" % desc))
            elif limit_hit:
                out.append((_k("not-settled-after-40-timer-steps"), "%s: still pending after 40 timer expirations" % desc))
            else:
                out.append((_k("request-never-completed"), "%s: no completion callback by the end of the case" % desc))
        elif ec and ec[0][1][-1] == "err=" + CANCEL_ERR:
            out.append((_k("cancel-error-without-cancel"), "%s: REQUEST_CANCEL reported but nobody cancelled" % desc))
    # Witness class of a deviation already known in the tree: evhttp_cancel_request of a still queued request from
    # inside a completion callback that evhttp_connection_cb_cleanup is running (connect failed for good; such
    # callbacks get a non-NULL request with response code 0).  The queue is corrupted; what follows in the case
    # (lost request, leak) is reported under that specific key.
    cleanup_cancel = False
    last_cb = None
    for i, e in enumerate(ev):
        if e[0] in ("ccb", "ecb", "kcb", "hcb"):
            last_cb = e
        elif e[0] in ("tick", "drained", "mk") and not (e[0] == "mk"):
            last_cb = None
        elif e[0] == "cancel" and e[2] == "begin" and e[3] == "incb" and last_cb is not None:
            if last_cb[0] == "ccb" and "code=0" in last_cb and last_cb[-1] != "null":
                cleanup_cancel = True
    if cleanup_cancel:
        out = [(_k("cancel-in-connect-failure-callback:" + k.split(":", 1)[1]) if k.split(":", 1)[1].split(":")[0] in
                ("request-never-completed", "not-settled-after-40-timer-steps") else k, t) for k, t in out]
        st["cancel_in_cleanup_callback"] = st.get("cancel_in_cleanup_callback", 0) + 1
    meta["_cleanup_cancel"] = cleanup_cancel
    for rid in list(ccb) + list(ecb) + list(other):
        if rid not in made:
            out.append((_k("callback-for-unmade-request"), "callback for request %d that was never made" % rid))
    return out


def _peer_of_uri(hexuri):
    u = G.unhx(hexuri) or b""
    if b"?p=" in u:
        try:
            return int(u.split(b"?p=")[1])
        except ValueError:
            return None
    return None


def judge_server(meta, ev, st):
    out = []
    scb_by_peer = {}
    tokens = {}
    sdone = {}
    for e in ev:
        if e[0] == "scb":
            tok = int(e[2])
            pid = _peer_of_uri(e[-1][4:]) if e[-1].startswith("uri=") else None
            if tok in tokens:
                out.append((_k("server-callback-twice-for-request"), "token %d delivered twice" % tok))
            tokens[tok] = pid
            scb_by_peer[pid] = scb_by_peer.get(pid, 0) + 1
            st["server_requests_delivered"] = st.get("server_requests_delivered", 0) + 1
        elif e[0] == "sdone":
            sdone[int(e[1])] = sdone.get(int(e[1]), 0) + 1
        elif e[0] == "sresume" and e[-1] == "conn=0":
            st["reply_after_connection_gone"] = st.get("reply_after_connection_gone", 0) + 1
        elif e[0] in ("noidle", "runaway"):
            out.append((_k("loop-never-idle"), "the loop did not reach an idle point (%s)" % e[0]))
    for tok, n in sdone.items():
        if n > 1:
            out.append((_k("on-complete-twice"), "on_complete callback ran %d times for one request" % n))
    pb = G.peer_bytes(ev)
    # a server timeout that fired (virtual clock advanced) may legitimately drop a connection
    timed = any(e[0] == "tick" and e[1] != "0" for e in ev)
    keeps = meta["ver"] == "1.1" and meta["mode"] != "error" and not timed
    for p in meta["peers"]:
        pid = p["pid"]
        n = scb_by_peer.get(pid, 0)
        st["peer_" + p["beh"]] = st.get("peer_" + p["beh"], 0) + 1
        if n > p["sent_complete"]:
            out.append((_k("request-delivered-more-than-sent"), "peer %d sent %d complete requests, callback ran %d times" % (pid, p["sent_complete"], n)))
        if p["beh"] in ("complete", "shut-after-request") and n != 1 and not timed:
            out.append((_k("server-request-not-delivered"), "peer %d (%s) sent a complete request, callback ran %d times" % (pid, p["beh"], n)))
        if p["beh"] in ("keepalive2", "pipeline2") and keeps and n != 2:
            out.append((_k("server-request-not-delivered"), "peer %d (%s, keep-alive) sent 2 requests, callback ran %d times" % (pid, p["beh"], n)))
        if not meta["big"]:
            data, eof, _err = pb.get(pid, (b"", False, False))
            msgs, rest, err = S.parse_all(data, "response", req_methods=[meta["method"].encode()] * 8, eof=eof)
            extra = 1 if p["beh"] == "garbage" else 0
            if len(msgs) > n + extra:
                out.append((_k("more-responses-than-requests"), "peer %d got %d responses for %d delivered requests" % (pid, len(msgs), n)))
            st["server_responses_seen"] = st.get("server_responses_seen", 0) + len(msgs)
            if p["beh"] in ("complete", "keepalive2", "pipeline2", "shut-after-request") and not err and len(msgs) != n and not timed:
                out.append((_k("response-missing"), "peer %d (%s): %d requests delivered, %d responses on the wire" % (pid, p["beh"], n, len(msgs))))
    return out


def judge_maxconn(meta, ev, st):
    out = []
    mx = meta["max"]
    served = {}
    holding = 0
    peak = 0
    for e in ev:
        if e[0] == "scb":
            pid = _peer_of_uri(e[-1][4:])
            served[pid] = served.get(pid, 0) + 1
            holding += 1
            peak = max(peak, holding)
        elif e[0] in ("sreply", "serror", "sfinish"):
            holding -= 1
    if peak > mx:
        out.append((_k("max-connections-exceeded"), "max_connections=%d but %d requests were being served at once" % (mx, peak)))
    pb = G.peer_bytes(ev)
    for ids in meta["rounds"]:
        for n, pid in enumerate(ids):
            data, eof, _err = pb.get(pid, (b"", False, False))
            status = None
            try:
                status = S.parse_one(data, "response", req_method=b"GET", eof=eof).status
            except S.ParseError:
                pass
            if n < mx:
                st["within_limit"] = st.get("within_limit", 0) + 1
                if served.get(pid, 0) != 1 or status != 200:
                    out.append((_k("connection-within-limit-not-served"), "connection %d of a round (max %d): callback ran %d times, status %r" % (
                        n + 1, mx, served.get(pid, 0), status)))
            else:
                st["overflow_connections"] = st.get("overflow_connections", 0) + 1
                if served.get(pid, 0):
                    out.append((_k("overflow-connection-reached-callback"), "connection %d of a round (max %d) reached the callback" % (n + 1, mx)))
                if status != 503:
                    out.append((_k("overflow-connection-not-503"), "connection %d of a round (max %d) got status %r" % (n + 1, mx, status)))
                else:
                    st["overflow_503"] = st.get("overflow_503", 0) + 1
    return out


def judge(meta, ev, st):
    if not ev or ev[-1][0] != "end":
        return []
    if any(e[0] == "inflight-timeout" for e in ev):
        # the kernel still had bytes queued after the harness' 3 s real-time watchdog: no verdict for this case
        st["inflight_timeout_cases"] = st.get("inflight_timeout_cases", 0) + 1
        return []
    kind = meta["kind"]
    out = {"client": judge_client, "server": judge_server, "maxconn": judge_maxconn}[kind](meta, ev, st)
    census = [e for e in ev if e[0] == "census"]
    if census and census[0][1] != "0":
        out.append((_k(("cancel-in-connect-failure-callback:" if meta.get("_cleanup_cancel") else "") + "leak-at-case-end:" + kind), "memfault census: %s blocks (%s bytes) still live after everything was freed" % (census[0][1], census[0][2])))
    st["cases_" + kind] = st.get("cases_" + kind, 0) + 1
    for e in ev:
        if e[0] == "pact":
            st["peer_" + e[2]] = st.get("peer_" + e[2], 0) + 1
        elif e[0] == "tick" and e[1] != "0":
            st["virtual_timeouts"] = st.get("virtual_timeouts", 0) + 1
        elif e[0] == "act":
            st["act_" + e[1]] = st.get("act_" + e[1], 0) + 1
        elif e[0] == "cancel" and e[2] == "end":
            st["cancel_" + e[3]] = st.get("cancel_" + e[3], 0) + 1
        elif e[0] == "freecon" and e[2] == "end":
            st["freecon_" + e[3]] = st.get("freecon_" + e[3], 0) + 1
        elif e[0] == "stop":
            st["stop_in_callback"] = st.get("stop_in_callback", 0) + 1
    return out


def enum_cases(r, start_id):
    """thorough: every byte offset of the request and of the response for the small exchanges"""
    out = []
    cid = start_id
    for style in ("cl", "chunked", "close", "connclose"):
        for post in (False, True):
            L, M = G.c27_dims(post, style)
            for nreq, j in ((1, 0), (2, 1), (3, 0)):
                for retries in (0, 1):
                    for how in ("c", "r", "w"):
                        for i in range(1, L + 1):
                            out.append(G.gen_c27_client(r, cid, True, fault="req-cut",
                                                        fixed=dict(nreq=nreq, post=post, retries=retries, style=style, j=j, how=how, i=i, plain=True)))
                            cid += 1
                        for k in range(0, M + 1):
                            out.append(G.gen_c27_client(r, cid, True, fault="resp-cut",
                                                        fixed=dict(nreq=nreq, post=post, retries=retries, style=style, j=j, how=how, k=k, plain=True)))
                            cid += 1
    return out


def run(tier, seed):
    res = vlib.Result(PROP)
    vlib.build("asan", ["h_httpmsg"])
    nb, ncli, nsrv, nmax = SIZES[tier]
    st = {}
    conf = G.Confirmer(res, PROP, judge)
    total = 0
    batches = []
    for b in range(nb):
        batches.append(("rnd", b))
    enum = []
    if tier == "thorough":
        enum = enum_cases(random.Random(seed * 7919 + 27), 10000000)
        for off in range(0, len(enum), 2400):
            batches.append(("enum", off))
    per = ncli + nsrv + nmax
    for bi, (bk, b) in enumerate(batches):
        if bk == "rnd":
            r = random.Random((seed * 1000003 + b) * 31 + 27)
            cases = [G.gen_c27_client(r, b * per + i, tier == "thorough") for i in range(ncli)]
            cases += [G.gen_c27_server(r, b * per + ncli + i, tier == "thorough") for i in range(nsrv)]
            cases += [G.gen_c27_maxconn(r, b * per + ncli + nsrv + i, tier == "thorough") for i in range(nmax)]
        else:
            cases = enum[b:b + 2400]
            st["enumerated_fault_points"] = st.get("enumerated_fault_points", 0) + len(cases)
        traces = G.run_batch(res, PROP, cases, bi)
        found = []
        for cs_ in cases:
            ev = traces.get(cs_.id, [])
            if not ev or ev[-1][0] != "end":
                continue
            total += 1
            v = judge(cs_.meta, ev, st)
            res.hashes.add(G.case_hash(cs_))
            for key, text in v:
                found.append((cs_, key, text + " | kind=%s" % cs_.meta["kind"]))
                st["violating_cases"] = st.get("violating_cases", 0) + 1
            if len(res.samples) < 4 and bi == 0 and cs_.id % 487 == 3:
                res.samples.append(dict(script=cs_.text()[:1500], kind=cs_.meta["kind"]))
        conf.report(bi, found)
    st["unreproduced_on_rerun"] = conf.unreproduced
    for k, v in st.items():
        res.add_stat(k, v)
    res.evaluations = total
    return vlib.finish(res, tier, seed, RULE,
                       required=["requests_made", "completed_ok", "completed_failed", "cancelled", "freed_with_connection", "virtual_timeouts",
                                 "peer_reset", "peer_close", "peer_shutwr", "server_requests_delivered", "overflow_503", "within_limit",
                                 "error_cb_err=0", "error_cb_err=1", "stop_in_callback", "cancel_incb", "freecon_incb"],
                       assumptions=["the kernel's loopback TCP delivers data/FIN/RST synchronously inside the same process",
                                    "evhttp_connection_free from a chunk or header callback is not exercised (only from completion/error callbacks and between steps)",
                                    "a completion callback owed to an error callback that was already running when the user freed the connection is not counted as 'after free'"])


def replay(info):
    return G.replay_common(info, PROP, judge)


REG = dict(category="fault_enumeration",
           text="Runtime monitor with fault enumeration: evhttp client exchanges (1-5 queued requests, retries, timeouts on a virtual clock) against a "
                "scripted raw-socket server that refuses, resets, half-closes or closes at chosen byte offsets of request and response, stalls, sends junk "
                "or extra responses, plus injected readv/writev errors and 1-byte I/O; user cancels / frees the connection / stops the loop at callback "
                "points; server side with vanishing raw clients, held and chunked replies, and max_connections overflow. Oracle: per-request callback "
                "counts and ordering from the trace, wire-level response counts, memfault census == 0, ASan/UBSan/LSan. quick ~1.2e3 cases; thorough "
                "~5.8e4 random + every byte offset of request and response of the small exchanges (1.3e4 cases). Held-on-observed.",
           note="fault points are byte offsets as seen by the peer, user actions only at the callback points named in assumptions; trusts kernel loopback semantics",
           technique="trace oracle (exactly-once counting) + allocation census + sanitizers over enumerated peer faults")
