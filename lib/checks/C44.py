"""C44 evconnlistener: every accepted connection delivered exactly once or closed; nothing accepted while
disabled / after free; non-retriable accept errors reported; socket closed on free iff CLOSE_ON_FREE
(DESIGN §3 C44).  Generator, model and oracle are in harness/h_listener.c."""
from checks import generic

RULE = ("random histories over 1-2 listeners (TCP4/TCP6/AF_UNIX, evconnlistener_new/_new_bind, random LEV_OPT flags incl. "
        "DISABLED, CLOSE_ON_FREE, THREADSAFE, DEFERRED_ACCEPT, cb NULL at creation; epoll/changelist/poll/select) of client "
        "connect bursts (also closed/reset before accept), enable/disable, set_cb(NULL/A/B), set_error_cb, free - each also "
        "from inside the connection or error callback - and accept4/accept failing by plan (EAGAIN EINTR ECONNABORTED | EMFILE "
        "ENFILE ENOMEM ENOBUFS EPERM | ENOSYS/EINVAL fallback to accept); loop stepped to idle.  Every fd the accept wrappers "
        "returned is tracked to delivery (exactly once, right peer address, right callback/arg) or to a close() by the library; "
        "accept calls are checked against the model's enabled/freed state.  non-trivial = at least one connection delivered and "
        "at least one of: disable, set_cb(NULL), action inside a callback, free inside a callback, error callback, injected "
        "retriable error; distinct = hash of the operation history")
STEPS = [
    dict(flavor="asan", harness="h_listener", args=[], cases=dict(quick=2400, thorough=60000)),
    dict(flavor="asan", harness="h_listener", args=["--mode", "ts"], cases=dict(quick=1200, thorough=30000), seed_off=101),
]
REQUIRED = ["delivered", "peer_address_ok", "fds_closed_by_library", "accept_eagain", "accept_eintr", "accept_econnaborted",
            "accept_nonretriable", "error_callbacks", "nonretriable_without_errcb", "fallback_accept_calls",
            "disables", "enables", "disable_in_callback", "setcb_null", "free_in_callback", "free_outside_callback",
            "free_closed_socket", "free_kept_socket", "listeners_created_disabled", "listeners_created_without_cb",
            "listeners_unix", "listeners_tcp4", "drain_checks", "client_reset_before_accept", "disable_then_free_in_callback"]
REG = dict(
    category="exploration",
    text=("Runs the real evconnlistener over loopback TCP and AF_UNIX sockets under randomly generated histories of connects, "
          "enable/disable, callback changes and frees (also from inside the callbacks) with accept4/accept failing by plan; a "
          "syscall observer accounts for every accepted descriptor (delivered exactly once with the connecting client's address, "
          "or closed by the library), every accept call is checked against an independent model of the enabled/freed state, "
          "non-retriable failures must reach the error callback, and the listening socket must be closed on free exactly when "
          "LEV_OPT_CLOSE_ON_FREE is set; descriptor and allocation census per case; ASan/UBSan live."),
    note=("Sampled histories (single thread; LEV_OPT_THREADSAFE only exercises the lock paths, cross-thread use is C09). "
          "socklen==0 from accept and fcntl failures in the accept() fallback cannot be provoked. Trusts the kernel's loopback "
          "sockets and the link-time syscall wrappers."),
    technique="runtime monitoring: syscall observer + fd accounting + state model over random histories with fault injection",
)


def run(tier, seed):
    return generic.run_spec("C44", tier, seed, STEPS, RULE, required=REQUIRED,
                            assumptions=["single-threaded histories; kernel loopback delivers connects synchronously",
                                         "accept failures are injected at the libc boundary (accept4/accept wrappers)"])
