"""C17: socket / pair / filter / TLS bufferevents deliver the written byte stream intact, in order, then EOF
(DESIGN §3 C17).  Generator, application model and oracle live in harness/h_bev.c (--mode stream)."""
from checks import generic

# vlib's sanitizer options plus a smaller quarantine: the sessions allocate and free megabytes of
# evbuffer chains and ASan spends most of the run mapping fresh memory for them otherwise
ASAN = ("abort_on_error=1:detect_leaks=1:allocator_may_return_null=1:handle_abort=0:detect_stack_use_after_return=0:"
        "malloc_context_size=12:quarantine_size_mb=24")

RULE = ("one case = one two-endpoint session over a random stack (loopback TCP | AF_UNIX socketpair | bufferevent_pair; "
        "optional OpenSSL or mbedTLS layer on the fd or over the base bufferevent; 0-3 stacked filters: library null filter, "
        "pass-through, chunk-limiting, stateful XOR, length-framing, and in the writer's stack a hold-back output filter that keeps a "
        "tail < k bytes in its own context until it is called with BEV_FLUSH/BEV_FINISHED, the application flushing before it "
        "drains or ends the stream) with random BEV_OPT_DEFER/UNLOCK_CALLBACKS/THREADSAFE per layer, "
        "writer emitting 64-bit counter blocks in random chunks through four write APIs, random enable/disable toggling, "
        "BEV_NORMAL/BEV_FLUSH flushes, reads in/outside callbacks through four read APIs, optional short-I/O/EAGAIN/EINTR and "
        "reset injection, then a random shutdown (shutdown(SHUT_WR), TLS close_notify, free, BEV_FINISHED flush; drained or abrupt); "
        "non-trivial = at least one byte was delivered and the session reached its shutdown verdict; distinct = hash of the configuration")
STEPS = [
    dict(flavor="asan", harness="h_bev", args=["--mode", "stream"], cases=dict(quick=416, thorough=1200), timeout=dict(quick=600, thorough=7200), env=dict(ASAN_OPTIONS=ASAN)),
    dict(flavor="asan", harness="h_bev", args=["--mode", "stream", "--arg", "pth"], cases=dict(quick=64, thorough=120), seed_off=101,
         timeout=dict(quick=600, thorough=7200), env=dict(ASAN_OPTIONS=ASAN)),
]
REQUIRED = ["cases", "late_tail_written_while_reader_paused", "sessions_with_delivery", "sessions_with_reverse_delivery", "base_tcp", "base_unix", "base_pair",
            "tls_openssl_socket", "tls_openssl_over_sockbev", "tls_openssl_over_pair",
            "tls_mbedtls_socket", "tls_mbedtls_over_sockbev", "tls_mbedtls_over_pair",
            "filters_1", "filters_2", "filters_3", "filter_null", "filter_pass", "filter_chunk", "filter_xor", "filter_framing",
            "filter_hold", "hold_flush_checked_with_tail_and_empty_output", "hold_tail_emitted_on_flush", "hold_flush_with_empty_output",
            "hold_app_flush_before_end", "liveness_pending_is_held_tail",
            "opt_defer_callbacks", "opt_unlock_callbacks", "opt_threadsafe",
            "toggle_read", "toggle_write", "flush_flush", "flush_finished", "faults_injected",
            "shutwr_drained", "close_notify", "free_drained", "finished_flush", "free_pending", "shutwr_pending",
            "eof_checked_strict", "eof_after_all_data", "eof_events", "error_events", "liveness_checks",
            "terminal_after_injected_reset", "sessions_all_bytes_delivered"]
REG = dict(category="exploration",
           text="Random bounded sessions over every bufferevent transport kind are run under ASan/UBSan with live library assertions; "
                "every byte the reading application removes is compared with the counter stream the writer produced (prefix at all "
                "times, equality at EOF), EOF/error events are checked to come after the last byte and at most once, and at every "
                "quiescent point undelivered bytes must be explained by a disabled end, a watermark, a reported error or a tail "
                "that a stateful output filter holds and no flush has been asked for since; a BEV_FLUSH/BEV_FINISHED flush must "
                "leave such a filter empty.",
           note="Sampled histories, single-threaded (THREADSAFE exercises the locking paths through a lock ledger, no second thread); "
                "TCP loopback timing is not reproducible bit-for-bit so a replay of a TCP case may need several attempts; trusts "
                "the kernel, OpenSSL and mbedTLS.  TLS layers directly on an fd do their I/O inside libssl/libmbedtls, where no "
                "short-I/O can be injected.",
           technique="runtime monitoring: generated sessions + independent stream/EOF/liveness oracle in the harness, sanitizers on")


def run(tier, seed):
    return generic.run_spec("C17", tier, seed, STEPS, RULE, required=REQUIRED,
                            assumptions=["the harness avoids THREADSAFE layers above non-THREADSAFE ones (lock use-after-free at free, reported separately)",
                                         "real-time waits (<=3 s) are used only to let the kernel deliver TCP segments; verdicts never depend on them"])
