"""C10 finalized exactly once, never used after release (DESIGN §3 C10).

h_life generates bounded histories (virtual clock, one thread) over events with
and without finalizers, event_base_once events, socket/pair/filter
bufferevents, evbuffers with immediate or deferred callbacks and listeners;
objects are released directly, from inside their own callback or from inside
another object's callback, and the base is freed after a quiescent loop, with
finalization still pending, or before once-events ran.  `--mode enum`
enumerates (graph, target, release point, context, ending) for six fixed
graphs.  Oracle: harness bookkeeping of callback / finalizer / close() events,
allocation census with per-object attribution, /proc/self/fd census, ASan/LSan.
"""
from checks import generic

RULE = ("case = one history (object creations, triggers, loop steps, releases direct / inside own callback / inside another "
        "object's callback, one of three endings); non-trivial = at least one object was released before the census; "
        "distinct = hash of the literal history string (objects, options, actions)")

STEPS = [
    dict(flavor="asan", harness="h_life", args=["--mode", "random"], cases=dict(quick=1000, thorough=24000),
         timeout=dict(quick=500, thorough=3000)),
    dict(flavor="asan", harness="h_life", args=["--mode", "enum"], cases=dict(quick=1080, thorough=1080 * 6), seed_off=11,
         timeout=dict(quick=500, thorough=3000)),
]

REG = dict(
    category="exploration",
    text=("Random and enumerated release histories for events (event_free, event_finalize, event_free_finalize), "
          "event_base_once events, socket/pair/filter bufferevents, evbuffers with immediate/deferred callbacks and listeners on "
          "epoll/poll/select bases: every user callback, finalizer, filter free_context and close() of a library-owned fd is "
          "recorded; no callback may start after the releasing call returned (also when the release happens inside the object's "
          "own or another object's callback), finalizers run exactly once and not inside a callback of their object, once "
          "callbacks run once or (base freed first) never, and after event_base_free the allocation census (per-object "
          "attribution) and the fd table are back to their values before the case; after libevent_global_shutdown nothing is "
          "live (own census and LeakSanitizer). ASan turns any touch of released memory into a violation. One case in five runs behind a crowd of 40 anonymous deferred-callback evbuffers so that the objects' own deferred callbacks land on the base's active-later queue and are scheduled twice there; signal events are activated with 1-4 pending deliveries and released inside a chosen delivery."),
    note=("Single-threaded histories only (cross-thread release is sampled by C09's harness). Releasing events, bufferevents, "
          "listeners and deferred-callback evbuffers after their base was freed is treated as illegal use and not generated. "
          "The allocation census is the harness's own event_set_mem_functions allocator (same design as common/memfault.c plus "
          "an owner tag per block)."),
    technique="history generation/enumeration with lifecycle bookkeeping, allocation + fd census, ASan/LSan",
)


def run(tier, seed):
    return generic.run_spec("C10", tier, seed, STEPS, RULE,
                            required=["callbacks_observed", "crowd_triggers", "signal_activations_multi", "once_refused", "listener_disable_then_free_in_callback", "finalizers_observed", "releases_direct", "releases_inside_own_callback",
                                      "releases_inside_other_callback", "objects_event", "objects_once", "objects_bev_socket",
                                      "objects_bev_pair", "objects_bev_filter", "objects_evbuffer", "objects_listener",
                                      "once_ran", "once_never_ran_base_freed_first", "library_fds_closed_once",
                                      "ending_clean", "ending_basefree_with_pending_finalizers", "ending_base_freed_first",
                                      "global_shutdown_census_clean"],
                            assumptions=["loopback/AF_UNIX delivery is synchronous, so a bounded number of non-blocking loop steps reaches quiescence",
                                         "the virtual clock only moves when the harness advances it"])
