"""C30: HTTP routing (evhttp_set_cb / gencb / 404, virtual hosts and aliases, allowed methods) against a
reference router written from the header documentation.  Harness: harness/h_httpmsg.c."""
import random
import re
import vlib
from gen import httpmsggen as G
from ref import httpstrict as S

PROP = "C30"
SIZES = dict(quick=(1, 640), thorough=(50, 640))            # (batches, configurations per batch); ~5.5 requests each
DEFAULT_ALLOWED = 1 | 2 | 4 | 8 | 16                        # documented: GET, POST, HEAD, PUT, DELETE
RULE = ("random server configurations (0-4 virtual hosts up to 2 levels, aliases, '*' patterns, 0-6 registered paths per host incl. "
        "prefixes of each other and paths with %,?,+,space,8-bit; allowed-method masks incl. extension methods) x 3-8 requests whose "
        "target is an encoding variant of a registered path (%XX of any byte, %2F, %00, %25 double encoding, invalid escapes, case flips, "
        "truncations, query strings, absolute-form) and whose Host is derived from the aliases/patterns (case variants, ports); "
        "non-trivial = the request got an observable routing decision (callback id or status) that was compared with the reference router; "
        "distinct = hash of configuration + request bytes")


# ---------------------------------------------------------------- reference router
def pct_decode(b):
    out = bytearray()
    i = 0
    n = len(b)
    hexd = b"0123456789abcdefABCDEF"
    while i < n:
        if b[i] == 0x25 and i + 2 < n and b[i + 1] in hexd and b[i + 2] in hexd:
            out.append(int(b[i + 1:i + 3], 16))
            i += 3
        else:
            out.append(b[i])
            i += 1
    return bytes(out)


def glob_match(pat, name):
    """shell-style match with '*' only, ASCII case-insensitive (documented for evhttp_add_virtual_host)"""
    pat = pat.lower()
    name = name.lower()
    # iterative star matching
    p = s = 0
    star = -1
    mark = 0
    while s < len(name):
        if p < len(pat) and pat[p] == "*":
            star = p
            mark = s
            p += 1
        elif p < len(pat) and pat[p] == name[s]:
            p += 1
            s += 1
        elif star >= 0:
            p = star + 1
            mark += 1
            s = mark
        else:
            return False
    while p < len(pat) and pat[p] == "*":
        p += 1
    return p == len(pat)


def glob_match_trailing_star_quirk(pat, name):
    """the deviation seen in the tree (classification of findings only): a '*' never matches the rest of
    the name completely, so a trailing '*' matches nothing"""
    pat = pat.lower()
    name = name.lower()

    def m(p, s):
        while True:
            if p == len(pat):
                return s == len(name)
            c = pat[p]
            p += 1
            if c == "*":
                while s < len(name):
                    if m(p, s):
                        return True
                    s += 1
                return False
            if s >= len(name) or c != name[s]:
                return False
            s += 1
    return m(0, 0)


def strip_port(host):
    mm = re.match(r"^(.+):([0-9]*)$", host, re.S)
    return mm.group(1) if mm else host


def find_server(servers, host, matcher):
    """CALIBRATED (documented only as 'aliases' and 'hierarchical vhosts'): an exact alias anywhere in the tree
    (depth-first, insertion order) wins; otherwise descend from the root into the first child whose pattern matches"""
    def alias(k):
        s = servers[k]
        for a in s["aliases"]:
            if a.lower() == host.lower():
                return k
        for ch in s["children"]:
            r = alias(str(ch))
            if r is not None:
                return r
        return None
    k = alias("0")
    if k is not None:
        return k, "alias"
    cur = "0"
    how = "root"
    while True:
        nxt = None
        for ch in servers[cur]["children"]:
            if matcher(servers[str(ch)]["pattern"], host):
                nxt = str(ch)
                break
        if nxt is None:
            return cur, how
        cur = nxt
        how = "pattern"


def method_type(meth):
    for t, n in G.STD_METHODS:
        if n.decode() == meth:
            return t
    if meth == "CONNECT":
        return 128
    for t, n, _hb in G.EXT_METHODS:
        if n.decode() == meth:
            return t
    return 0


def route(meta, rq, nulquirk=False, starquirk=False):
    """-> ('cb', id, how) | ('status', code, how)"""
    allowed = meta["mask"] if meta["mask"] is not None else DEFAULT_ALLOWED
    if method_type(rq["method"]) & allowed == 0:
        return ("status", 501, "method")
    servers = meta["servers"]
    host = rq["host"]
    k, how = "0", "nohost"
    if host is not None:
        k, how = find_server(servers, strip_port(host), glob_match_trailing_star_quirk if starquirk else glob_match)
    path = pct_decode(G.unhx(rq["path"]) or b"")
    if nulquirk and b"\x00" in path:
        path = path[:path.index(b"\x00")]
    s = servers[k]
    for p, cid in s["cbs"]:
        if (G.unhx(p) or b"") == path:
            return ("cb", cid, how)
    if s["gencb"] is not None:
        return ("cb", s["gencb"], how + "+gencb")
    return ("status", 404, how)


# ---------------------------------------------------------------- oracle
def judge(meta, ev, st):
    if not ev or ev[-1][0] != "end":
        return []
    if any(e[0] == "inflight-timeout" for e in ev):
        # the kernel still had bytes queued after the harness' 3 s real-time watchdog: no verdict for this case
        st["inflight_timeout_cases"] = st.get("inflight_timeout_cases", 0) + 1
        return []
    out = []
    # split events per request (each request has its own peer, opened by "pc <pid>")
    per = {}
    cur = None
    for e in ev:
        if e[0] == "pc":
            cur = int(e[1])
            per[cur] = []
        elif cur is not None:
            per[cur].append(e)
    pb = G.peer_bytes(ev)
    for e in ev:
        if e[0] in ("cb", "vhost", "alias") and e[-1] != "0":
            # CALIBRATED: duplicate path on one host is refused (-1), documented
            st["config_call_refused"] = st.get("config_call_refused", 0) + 1
    for rq in meta["reqs"]:
        pid = rq["pid"]
        evs = per.get(pid, [])
        scbs = [int(e[1]) for e in evs if e[0] == "scb"]
        data, eof, _err = pb.get(pid, (b"", False, False))
        status = None
        try:
            msg = S.parse_one(data, "response", req_method=rq["method"].encode(), eof=eof)
            status = msg.status
        except S.ParseError:
            pass
        if len(scbs) > 1:
            out.append(("%s:callback-ran-twice" % PROP, "request %r ran callbacks %r" % (G.unhx(rq["wire"])[:80], scbs)))
            continue
        obs = ("cb", scbs[0]) if scbs else ("status", status)
        exp = route(meta, rq)
        st["requests_judged"] = st.get("requests_judged", 0) + 1
        st["exp_" + ("cb" if exp[0] == "cb" else str(exp[1]))] = st.get("exp_" + ("cb" if exp[0] == "cb" else str(exp[1])), 0) + 1
        st["via_" + exp[2]] = st.get("via_" + exp[2], 0) + 1
        if b"%" in (G.unhx(rq["path"]) or b""):
            st["pct_encoded_targets"] = st.get("pct_encoded_targets", 0) + 1
        if rq["form"] == "absolute":
            st["absolute_form"] = st.get("absolute_form", 0) + 1
        if obs == exp[:2]:
            if exp[0] == "cb" and status != 200:
                out.append(("%s:callback-reply-lost" % PROP, "callback %d ran but the peer saw status %r" % (exp[1], status)))
            continue
        # classify against the two deviations already known in the tree
        keys = []
        for nq, sq, key in ((True, False, "nul-truncated-path-match"), (False, True, "vhost-trailing-star-no-match"), (True, True, None)):
            alt = route(meta, rq, nulquirk=nq, starquirk=sq)
            if alt[:2] == obs:
                keys = [key] if key else ["nul-truncated-path-match", "vhost-trailing-star-no-match"]
                break
        if not keys:
            keys = ["route-mismatch:expected-%s-observed-%s" % ("callback" if exp[0] == "cb" else exp[1], "callback" if obs[0] == "cb" else obs[1])]
        text = "request %r: reference router says %r (via %s), evhttp did %r" % (G.unhx(rq["wire"])[:160], exp[:2], exp[2], obs)
        for k in keys:
            out.append(("%s:%s" % (PROP, k), text))
    return out


def run(tier, seed):
    res = vlib.Result(PROP)
    vlib.build("asan", ["h_httpmsg"])
    nb, per = SIZES[tier]
    st = {}
    conf = G.Confirmer(res, PROP, judge)
    total = 0
    for b in range(nb):
        found = []
        r = random.Random((seed * 1000003 + b) * 31 + 30)
        cases = [G.gen_c30(r, b * per + i, tier == "thorough") for i in range(per)]
        traces = G.run_batch(res, PROP, cases, b)
        for cs_ in cases:
            ev = traces.get(cs_.id, [])
            if not ev or ev[-1][0] != "end":
                continue
            total += 1
            v = judge(cs_.meta, ev, st)
            cfg = "\n".join(l for l in cs_.lines if l.split()[0] in ("vhost", "alias", "cb", "gencb", "srvopt"))
            for rq in cs_.meta["reqs"]:
                res.hashes.add(hash((cfg, rq["wire"])) & 0xffffffffffffffff)
            census = [e for e in ev if e[0] == "census"]
            if census and census[0][1] != "0":
                v.append(("%s:leak-at-case-end" % PROP, "memfault census: %s blocks live after teardown" % census[0][1]))
            for key, text in v:
                found.append((cs_, key, text))
                st["mismatching_requests"] = st.get("mismatching_requests", 0) + 1
            if len(res.samples) < 3 and b == 0 and cs_.id % 211 == 5:
                res.samples.append(dict(script=cs_.text()[:1800]))
        conf.report(b, found)
    st["unreproduced_on_rerun"] = conf.unreproduced
    for k, v in st.items():
        res.add_stat(k, v)
    res.add_stat("configurations", total)
    res.evaluations = st.get("requests_judged", 0)
    return vlib.finish(res, tier, seed, RULE,
                       required=["requests_judged", "exp_cb", "exp_404", "exp_501", "via_alias", "via_pattern", "pct_encoded_targets", "absolute_form"],
                       assumptions=["vhost patterns use only literals and '*' (the documented 'shell matching' beyond '*' is not exercised)",
                                    "alias-before-pattern precedence and first-match order are calibrated to the tree (documentation is silent)",
                                    "targets starting with '//' and raw '#'/SP in targets are not generated (RFC reading is ambiguous there)"])


def replay(info):
    return G.replay_common(info, PROP, judge)


REG = dict(category="exploration",
           text="Runtime monitor: random evhttp routing configurations (paths, virtual-host trees, aliases, '*' patterns, allowed-method masks) "
                "receive generated requests over loopback; which callback ran (or which status came back) is compared with an independent reference "
                "router (single percent-decoding, byte-wise path equality, case-insensitive glob). ~3.5e3 (quick) / ~1.8e5 (thorough) requests under ASan.",
           note="trusts the reference router in lib/checks/C30.py; precedence rules the docs leave open are calibrated to the tree and marked CALIBRATED",
           technique="reference-model oracle on observed callback id / status")
