"""C34 - every DNS request reports its outcome exactly once (DESIGN §3 C34).

Workload: scenarios under virtual time: 1-3 fake nameservers with a scripted behaviour per query
(answer, drop, delayed answer, SERVFAIL/REFUSED/NOTIMP/NXDOMAIN/NODATA/FORMERR, TC with TCP fallback
{answer in chunks, close at byte i, stall, close on accept}, malformed, wrong id, duplicate), small
attempts/timeout/max-inflight/max-timeouts/probe timeouts, 4-10 requests (resolve A/AAAA/PTR and
evdns_getaddrinfo with PF_UNSPEC/INET/INET6), cancels and evdns_base_free(0|1) between steps and
inside callbacks, transaction ids drawn from a tiny pool (collision pressure).  Oracle: judge_case().
"""
import os, struct, pickle, multiprocessing, re
import vlib
from ref import dnswire as W
from gen import dnsgen as G

PROP = "C34"
RULE = ("scenario = 4-10 requests against 1-3 scripted nameservers under virtual time; non-trivial = at least one request was answered "
        "by something other than the first plain answer (timeout, retransmission, failover, error code, TC/TCP, cancel, base free, waiting "
        "queue); distinct = hash of the scenario script")
SIZES = dict(quick=1200, thorough=80000)
EAI_CANCEL = -90001
T_A, T_AAAA, T_PTR = 1, 28, 12


# ------------------------------------------------------------------ generation
def rid_name(rid, rng):
    return b"q%dx%s.test" % (rid, G.rand_label(rng, 5, b"abcdefghijklmnopqrstuvwxyz"))


def owner_of(labels):
    """map a question name seen on the wire back to the scenario's request id (or 'probe')"""
    if not labels:
        return None
    low = [l.lower() for l in labels]
    m = re.match(rb"^q(\d+)x[a-z]{5}$", low[0])
    if m:
        return int(m.group(1))
    if low == [b"google", b"com"]:
        return "probe"
    if low[-2:] == [b"in-addr", b"arpa"] and len(low) == 6 and low[3] == b"10":
        return int(low[2])
    if low[-2:] == [b"ip6", b"arpa"] and len(low) == 34:
        try:
            nib = [int(x, 16) for x in low[:32]]
        except ValueError:
            return None
        addr = bytes((nib[31 - 2 * i] << 4) | nib[30 - 2 * i] for i in range(16))
        return addr[1]
    return None


def udp_rule(rng, allow_tc=True):
    r = rng.random()
    E = G.echo_reply
    if not allow_tc and 0.85 <= r < 0.93:
        r = rng.random() * 0.85
    if r < 0.30: return "1 0 0 " + E(rng=rng), "answer"
    if r < 0.50: return "0", "drop"
    if r < 0.62: return "1 %d 0 %s" % (rng.choice([100000, 400000, 900000, 1600000, 3000000]), E(rng=rng)), "delay"
    if r < 0.67: return "1 0 0 " + E(rcode=2), "servfail"
    if r < 0.72: return "1 0 0 " + E(rcode=5), "refused"
    if r < 0.75: return "1 0 0 " + E(rcode=4), "notimp"
    if r < 0.80: return "1 0 0 " + E(rcode=3), "nxdomain"
    if r < 0.83: return "1 0 0 " + E(addrs=0), "nodata"
    if r < 0.85: return "1 0 0 " + E(rcode=1), "formerr"
    if r < 0.93: return "1 0 0 " + E(tc=1), "tc"
    if r < 0.95: return "1 0 0 " + rng.choice(["I8180", "I81800001", "Iffffffffffffffffffffffffffff", "I818000010001000000000000"]), "malformed"
    if r < 0.97: return "2 0 0 J8180000100000000000000Y 0 0 " + E(rng=rng), "wrongid+answer"
    return "2 0 0 %s 0 0 %s" % (E(rng=rng), E(rng=rng)), "duplicate"


def tcp_rule(rng, servfail=False):
    r = rng.random()
    E = G.echo_reply
    if not servfail and 0.96 <= r < 0.98:
        r = rng.random() * 0.96     # (a SERVFAIL read from the TCP connection is the known use-after-free of C33)
    ch = "-" if rng.random() < 0.5 else ",".join(str(rng.choice([1, 2, 5, 30, 200])) for _ in range(rng.randint(1, 5)))
    if r < 0.45: return "-1 %s %s" % (ch, E(tcp=True, rng=rng)), "tcp-answer"
    if r < 0.60: return "%d %s %s" % (rng.randrange(1, 40), ch, E(tcp=True, rng=rng)), "tcp-close-mid"
    if r < 0.72: return "-1 - -", "tcp-stall"
    if r < 0.80: return "0 - -", "tcp-close"
    if r < 0.86: return "-1 - " + E(tcp=True, rcode=3), "tcp-nxdomain"
    if r < 0.90: return "-1 - " + E(tcp=True, rcode=5), "tcp-refused"
    if r < 0.93: return "-1 - 0000", "tcp-zero-length"
    if r < 0.96: return "-1 - " + E(tcp=True, tc=1), "tcp-tc"
    if r < 0.98: return "-1 - " + E(tcp=True, rcode=2), "tcp-servfail"
    return "-1 %s %s%s" % (ch, E(tcp=True, rng=rng), E(tcp=True, rng=rng)), "tcp-two-frames"


def gen_request(rng, rid, ndomains, allow_vc=True, allow_gai=True):
    r = rng.random()
    if r < 0.3 and allow_gai:
        kind = "G"
    else:
        kind = rng.choice(["A", "A", "AAAA", "P4", "P6"])
    flags = 0
    if kind == "G":
        fam = rng.choice([0, 0, 0, 4, 6])
        aif = rng.choice([0, 0, 2])      # AI_CANONNAME
        name = rid_name(rid, rng)
        return "G %d %d %d %s" % (rid, fam, aif, name.hex()), dict(kind="G", fam=fam)
    if rng.random() < 0.6 or not ndomains:
        flags |= G.F_NO_SEARCH
    if rng.random() < 0.08 and allow_vc: flags |= G.F_USEVC
    if rng.random() < 0.08: flags |= G.F_IGNTC
    if rng.random() < 0.15: flags |= G.F_CNAME_CB
    if kind == "P4":
        arg = bytes([10, rid, rng.randrange(256), rng.randrange(256)])
    elif kind == "P6":
        arg = bytes([0xfd, rid]) + bytes(rng.randrange(256) for _ in range(14))
    else:
        arg = rid_name(rid, rng)
    return "R %d %s %d %s" % (rid, kind, flags, arg.hex()), dict(kind=kind, flags=flags)


def gen_case(rng, idx):
    """Scenario classes keep the known crashes of the unchanged tree (each one costs the rest of the process and a
    restart) to a few per run while still reaching them:
      plain     (88%) at most one request can end up on TCP (one TC rule or one DNS_QUERY_USEVC request), evdns_base_free only
                      after everything reported or at an idle point without evdns_getaddrinfo pending
      tcp       (5%)  use-vc / several TC rules / several USEVC requests, stalls and closes
      free      (4%)  evdns_base_free(0|1) at arbitrary points, also with evdns_getaddrinfo pending
      free-incb (3%)  evdns_base_free(0|1) inside a callback
    """
    r = rng.random()
    klass = "plain" if r < 0.88 else "tcp" if r < 0.93 else "free" if r < 0.97 else "free-incb"
    if rng.random() < 0.01:
        return gen_tiny_table_case(rng, idx)
    nns = rng.choice([1, 1, 2, 2, 3])
    attempts = rng.choice([1, 2, 2, 3])
    timeout = rng.choice([0.5, 1, 1, 2])
    inflight = rng.choice([1, 2, 3, 64, 64])
    crowded_free = klass == "free" and rng.random() < 0.5
    if crowded_free:
        # several request buckets (one per 5 in-flight slots) AND a waiting queue when the base is freed: every request
        # finished by the free promotes a waiting one into a random bucket, possibly one already drained (seed C34-3)
        inflight = rng.choice([6, 7, 8, 11])
    bflags = rng.choice([0, 0x8000]) | rng.choice([0, 0, 0x10])
    L = ["CASE %d" % idx, "B %d" % bflags, "RNG %d %d" % (rng.randrange(1 << 40), rng.choice([0, 0, 1, 2, 3]))]
    for i in range(nns):
        L.append("NS %d" % i)
    L += ["O attempts %d" % attempts, "O timeout %s" % timeout, "O max-inflight %d" % inflight,
          "O max-timeouts %d" % rng.choice([1, 2, 3]), "O initial-probe-timeout %s" % rng.choice([0.5, 1, 3, 10]),
          "O randomize-case %d" % rng.choice([0, 1])]
    if klass == "tcp" and rng.random() < 0.5: L.append("O use-vc -")
    if rng.random() < 0.1: L.append("O ignore-tc -")
    if rng.random() < 0.3: L.append("O getaddrinfo-allow-skew %s" % rng.choice([0.3, 1, 5]))
    if rng.random() < 0.2: L.append("O max-probe-timeout %d" % rng.choice([1, 5]))
    ndomains = rng.choice([0, 0, 0, 1, 2])
    for i in range(ndomains):
        L.append("SA " + (b"dom%d.example" % i).hex())
    tags = {klass}
    one_tcp = klass != "tcp" and rng.random() < 0.5        # how the single TCP request of a non-tcp scenario comes about
    tc_left = 1 if (klass != "tcp" and not one_tcp) else 0
    for i in range(nns):
        for _ in range(rng.randint(2, 10)):
            t, tg = udp_rule(rng, allow_tc=(klass == "tcp" or tc_left > 0))
            if tg == "tc" and klass != "tcp":
                tc_left -= 1
            L.append("UR %d %s" % (i, t)); tags.add(tg)
        if rng.random() < 0.5 or L[-1].startswith("UR") and "0200" in L[-1][:40]:
            # the last rule repeats: let half of the servers end up answering (and never repeat a TC rule)
            L.append("UR %d 1 0 0 %s" % (i, G.echo_reply(rng=rng)))
        for _ in range(rng.randint(1, 5)):
            t, tg = tcp_rule(rng, servfail=(klass == "tcp")); L.append("TR %d %s" % (i, t)); tags.add(tg)
    nreq = rng.randint(14, 26) if crowded_free else rng.randint(4, 10)
    reqs = {}
    next_rid = 0
    steps = []
    vc_left = 1 if one_tcp else 0
    allow_gai = klass != "free-incb" or rng.random() < 0.5
    for _ in range(nreq):
        cmd, info = gen_request(rng, next_rid, ndomains, allow_vc=(klass == "tcp" or vc_left > 0), allow_gai=allow_gai)
        if klass != "tcp" and info.get("flags", 0) & G.F_USEVC:
            vc_left -= 1
        reqs[next_rid] = info
        steps.append(cmd); next_rid += 1
        r = rng.random()
        if r < 0.35:
            steps.append("S")
        elif r < 0.7:
            steps.append("T %d" % int(rng.choice([0.05, 0.3, 0.7, 1.0, 1.3, 2.5, 6]) * 1e6))
        if rng.random() < 0.15 and next_rid > 0:
            steps.append("X %d" % rng.randrange(next_rid)); tags.add("cancel")
        if rng.random() < 0.12:
            k = rng.randrange(0, nreq)
            c = rng.random()
            if c < 0.55 and next_rid > 0:
                steps.append("IC %d X %d" % (k, rng.randrange(max(1, nreq)))); tags.add("cancel-in-cb")
            elif next_rid < 60:
                cmd2, info2 = gen_request(rng, 40 + len([x for x in steps if x.startswith("IC")]), ndomains,
                                          allow_vc=(klass == "tcp"), allow_gai=allow_gai)
                rid2 = int(cmd2.split()[1]); reqs[rid2] = info2
                steps.append("IC %d %s" % (k, cmd2)); tags.add("request-in-cb")
    if klass == "free-incb":
        steps.append("IC %d F %d" % (rng.randrange(0, nreq), rng.choice([0, 1]))); tags.add("free-in-cb")
    # ICs must be registered before they can fire: move them to the front
    steps = [x for x in steps if x.startswith("IC")] + [x for x in steps if not x.startswith("IC")]
    has_gai = any(v["kind"] == "G" for v in reqs.values())
    if klass == "free":
        pos = rng.randrange(len(steps) // 2, len(steps) + 1)
        steps.insert(pos, "F %d" % (1 if crowded_free else rng.choice([0, 1]))); tags.add("free-midway")
        if crowded_free: tags.add("free-with-waiting-queue-and-several-buckets")
        if rng.random() < 0.5:
            steps.insert(pos, "S")
    elif klass == "plain" and not has_gai and rng.random() < 0.25:
        pos = rng.randrange(len(steps) // 2, len(steps) + 1)
        steps[pos:pos] = ["S", "F %d" % rng.choice([0, 1])]; tags.add("free-at-idle")
    L += steps
    stages = (ndomains + 1) * 4
    bound = (len(reqs) + nns + 2) * stages * attempts * timeout * 2 + 15
    L += ["W %d %d" % (int(bound * 1e6), 1000000)]
    if rng.random() < 0.5 and not any(x.startswith("F ") for x in steps):
        L.append("F %d" % rng.choice([0, 1]))
    L += ["E"]
    meta = dict(idx=idx, reqs=reqs, attempts=attempts, timeout=timeout, nns=nns, inflight=inflight, bound=bound, tags=sorted(tags),
                ndomains=ndomains, klass=klass)
    return L, meta


def gen_tiny_table_case(rng, idx):
    """one or two searching requests against a full in-flight table (max-inflight 1 or 2) whose first answer is negative or TC:
    the follow-up query must still be sent"""
    inflight = rng.choice([1, 1, 2])
    attempts, timeout = rng.choice([1, 2]), rng.choice([0.5, 1])
    L = ["CASE %d" % idx, "B %d" % rng.choice([0, 0x8000]), "RNG %d 0" % rng.randrange(1 << 40), "NS 0",
         "O attempts %d" % attempts, "O timeout %s" % timeout, "O max-inflight %d" % inflight, "O randomize-case %d" % rng.choice([0, 1]),
         "SA " + b"dom0.example".hex()]
    first = rng.choice(["nx", "nx", "nodata", "tc"])
    E = G.echo_reply
    L.append("UR 0 1 0 0 " + (E(rcode=3) if first == "nx" else E(addrs=0) if first == "nodata" else E(tc=1)))
    L.append("UR 0 1 0 0 " + E(rng=rng))
    L.append("TR 0 -1 - " + E(tcp=True, rng=rng))
    reqs = {}
    for rid in range(inflight):
        kind = rng.choice(["A", "AAAA", "G"]) if inflight == 1 else rng.choice(["A", "AAAA"])
        if kind == "G":
            L.append("G %d %d 0 %s" % (rid, rng.choice([4, 6]), rid_name(rid, rng).hex())); reqs[rid] = dict(kind="G")
        else:
            L.append("R %d %s 0 %s" % (rid, kind, rid_name(rid, rng).hex())); reqs[rid] = dict(kind=kind, flags=0)
    bound = 8 * attempts * timeout * 4 + 15
    L += ["S", "W %d 1000000" % int(bound * 1e6), "E"]
    meta = dict(idx=idx, reqs=reqs, attempts=attempts, timeout=timeout, nns=1, inflight=inflight, bound=bound,
                tags=["tiny-table", "tiny-" + first], ndomains=1, klass="tiny-table")
    return L, meta


def gen_shard(a):
    seed, shard, n, first, path = a
    rng = G.mkrng(seed, PROP, shard)
    metas = {}
    with open(path, "w") as f:
        for k in range(n):
            L, meta = gen_case(rng, first + k)
            f.write("\n".join(L) + "\n")
            meta["hash"] = G.h64("\n".join(L[1:]).encode())
            metas[first + k] = meta
    pickle.dump(metas, open(path + ".meta", "wb"))
    return path


# ------------------------------------------------------------------ oracle
class Req:
    __slots__ = ("rid", "kind", "ret", "t_issue", "cbs", "t_cancel", "cancel_idle", "pending_at_free", "seq_issue")

    def __init__(self, rid):
        self.rid, self.kind, self.ret, self.t_issue, self.cbs = rid, "?", None, None, []
        self.t_cancel, self.cancel_idle, self.pending_at_free, self.seq_issue = None, None, None, None


def judge_case(case, meta):
    V, S = [], {}

    def st(k, n=1): S[k] = S.get(k, 0) + n

    def viol(key, text): V.append((key, "case %d: %s" % (meta["idx"], text)))
    reqs = {}
    free_t = free_fail = free_seq = None
    free_incb = False
    in_cb_depth_seq = None
    qstream = {}
    txs = []           # wire transactions: dict(owner, qtype, id, start, end, name)
    open_tx = {}       # (owner, qtype) -> tx
    ids_replied = set()
    last_tx = {}
    nstage = {}
    rstream = {}
    last_probe_t = None
    wait_end_t = None
    starved = set()
    wait_done = None
    nontrivial = False
    last_cb_seq = -10
    for seq, ev in enumerate(case.events):
        k = ev[0]
        if k == "RET":
            rid = int(ev[1]); r = reqs.setdefault(rid, Req(rid))
            if ev[3] == "skipped":
                r.ret = "skipped"; continue
            r.ret = ev[3] == "1"; r.t_issue = int(ev[2]); r.seq_issue = seq
            r.kind = "gai" if meta["reqs"].get(rid, {}).get("kind") == "G" else "resolve"
        elif k in ("CB", "GCB"):
            rid = int(ev[1]); r = reqs.setdefault(rid, Req(rid))
            t = int(ev[2])
            if k == "CB" and int(ev[3]) < 0:
                st("cname_callbacks"); continue
            code = int(ev[4]) if k == "CB" else int(ev[4])
            r.cbs.append((t, code, seq, free_t is not None))
            last_cb_seq = seq
            for o in list(open_tx):
                if o[0] == rid:
                    open_tx.pop(o)["end"] = t
        elif k == "XDONE":
            rid = int(ev[1]); r = reqs.setdefault(rid, Req(rid))
            r.t_cancel = int(ev[2]); r.cancel_idle = ev[3] == "0"
            st("cancels_issued")
            for o in list(open_tx):
                if o[0] == rid:
                    open_tx.pop(o)["end"] = int(ev[2])
        elif k == "FREE":
            free_t, free_fail, free_seq = int(ev[1]), ev[2] == "1", seq
            free_incb = len(ev) > 3 and ev[3] == "1"
            for r in reqs.values():
                r.pending_at_free = r.ret is True and not r.cbs
            for o in list(open_tx):
                open_tx.pop(o)["end"] = free_t
        elif k in ("Q", "QT"):
            if k == "Q":
                msgs = [bytes.fromhex(ev[4])] if ev[4] != "-" else []
            else:
                b = qstream.setdefault((ev[1], ev[2]), bytearray())
                b += bytes.fromhex(ev[4]) if ev[4] != "-" else b""
                msgs = []
                while len(b) >= 2:
                    l = struct.unpack(">H", b[:2])[0]
                    if len(b) < 2 + l:
                        break
                    msgs.append(bytes(b[2:2 + l])); del b[:2 + l]
                st("tcp_queries", len(msgs))
            t = int(ev[3])
            for m in msgs:
                st("queries")
                if free_t is not None:
                    st("queries_read_after_base_free")     # (sent before the free; the property does not speak about them)
                d = W.decode_message(m)
                if d.error or not d.questions:
                    st("undecodable_queries"); continue
                labels, qt, _ = d.questions[0]
                owner = owner_of(labels)
                if owner is None:
                    viol("C34:unknown-query", "query for %r" % W.labels_text(labels)); continue
                if owner == "probe":
                    st("probe_queries"); last_probe_t = t; continue
                ro = reqs.get(owner)
                if ro is not None and (ro.cbs or ro.t_cancel is not None):
                    st("queries_seen_after_request_end")     # written to a TCP buffer / socket before the request ended
                    continue
                key = (owner, qt)
                nm = [l.lower() for l in labels]
                cur = open_tx.get(key)
                if cur is not None and (cur["id"] != d.id or cur["name"] != nm):
                    cur["end"] = t; cur = None
                    st("new_transaction_stages")
                if cur is None:
                    # a reply carrying this id was sent earlier in the scenario: it may still sit unread in a socket and end
                    # this transaction at any moment (evdns fails a request on a reply whose question does not match), so the
                    # lifetime of this transaction cannot be inferred from the wire
                    cur = dict(owner=owner, qt=qt, id=d.id, start=t, end=None, name=nm, n=0, sight=[], tainted=d.id in ids_replied,
                               replied=False, stage=nstage.get(key, 0))
                    nstage[key] = nstage.get(key, 0) + 1
                    open_tx[key] = cur; txs.append(cur)
                    last_tx[owner] = cur
                cur["n"] += 1
                cur["sight"].append(t)
                if cur["n"] == 2:
                    st("retransmitted_transactions")
        elif k == "SENT":
            # a reply carrying the id of an open transaction may end it (the library may consume it): be conservative
            idlist = []
            if ev[2].startswith("udp"):
                if len(ev[5]) >= 4 and ev[5] != "-":
                    idlist.append(int(ev[5][:4], 16))
            else:
                # TCP replies arrive in arbitrary chunks: reassemble the stream of this connection into frames
                rb = rstream.setdefault((ev[1], ev[4]), bytearray())
                rb += bytes.fromhex(ev[5]) if ev[5] != "-" else b""
                while len(rb) >= 4:
                    l = struct.unpack(">H", rb[:2])[0]
                    idlist.append(struct.unpack(">H", rb[2:4])[0])    # as soon as the id bytes are out the reply may be consumed
                    if len(rb) < 2 + l or l == 0:
                        break
                    del rb[:2 + l]
            t = int(ev[3])
            for rid_ in idlist:
                ids_replied.add(rid_)
                for o, tx in list(open_tx.items()):
                    if tx["id"] == rid_:
                        tx["replied"] = True
                        open_tx.pop(o)["end"] = t
        elif k == "TX":
            rstream.pop((ev[1], ev[2]), None)
        elif k == "WAIT":
            wait_done = ev[3] == "1"
            wait_end_t = int(ev[1])
            if not wait_done and free_t is None:
                st("wait_expired")
                for r in reqs.values():
                    if r.ret is True and not r.cbs:
                        starved.add(r.rid)      # still silent after the whole virtual-time bound
        elif k == "STUCK":
            viol("C34:loop-never-idle", "the event loop did not reach an idle point within 5000 non-blocking passes at t=%s" % ev[1])
    stuck_root = meta["inflight"] <= 3 and any(last_tx.get(x) is not None and last_tx[x]["replied"] for x in starved)
    probes_hog = (meta["inflight"] <= 3 and last_probe_t is not None and wait_end_t is not None
                  and last_probe_t > wait_end_t - int(6e6 + 2 * meta["attempts"] * meta["timeout"] * 1e6))
    # --- exactly once
    for rid, r in sorted(reqs.items()):
        if r.ret == "skipped" or r.ret is None:
            continue
        kind = r.kind
        n = len(r.cbs)
        st("requests")
        if r.ret is False:
            if kind == "resolve":
                st("resolve_refused")
                if n:
                    viol("C34:callback-after-null-return", "request %d: resolve returned NULL but %d callbacks ran" % (rid, n))
            else:
                st("gai_immediate")
                if n != 1:
                    viol("C34:gai-null-return-callbacks", "request %d: evdns_getaddrinfo returned NULL and ran %d callbacks" % (rid, n))
            continue
        if n > 1:
            viol("C34:callback-twice:" + kind, "request %d reported %d times: %s" % (rid, n, r.cbs))
        if n == 0:
            if rid in starved:
                lt = last_tx.get(rid)
                sub = ""
                if probes_hog and (lt is None or lt["replied"]):
                    # nameserver probes are forced into the in-flight table but count against max-inflight: with a tiny table and
                    # probes overlapping until the end of the run the waiting queue is never served
                    sub = ":starved-by-probes-in-flight"
                elif lt is None and stuck_root:
                    # never transmitted at all: it waits behind the stuck follow-up request (nothing is in flight any more,
                    # so nothing ever pumps the waiting queue again)
                    sub = ":continuation-stuck-in-waiting-queue"
                elif lt is not None and lt["replied"] and meta["inflight"] <= 3:
                    # the last thing seen for this request is a reply to its query (error -> next search name, TC -> TCP), the
                    # follow-up query never appeared and the in-flight table is tiny: the follow-up sits in the waiting queue
                    sub = ":continuation-stuck-in-waiting-queue"
                viol("C34:no-callback:" + kind + sub, "request %d issued at t=%d had not reported when virtual time had been advanced by the bound of %.0f s" %
                     (rid, r.t_issue, meta["bound"]))
            elif r.pending_at_free and free_fail:
                viol("C34:no-shutdown-callback:" + kind, "request %d pending at evdns_base_free(fail_requests=1) never reported" % rid)
            elif r.pending_at_free:
                st("discarded_by_free")
                nontrivial = True
            elif free_t is not None and r.t_issue is not None and r.seq_issue > free_seq:
                pass
            else:
                lt = last_tx.get(rid)
                sub = ""
                if lt is not None and lt["replied"] and meta["inflight"] <= 3:
                    # the last thing seen for this request is a reply to its query (error -> next search name, TC -> TCP), the
                    # follow-up query never appeared and the in-flight table is tiny: the follow-up sits in the waiting queue
                    sub = ":continuation-stuck-in-waiting-queue"
                viol("C34:no-callback:" + kind + sub, "request %d issued at t=%d never reported although virtual time was advanced by the bound of %.0f s" %
                     (rid, r.t_issue, meta["bound"]))
            continue
        t, code, seq, after_free = r.cbs[0]
        st("reported_once")
        st(("gai_code_%d" if kind == "gai" else "code_%d") % code)
        if code != 0 or r.t_cancel is not None:
            nontrivial = True
        # --- after the base is gone only the SHUTDOWN reports of requests that were pending may run
        if after_free:
            if free_fail and r.pending_at_free:
                # evdns_base_free(base, 1): every request that had not reported yet reports once, after the free (the reports are
                # deferred).  Normally DNS_ERR_SHUTDOWN; a report that had already been decided keeps its own code.
                st("shutdown_reports" if (code == 68 or kind == "gai") else "reports_decided_before_free")
            elif r.t_cancel is not None and code == (69 if kind == "resolve" else EAI_CANCEL):
                st("cancel_report_after_free")     # the request had been cancelled before the free: its one report is still owed
            elif free_incb and t == free_t and r.pending_at_free:
                viol("C34:callback-after-base-free:%s:scheduled-before-free" % kind, "request %d: callback code %d ran after evdns_base_free(base,0) "
                     "was called inside another callback at the same instant t=%d (its report had already been scheduled)" % (rid, code, t))
            else:
                viol("C34:callback-after-base-free:%s" % kind, "request %d: callback code %d at t=%d after evdns_base_free(%d) at t=%d" %
                     (rid, code, t, 1 if free_fail else 0, free_t))
        elif kind == "resolve" and code == 68:
            viol("C34:shutdown-without-free", "request %d reported DNS_ERR_SHUTDOWN before any evdns_base_free" % rid)
        # --- cancellation
        if r.t_cancel is not None and not after_free:
            want = 69 if kind == "resolve" else EAI_CANCEL
            if code == want:
                st("cancel_reports")
            elif r.cancel_idle:
                viol("C34:cancel-not-reported-as-cancel:" + kind, "request %d cancelled at an idle point (t=%d) reported code %d at t=%d" %
                     (rid, r.t_cancel, code, t))
            else:
                st("cancel_lost_race_with_result")
            if r.cancel_idle and t != r.t_cancel:
                st("cancel_reported_later")
        # --- bounded progress
        if not after_free and r.t_issue is not None and t - r.t_issue > meta["bound"] * 1e6:
            viol("C34:late-callback:" + kind, "request %d issued t=%d reported t=%d (bound %.0f s)" % (rid, r.t_issue, t, meta["bound"]))
        if t - (r.t_issue or 0) > 0:
            nontrivial = True
            st("reported_after_virtual_time")
    # --- transaction ids of requests in flight at the same time are distinct.  A transaction is known to be in flight
    # only from each (re)transmission seen on the wire until one request timeout later (then it is either retransmitted,
    # which is seen, or given up), and not beyond its callback / cancel / next stage / a reply carrying its id / base free.
    INF = 1 << 62
    T = int(meta["timeout"] * 1e6)

    def windows(x):
        e = x["end"] if x["end"] is not None else INF
        return [(s0, min(s0 + T, e)) for s0 in x["sight"] if s0 < e]
    txs.sort(key=lambda x: x["start"])
    byid = {}
    for a in txs:
        byid.setdefault(a["id"], []).append(a)
    conc = 0
    for idv, lst in byid.items():
        for i, a in enumerate(lst):
            for b in lst[i + 1:]:
                if (a["owner"], a["qt"]) == (b["owner"], b["qt"]) or a["tainted"] or b["tainted"]:
                    continue
                hit = [(wa, wb) for wa in windows(a) for wb in windows(b) if max(wa[0], wb[0]) < min(wa[1], wb[1])]
                if hit:
                    cont = (a["stage"] > 0 or b["stage"] > 0) and hit[0][0][0] == hit[0][1][0]
                    # (a follow-up request - TCP retry, next search name - gets its id when it is built and enters the table later)
                    viol("C34:transaction-id-shared" + (":follow-up-request-id-picked-before-insert" if cont else ""), "id 0x%04x in flight for request %s (type %d, sent at %s) and request %s (type %d, sent at %s) at the same time" %
                         (idv, a["owner"], a["qt"], a["sight"][:4], b["owner"], b["qt"], b["sight"][:4]))
    st("transactions", len(txs))
    st("transaction_ids_reused_over_time", sum(1 for v in byid.values() if len(v) > 1))
    allw = sorted((w[0], w[1]) for x in txs for w in windows(x)[:1])
    for i in range(len(allw) - 1):
        if allw[i + 1][0] < allw[i][1]:
            conc += 1
    st("transactions_overlapping_in_time", conc)
    for tg in meta["tags"]:
        st("gen_" + tg)
    return V, S, nontrivial


def judge_shard(a):
    script, traces = a
    metas = pickle.load(open(script + ".meta", "rb"))
    out = dict(viol=[], stats={}, hashes=[], samples=[], ncases=0)
    for tp in traces:
        cases, _ = G.parse_trace(tp)
        for idx, c in cases.items():
            if not c.ended:
                continue
            meta = metas[idx]
            V, S, nt = judge_case(c, meta)
            out["ncases"] += 1
            for k, v in S.items():
                out["stats"][k] = out["stats"].get(k, 0) + v
            if nt:
                out["hashes"].append(meta["hash"])
                if len(out["samples"]) < 1:
                    out["samples"].append(dict(case=idx, nameservers=meta["nns"], attempts=meta["attempts"], timeout=meta["timeout"],
                                               max_inflight=meta["inflight"], behaviours=meta["tags"],
                                               trace=[" ".join(e)[:90] for e in c.events if e[0] in ("RET", "CB", "GCB", "XDONE", "FREE", "WAIT")][:14]))
            for key, text in V:
                out["viol"].append((key, text, script, idx))
    return out


def run(tier, seed, total=None, nfiles=16):
    res = vlib.Result(PROP)
    vlib.build("asan", ["h_dns"])
    d = vlib.workdir(PROP)
    total = total or SIZES[tier]
    per = (total + nfiles - 1) // nfiles
    rounds = 1
    while per > 1500:
        rounds *= 2; per = (total + nfiles * rounds - 1) // (nfiles * rounds)
    with multiprocessing.Pool(min(vlib.NCPU, nfiles)) as pool:
        for rd in range(rounds):
            scripts = [os.path.join(d, "s%d-%d.script" % (rd, i)) for i in range(nfiles)]
            pool.map(gen_shard, [(seed, rd * nfiles + i, per, (rd * nfiles + i) * per, scripts[i]) for i in range(nfiles)])
            traces = G.run_scripts(res, PROP, scripts, [(rd * nfiles + i + 1) * per for i in range(nfiles)])
            outs = pool.map(judge_shard, list(zip(scripts, traces)))
            texts = {}
            for o in outs:
                res.evaluations += o["ncases"]
                for k, v in o["stats"].items():
                    res.add_stat(k, v)
                res.hashes.update(o["hashes"])
                if len(res.samples) < 4:
                    res.samples += o["samples"][:1]
                for key, text, script, idx in o["viol"]:
                    if script not in texts:
                        texts[script] = G.case_texts(script)
                    res.add_viol(key, text, dict(lines=texts[script][idx], seed=seed))
            for sc in scripts:
                if any(((v.get("replay") or {}).get("payload") or {}).get("script") == sc and "lines" not in v["replay"]["payload"] for v in res.viol):
                    texts.setdefault(sc, G.case_texts(sc))
            G.attach_case_text(res, texts)
    return vlib.finish(res, tier, seed, RULE,
                       required=["reported_once", "code_0", "code_67", "code_69", "gai_code_0", "cancel_reports", "shutdown_reports", "discarded_by_free",
                                 "retransmitted_transactions", "tcp_queries", "probe_queries", "transactions_overlapping_in_time",
                                 "transaction_ids_reused_over_time", "in_callback_actions", "reported_after_virtual_time", "rng_pool_draws"],
                       assumptions=["scenario space sampled; virtual time only (no wall-clock verdicts)",
                                    "transaction ids come from a seeded generator biased to a pool of 2-8 values so that id collisions are exercised",
                                    "the bound on virtual time per request is generous: (requests+nameservers+2) x 4(search+1) stages x attempts x timeout x 2 + 15 s"])


def meta_from_lines(lines):
    meta = dict(idx=int(lines[0].split()[1]), reqs={}, attempts=3, timeout=5, nns=0, inflight=64, bound=1e9, tags=[], ndomains=0)
    for ln in lines:
        t = ln.split()
        if t[0] == "IC":
            t = t[2:]
        if t[0] == "G":
            meta["reqs"][int(t[1])] = dict(kind="G")
        elif t[0] == "R":
            meta["reqs"][int(t[1])] = dict(kind=t[2])
        elif t[0] == "W":
            meta["bound"] = int(t[1]) / 1e6
        elif t[0] == "NS":
            meta["nns"] += 1
        elif t[0] == "O" and t[1] == "max-inflight":
            meta["inflight"] = int(t[2])
        elif t[0] == "O" and t[1] == "timeout":
            meta["timeout"] = float(t[2])
        elif t[0] == "O" and t[1] == "attempts":
            meta["attempts"] = int(t[2])
    return meta


def replay(info):
    r = info["replay"]
    lines = r.get("lines") or (r.get("payload") or {}).get("lines")
    if not lines:
        print("replay file carries no case text"); return 2
    case, err = G.replay_lines(PROP, lines)
    keys = vlib.sanitizer_keys(err)
    bad = bool(keys)
    if case is not None and case.ended:
        V, S, _ = judge_case(case, meta_from_lines(lines))
        for k, t in V:
            print("VIOL", k, t); bad = True
    for k, t in keys:
        print("VIOL", k)
    if bad:
        print("VIOLATION property=%s replay=(replayed)" % PROP)
    return 1 if bad else 0


REG = dict(category="exploration",
           text="Runtime monitor of the evdns request lifecycle under a virtual clock: ~1.2e3 (quick) / 8e4 (thorough) scenarios of 4-10 "
                "evdns_base_resolve_*/evdns_getaddrinfo requests against 1-3 scripted nameservers (drop, delay, SERVFAIL/REFUSED/NOTIMP/NXDOMAIN/"
                "NODATA, TC with TCP fallback answered in chunks / closed at byte i / stalled, malformed, wrong id, duplicates), small attempts/"
                "timeout/max-inflight/probe settings, cancels and evdns_base_free(0|1) between steps and inside callbacks, transaction ids from "
                "a collision-biased seeded generator. Oracle on the trace: each request reports exactly once (0 times only when discarded by "
                "evdns_base_free(base,0)); DNS_ERR_CANCEL/EVUTIL_EAI_CANCEL after an idle-point cancel; DNS_ERR_SHUTDOWN only for requests "
                "pending at evdns_base_free(base,1); nothing else after the free; ids of transactions overlapping in virtual time are "
                "distinct; report within a generous virtual-time bound. ASan/UBSan/LSan live. Held-on-observed, not a proof.",
           note="trusts the trace of harness/h_dns.c and lib/ref/dnswire.py; request lifetimes are inferred from the wire (a transaction is taken "
                "to end at its callback, cancel, the next stage of the same request, a reply carrying its id, or the base free), probes are not "
                "part of the id-distinctness check",
           technique="scripted fake nameservers + virtual clock + trace oracle + sanitizers")
