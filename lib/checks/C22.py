"""C22 rate-limited bufferevents stay within budget and make progress (DESIGN §3 C22): every read/write
system call of 1-8 socket bufferevents is observed (sysfault observer) and booked on the tick of the virtual wall clock."""
from checks import generic

RULE = ("sessions of 1-8 socket bufferevents with always-ready peers; per-bufferevent buckets (rate 1..10^6, burst >= rate, tick 1 ms..2 s) "
        "and/or one group (min_share 0..10^5), max_single_read/write, manual decrements/refills, join/leave, disable/enable, stalled peers "
        "(short writes), bucket renewal; oracle: for every window of k whole ticks bytes <= burst + k*rate (+ application refills; group: "
        "+ min_share-1 counted separately), every syscall <= max_single, and data+budget+enabled => bytes move within one tick; "
        "non-trivial = some bucket's limit was binding (traffic >= half of rate*ticks); distinct = hash of the script")
STEPS = [
    dict(flavor="asan", harness="h_bev2", args=["--mode", "ratelim"], cases=dict(quick=1200, thorough=12000),
         timeout=dict(quick=900, thorough=9000)),
]
REG = dict(
    category="exploration",
    text="Bytes moved by a rate-limited bufferevent over any k-tick window stay <= burst + k*rate, a group's members together "
         "<= group burst + k*group rate (+ the documented min_share quantum), single operations respect max_single_read/write, and "
         "a bufferevent with data, budget and the direction enabled moves bytes within one tick - measured at the system calls under "
         "a virtual clock.",
    note="Sampled configurations; socket bufferevents only (TLS not covered); tick lengths within one session differ by at most 8x; "
         "application refills above burst are not generated; group budget for the progress rule means level >= min_share.",
    technique="syscall-level accounting per virtual tick + reference token buckets")


def run(tier, seed):
    return generic.run_spec("C22", tier, seed, STEPS, RULE,
                            required=["read_syscalls", "group_cfg_reapplied_in_debt", "write_syscalls", "windows_judged", "bev_bucket_epochs", "group_bucket_epochs",
                                      "buckets_limit_was_binding", "progress_checks", "manual_decrements", "manual_refills", "group_joins",
                                      "group_leaves", "max_single_set", "peer_stalls"],
                            assumptions=["ticks are those of ev_token_bucket_get_tick_ (whole milliseconds of the wall clock divided by the tick length)"])
