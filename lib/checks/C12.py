"""C12 evbuffer == byte-string reference model, plus chain-structure invariants (DESIGN §3 C12)."""
from checks import generic

RULE = ("case = one operation sequence over 1-4 evbuffers (random: 20-80 ops, thorough 20-200; or one member of the "
        "bounded-exhaustive enumeration of all sequences of length<=4 over a 32-symbol alphabet on 2 buffers, each step followed "
        "by a random read-only probe); after every op: return value, delivered bytes / pullup pointer / peek extents / "
        "evbuffer_ptr.pos vs a flat byte-vector model, full copyout of the operands, and an invariant walk over the chains of "
        "every buffer (sum(off)==total_len, last_with_datap, misalign+off<=buffer_len, last reachable and terminal, chain bytes == model). "
        "non-trivial = some buffer reached >=3 chains and a content-changing op succeeded (exhaustive part: a content-changing op "
        "succeeded); distinct = hash of the op sequence with all parameters")

STEPS = [
    dict(flavor="asan", harness="h_evbuf", args=["--mode", "model"], cases=dict(quick=2500, thorough=80000), timeout=dict(quick=900, thorough=7200)),
    dict(flavor="asan", harness="h_evbuf", args=["--mode", "model", "--arg", "exh"], cases=dict(quick=33824, thorough=1082400), seed_off=3, timeout=dict(quick=900, thorough=7200)),
]
REQUIRED = ["abandoned_reservation_shapes", "ops", "exh_sequences", "invariant_walks", "walk_multichain", "walk_immutable_chains",
            "op_add", "op_prepend", "op_add_printf", "op_add_buffer", "op_prepend_buffer", "op_remove_buffer", "op_drain",
            "op_remove", "op_copyout", "op_copyout_from", "op_pullup", "op_expand", "op_reserve_commit", "op_add_iovec",
            "op_peek", "op_search", "op_search_eol", "op_readln", "op_ptr_set", "op_freeze", "op_add_reference",
            "op_add_buffer_reference", "search_found", "search_match_spans_chains", "eol_found", "eol_spans_chains",
            "readln_lines", "pullup_pointers_checked", "peek_extents_checked", "ptr_set_ok", "ptr_set_out_of_range",
            "frozen_refusals", "references_added", "buffer_references_added", "buffer_moves", "noop_moves", "commits", "ref_cleanups"]

REG = dict(category="exploration",
           text="Runtime differential monitor: ~3e5 (quick) / ~1.7e7 (thorough) evbuffer operations in random sequences over 1-4 buffers, "
                "plus every op sequence of length <=3 (quick: 33 824) / <=4 (thorough: 1 082 400 sequences) over a 32-symbol boundary-size alphabet, "
                "each op compared with a flat byte-string model (results, bytes, pointers, positions, failures) and followed by a structural "
                "invariant walk of every buffer, under ASan+UBSan with library assertions on. Held-on-observed, not a proof.",
           note="trusts the byte-vector model in harness/h_evbuf.c; freeze/no-op/out-of-range rules not fixed by the docs are CALIBRATED to the "
                "current tree (listed in the harness); pinned chains (IOCP only) and file segments (C15) are not exercised; add_buffer_reference "
                "from a source that may hold multicast chains accepts either outcome; three crash/abort defects are probed in a forked child",
           technique="differential runtime oracle (byte-string model) + internal-structure invariant walker + sanitizers over generated and enumerated op sequences")


def run(tier, seed):
    return generic.run_spec("C12", tier, seed, STEPS, RULE, required=REQUIRED,
                            assumptions=["sizes sampled from boundary sets (0,1,2, chain capacities 1024/2048/4096/8192-48 +-1, powers of two +-1, 65536, 1 MiB in thorough); "
                                         "not all sizes", "single-threaded; locking disabled"])
