"""C16 evbuffer_read / evbuffer_write(_atmost) move exactly what the system call reports (DESIGN §3 C16).
Generator, model and oracle are in harness/h_evbufio.c (--mode sockio) on top of the sysfault monitor."""
from checks import generic

RULE = ("random histories over 4 evbuffers of 1-200 chains (copied, referenced, mmap/read/sendfile file segments, buffer references) "
        "on a real socketpair or pipe pair; every evbuffer_read / evbuffer_write(_atmost) call gets a scripted FIONREAD value and a "
        "scripted result (full, short by k, 0, EINTR/EAGAIN/ECONNRESET/EPIPE/..., frozen end) through the --wrap syscall monitor, which "
        "really moves the bytes it reports; the far end is read back and compared; non-trivial = every completed case (each has "
        "scripted faults and real transfers); distinct = hash of the executed op trace")

STEPS = [
    dict(flavor="asan", harness="h_evbufio", args=["--mode", "sockio", "--n1", "0"], cases=dict(quick=650, thorough=6500)),
    dict(flavor="asan", harness="h_evbufio", args=["--mode", "sockio", "--n1", "1"], cases=dict(quick=150, thorough=1500), seed_off=101),
]
REQUIRED = ["op_read", "op_write", "reads_ok", "reads_failed", "reads_returned_0", "writes_ok", "writes_failed", "writes_returned_0",
            "short_reads_seen", "short_writes_seen", "read_errors_seen", "write_errors_seen", "read_eof_seen",
            "sys_read", "sys_readv", "sys_write", "sys_writev", "sys_sendfile", "partial_writes",
            "read_on_frozen_end", "write_on_frozen_start", "chains_built", "zero_copy_bytes_sent_iovec",
            "zero_copy_bytes_sent_sendfile", "content_checks", "flush_writes"]

REG = dict(
    category="fault_enumeration",
    text="Runtime monitor with scripted syscall results: ~800 (quick) / ~8000 (thorough) histories, each with tens of "
         "evbuffer_read/evbuffer_write(_atmost) calls on real socketpairs/pipes whose read/readv/write/writev/sendfile/ioctl(FIONREAD) "
         "are wrapped; oracle: return value == bytes the kernel reported, appended bytes == next bytes of the far end's stream, request "
         "size <= howmuch and <= length, removed prefix == accepted count == bytes the far end received, buffer (length, contents, chain "
         "invariants) unchanged after a failing call, unread stream intact at the end. Fault patterns are sampled, not enumerated.",
    note="trusts harness/common/sysfault.c and the byte model in harness/h_evbufio.c; return value -1 vs 0 for calls that move nothing "
         "is not judged (docs silent); evbuffer_read is additionally required not to append more than howmuch (documented)",
    technique="syscall-result scripting (--wrap) + independent far-end witness + byte model")


def run(tier, seed):
    return generic.run_spec("C16", tier, seed, STEPS, RULE, required=REQUIRED,
                            assumptions=["fault sequences are sampled", "Linux sendfile/readv/writev paths only"])
