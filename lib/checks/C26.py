"""C26: every request/response evhttp writes parses (strict RFC 9112 reference parser, lib/ref/httpstrict.py)
as exactly one message carrying the caller's start line, header fields and body plus only the documented
automatic headers.  Workload and harness: lib/gen/httpmsggen.py, harness/h_httpmsg.c."""
import random
import re
import vlib
from gen import httpmsggen as G
from ref import httpstrict as S

PROP = "C26"
SIZES = dict(quick=(1, 2400), thorough=(50, 2400))          # (batches, cases per batch)
AUTO = (b"date", b"content-length", b"transfer-encoding", b"connection", b"content-type")
RULE = ("generated server replies (send_reply / send_error / send_reply_start+chunk+end; HTTP/1.0 and 1.1, keep-alive/close, "
        "HEAD, bodiless statuses, pipelined pairs) and client requests (all method types, extension methods, adversarial URIs) "
        "with header names/values, reason phrases and bodies containing CR, LF, folds, colons, 8-bit, control and long strings; "
        "the bytes seen by a raw peer socket are parsed by the strict reference parser and compared with the caller's arguments; "
        "non-trivial = a complete message was captured on the wire and judged; distinct = hash of the case script")
# failure classes that a tagged (non-injection) attack can plausibly cause; anything else gets its own key
PLAUSIBLE = {
    "body-sent-on-bodiless-response": ("trailing-bytes",),
    "request-body-on-bodiless-method": ("trailing-bytes",),
    "chunked-reply-http10-keepalive": ("trailing-bytes", "body-mismatch"),
    "header-name-non-token-accepted": ("unparseable:field-name-not-token", "unparseable:whitespace-before-colon",
                                       "header-mismatch", "extra-header", "missing-header",
                                       "unparseable:whitespace-before-first-field"),
    "header-value-fold": (),
    "header-name-empty": (),
    "default-content-type-crlf": (),
}


def _veq(parsed, supplied):
    """field value / reason / target equality modulo what HTTP cannot carry (outer OWS) and, when the caller's own
    string contains CR/LF, modulo the recipient's unfolding"""
    if b"\r" in supplied or b"\n" in supplied:
        return S.norm_ws(parsed) == S.norm_ws(supplied)
    return parsed.strip(b" \t") == supplied.strip(b" \t")


def _auto_ok(name, val, meta, mode):
    n = name.lower()
    if n == b"date":
        return S.is_imf_fixdate(val)
    if n == b"content-length":
        return re.match(rb"^[0-9]+$", val) is not None
    if n == b"transfer-encoding":
        return val == b"chunked"
    if n == b"connection":
        return val.lower() in (b"close", b"keep-alive")
    if n == b"content-type":
        ct = meta.get("ctype", "default")
        if mode == "error":
            return val == b"text/html"
        if ct == "-":
            return False                 # documented: NULL => no automatic Content-Type
        if ct != "default":
            return val == G.unhx(ct)
        return True
    return False


def _match_headers(parsed, user, meta, mode, out, require_all=True):
    """parsed: [(name,value)] from the wire; user: accepted caller headers in order"""
    u = 0
    seen = set()
    for n, v in parsed:
        if u < len(user) and n == user[u][0] and _veq(v, user[u][1]):
            u += 1
            continue
        ln = n.lower()
        if ln in AUTO and ln not in seen:
            seen.add(ln)
            if not _auto_ok(n, v, meta, mode):
                out.append(("bad-auto-header", "automatic header %r has value %r" % (n, v[:80])))
            continue
        # caller headers may legitimately be missing after send_error (it clears them): look ahead
        hit = None
        for k in range(u, len(user)):
            if n == user[k][0] and _veq(v, user[k][1]):
                hit = k
                break
        if hit is not None:
            if require_all:
                out.append(("missing-header", "caller header %r not on the wire (or out of order)" % (user[u][0],)))
            u = hit + 1
            continue
        if ln in AUTO:
            out.append(("extra-header", "second automatic header %r: %r" % (n, v[:80])))
        elif any(n == un for un, _ in user):
            out.append(("header-mismatch", "header %r carries %r, not the caller's value" % (n, v[:80])))
        else:
            out.append(("extra-header", "header field %r: %r was not supplied by the caller" % (n, v[:80])))
    if u < len(user) and require_all:
        out.append(("missing-header", "caller header %r: %r not on the wire" % (user[u][0], user[u][1][:60])))


def _rejected_absent(data, rejected, out):
    for n, v in rejected:
        if n and (n + b": " + v) in data:
            out.append(("rejected-arg-appeared", "header %r was rejected by evhttp_add_header but is on the wire" % (n,)))


def judge_srv(meta, ev, st):
    out = []
    pb = G.peer_bytes(ev)
    data, eof, _err = pb.get(1, (b"", False, False))
    ah = {}
    for e in ev:
        if e[0] == "ah":
            ah.setdefault(int(e[1]), []).append(int(e[3]))
    nscb = sum(1 for e in ev if e[0] == "scb")
    reqs = meta["reqs"]
    if nscb != len(reqs):
        return [("request-not-delivered", "%d of %d benign requests reached the callback" % (nscb, len(reqs)))]
    pos = 0
    for i, rq in enumerate(reqs):
        mode = rq["mode"]
        hs = [(G.unhx(a), G.unhx(b)) for a, b, _f in rq["hdrs"]]
        rets = ah.get(i, [])
        if len(rets) != len(hs):
            return [("harness", "header results missing")]
        user = [h for h, rc in zip(hs, rets) if rc == 0]
        rejected = [h for h, rc in zip(hs, rets) if rc != 0]
        st["hdr_accepted"] = st.get("hdr_accepted", 0) + len(user)
        st["hdr_rejected"] = st.get("hdr_rejected", 0) + len(rejected)
        last = (i == len(reqs) - 1)
        try:
            msg = S.parse_one(data[pos:], "response", req_method=rq["method"].encode(), eof=eof and last)
        except S.ParseError as e:
            out.append(("unparseable:" + e.code, "reply %d does not parse: %s" % (i, e.msg[:200])))
            return out
        pos += msg.consumed
        st["responses_checked"] = st.get("responses_checked", 0) + 1
        st["framing_" + msg.framing] = st.get("framing_" + msg.framing, 0) + 1
        if "obs-fold" in msg.notes:
            st["obs_fold_on_wire"] = st.get("obs_fold_on_wire", 0) + 1
        if mode == "error":
            st["error_pages_checked"] = st.get("error_pages_checked", 0) + 1
        if mode == "chunked":
            st["chunked_api_replies"] = st.get("chunked_api_replies", 0) + 1
        if msg.status != rq["code"]:
            out.append(("start-line-mismatch", "status %d, caller gave %d" % (msg.status, rq["code"])))
        reason = G.unhx(rq["reason"])
        if reason is not None and not _veq(msg.reason, reason):
            # The reply functions return void, so an unusable reason (one with CR/LF) can only be dropped or
            # replaced by the library; that is fine.  What it injects if it is NOT dropped is caught below as
            # extra/missing header fields, unparseable lines, wrong body or trailing bytes.
            if b"\r" in reason or b"\n" in reason:
                st["reason_with_crlf_not_echoed"] = st.get("reason_with_crlf_not_echoed", 0) + 1
            else:
                out.append(("start-line-mismatch", "reason %r, caller gave %r" % (msg.reason[:80], reason[:80])))
        if reason is None and (b"\r" in msg.reason or b"\n" in msg.reason):
            out.append(("start-line-mismatch", "default reason contains CR/LF"))
        _match_headers(msg.headers, user, meta, mode, out, require_all=(mode != "error"))
        _rejected_absent(data, rejected, out)
        body = G.unhx(rq["body"]) or b""
        bodiless = rq["method"] == "HEAD" or rq["code"] in (204, 304)
        if mode == "error":
            if not bodiless and not msg.body:
                out.append(("body-mismatch", "error page without body"))
        elif not bodiless and msg.body != body:
            out.append(("body-mismatch", "body of %d bytes on the wire, caller supplied %d bytes (first difference at %d)" % (
                len(msg.body), len(body), next((k for k in range(min(len(body), len(msg.body))) if body[k] != msg.body[k]), min(len(body), len(msg.body))))))
        if msg.trailers:
            out.append(("extra-header", "trailer fields %r" % (msg.trailers[:2],)))
        if out:
            break
    if not out and pos < len(data):
        out.append(("trailing-bytes", "%d bytes follow the message(s): %r" % (len(data) - pos, data[pos:pos + 60])))
    return out


def judge_cli(meta, ev, st):
    out = []
    pb = G.peer_bytes(ev)
    reuse = bool(meta.get("reuse"))
    # reuse histories: request 0 is the second one made on the connection object; it travels on the second accepted connection
    data, eof, _err = pb.get(101 if reuse else 100, (b"", False, False))
    if reuse:
        st["reuse_after_partial_write"] = st.get("reuse_after_partial_write", 0) + 1
    rets = [int(e[2]) for e in ev if e[0] == "rqh"]
    hs = [(G.unhx(a), G.unhx(b)) for a, b, _f in meta["hdrs"]]
    mk = [e for e in ev if e[0] == "mk" and len(e) > 2 and e[1] == "0" and e[2].startswith("ret=")]
    if len(rets) != len(hs) or not mk:
        return [("harness", "incomplete trace")]
    if mk[0][2] != "ret=0":
        return [] if not data else [("rejected-arg-appeared", "evhttp_make_request failed but %d bytes were written" % len(data))]
    user = [h for h, rc in zip(hs, rets) if rc == 0]
    rejected = [h for h, rc in zip(hs, rets) if rc != 0]
    st["hdr_accepted"] = st.get("hdr_accepted", 0) + len(user)
    st["hdr_rejected"] = st.get("hdr_rejected", 0) + len(rejected)
    try:
        msg = S.parse_one(data, "request", eof=eof)
    except S.ParseError as e:
        return [("unparseable:" + e.code, "request does not parse: %s" % e.msg[:200])]
    st["requests_checked"] = st.get("requests_checked", 0) + 1
    st["framing_" + msg.framing] = st.get("framing_" + msg.framing, 0) + 1
    uri = G.unhx(meta["uri"]) or b""
    if msg.method != meta["method"].encode():
        out.append(("start-line-mismatch", "method %r, caller gave %s" % (msg.method, meta["method"])))
    if msg.version != b"HTTP/1.1":
        out.append(("start-line-mismatch", "version %r" % (msg.version,)))
    if (b"\r" in uri or b"\n" in uri) and not out:
        if S.norm_ws(msg.target) != S.norm_ws(uri):
            out.append(("start-line-mismatch", "target %r, caller gave %r" % (msg.target[:80], uri[:80])))
    elif msg.target != uri:
        out.append(("start-line-mismatch", "target %r, caller gave %r" % (msg.target[:80], uri[:80])))
    _match_headers(msg.headers, user, meta, "request", out)
    _rejected_absent(data, rejected, out)
    body = G.unhx(meta["body"]) or b""
    if msg.body != body and (meta["hasbody"] or not body):
        out.append(("body-mismatch", "body of %d bytes on the wire, caller supplied %d" % (len(msg.body), len(body))))
    if not out and msg.consumed < len(data):
        out.append(("trailing-bytes", "%d bytes follow the request: %r" % (len(data) - msg.consumed, data[msg.consumed:msg.consumed + 60])))
    return out


def judge(meta, ev, st):
    """-> [(key, text)]"""
    if not ev or ev[-1][0] != "end":
        return []                         # process died: reported through the sanitizer/crash path
    if any(e[0] == "inflight-timeout" for e in ev) and not meta.get("reuse"):
        # the kernel still had bytes queued after the harness' 3 s real-time watchdog: no verdict for this case
        st["inflight_timeout_cases"] = st.get("inflight_timeout_cases", 0) + 1
        return []
    raw = judge_srv(meta, ev, st) if meta["dir"] == "srv" else judge_cli(meta, ev, st)
    tag = meta["tag"]
    res = []
    for cls, text in raw:
        if tag == "benign":
            key = "%s:benign-%s:%s" % (PROP, meta["dir"], cls)
        elif tag in PLAUSIBLE and cls not in PLAUSIBLE[tag]:
            key = "%s:%s:%s" % (PROP, tag, cls)
        else:
            key = "%s:%s" % (PROP, tag)
        res.append((key, "[%s/%s] %s" % (meta["dir"], cls, text)))
    return res


def run(tier, seed):
    res = vlib.Result(PROP)
    vlib.build("asan", ["h_httpmsg"])
    nb, per = SIZES[tier]
    st = {}
    conf = G.Confirmer(res, PROP, judge)
    total = 0
    for b in range(nb):
        found = []
        r = random.Random((seed * 1000003 + b) * 31 + 26)
        cases = [G.gen_c26(r, b * per + i, tier == "thorough") for i in range(per)]
        traces = G.run_batch(res, PROP, cases, b)
        for cs_ in cases:
            ev = traces.get(cs_.id, [])
            if not ev or ev[-1][0] != "end":
                continue
            total += 1
            st["tag_" + cs_.meta["tag"]] = st.get("tag_" + cs_.meta["tag"], 0) + 1
            v = judge(cs_.meta, ev, st)
            if any(e[0] in ("prx",) for e in ev):
                res.hashes.add(G.case_hash(cs_))
            census = [e for e in ev if e[0] == "census"]
            if census and census[0][1] != "0":
                v.append(("%s:leak-at-case-end" % PROP, "memfault census: %s blocks live after teardown" % census[0][1]))
            for key, text in v:
                found.append((cs_, key, text + " | tag=%s" % cs_.meta["tag"]))
                st["viol_cases"] = st.get("viol_cases", 0) + 1
            if len(res.samples) < 4 and b == 0 and cs_.id % 601 == 7:
                res.samples.append(dict(script=cs_.text()[:1500], tag=cs_.meta["tag"], dir=cs_.meta["dir"]))
        conf.report(b, found)
    st["unreproduced_on_rerun"] = conf.unreproduced
    for k, v in st.items():
        res.add_stat(k, v)
    res.evaluations = total
    return vlib.finish(res, tier, seed, RULE,
                       required=["reuse_after_partial_write", "responses_checked", "requests_checked", "chunked_api_replies", "error_pages_checked",
                                 "hdr_accepted", "hdr_rejected", "framing_chunked", "framing_length", "framing_close"],
                       assumptions=["the reference parser accepts bare LF as line end, replaces bare CR by SP and unfolds obs-fold (all allowed to a recipient by RFC 9112)",
                                    "request-target is treated as opaque bytes between first and last SP",
                                    "Date value is checked for IMF-fixdate syntax only (time(2) is not virtualised)"])


def replay(info):
    return G.replay_common(info, PROP, judge)


REG = dict(category="exploration",
           text="Runtime monitor: generated evhttp server replies (send_reply, send_error, chunked start/chunk/end) and client requests with "
                "adversarial URIs, reason phrases, header names/values and bodies; the raw bytes captured by a plain socket peer are parsed by an "
                "independent strict RFC 9112 parser (incl. de-chunking) and compared with the caller's arguments plus the documented automatic headers. "
                "2.4e3 (quick) / 1.2e5 (thorough) cases under ASan/UBSan with allocation census. Sampled input space: held-on-observed, not a proof.",
           note="trusts lib/ref/httpstrict.py (own parser, tolerant only where RFC 9112 lets a recipient be); 1xx replies, Expect: 100-continue "
                "and caller-supplied inconsistent framing headers are not generated",
           technique="reference-parser oracle on captured wire bytes + sanitizers")
