"""C39 - resolv.conf / hosts files and evdns_base_set_option are parsed safely and as documented (DESIGN §3 C39).

Workload (lib/gen/gaigen.py gen_c39_case): per case a fresh evdns_base (no system configuration) receives 1-3
configuration inputs - resolv.conf files from a directive grammar (nameserver / domain / search / options with
valid, invalid, out-of-range and undocumented values, comments, unknown keywords, tabs, CRLF, very long lines,
NUL bytes, random bytes), hosts files, evdns_base_set_option calls over all documented names x value grammar
(+ truncated / extended / upper-case names), nameserver_ip_add strings, search_add / ndots_set / clear, missing
files - with every DNS_OPTION_* flag combination.  Observation: return codes; evdns_base_count_nameservers /
get_nameserver_addr for every index (+1); the settings struct evdns_base really holds (the harness #includes
evdns.c); and behaviour: the names of the queries captured for probe lookups (search list, ndots), getaddrinfo
answers for hosts names, number and spacing of retransmissions against a silent server (attempts, timeout).

Oracle: lib/ref/resolvconf.py (written from resolv.conf(5), hosts(5), dns.h) is fed the same inputs; every setting
is a set of acceptable values (tri-state).  Metamorphic: the same well-formed lines with malformed lines
interleaved must give the identical configuration.  Sanitizers + allocation census (LEAK) per case.
"""
import os, sys, hashlib, random, multiprocessing, json
import vlib
from ref import resolvconf as R
from gen import gaigen as G

PROP = "C39"
RULE = ("case = one evdns_base + 1-3 configuration inputs (resolv.conf / hosts file / set_option / nameserver_ip_add / search API) "
        "+ DUMP + behavioural probes; non-trivial = the dump was compared with the reference parser and at least one judged setting "
        "differs from the defaults of a fresh base (a directive took effect) or a malformed/ignored input had to be skipped; "
        "distinct = md5 of the case script")
SIZES = dict(quick=3000, thorough=150000)
EAI_NONAME = -2

try:
    ETC_HOSTS = open("/etc/hosts", "rb").read()
except OSError:
    ETC_HOSTS = None

QUIRKS = ["nul_truncates", "ndots_reset", "empty_int_zero"]
QUIRK_KEY = {"nul_truncates": "C39:nul-byte-drops-rest-of-file", "ndots_reset": "C39:ndots-reset-when-search-list-replaced",
             "empty_int_zero": "C39:empty-integer-option-value-taken-as-zero"}


def subst(b, ports):
    for i, p in enumerate(ports):
        b = b.replace(b"@P%d@" % i, b"%d" % p)
    return b


def plain_domain(d):
    import re
    return bool(re.match(rb"[A-Za-z0-9_-]{1,30}(\.[A-Za-z0-9_-]{1,30}){0,5}\.?\Z", d)) and len(d) < 80


class Cursor:
    def __init__(self, events):
        self.ev = events; self.i = 0

    def next(self, tag):
        """next event with this tag (events before it are returned too)"""
        skipped = []
        while self.i < len(self.ev):
            e = self.ev[self.i]; self.i += 1
            if e[0] == tag:
                return e, skipped
            skipped.append(e)
        return None, skipped


def interpret(lines, case, quirks=(), nul_mode="prefix"):
    """re-run the script on the reference model, consuming the harness trace.
    -> (mismatches [(field, text)], stats {}, nontrivial bool)"""
    bad = []
    S = {}

    def st(k, n=1): S[k] = S.get(k, 0) + n
    cur = Cursor(case.events)
    ports = case.ports
    cfg = None
    hostname = b"vm"
    dumps = []
    last_rc_nul = False
    nontrivial = False
    fake = {(R.AF_INET, bytes([127, 0, 0, 1]), p) for p in ports}
    default = R.Config()

    def expect(tag):
        e, _ = cur.next(tag)
        if e is None:
            bad.append(("trace", "missing %s event" % tag))
        return e

    def probeable():
        return (cfg.ns is not None and len(cfg.ns) > 0 and all(n in fake for n in cfg.ns) and not cfg.nonloop_after_bind
                and cfg.tcpflags is not None and all(not (x & 2) for x in cfg.tcpflags)
                and cfg.f["attempts"] is not None and all(1 <= x for x in cfg.f["attempts"])
                and cfg.f["timeout"] is not None and cfg.f["max_inflight"] is not None and min(cfg.f["max_inflight"]) >= 4)
        # (max-inflight >= 4: with the in-flight table saturated, the continuation of a search waits in evdns' waiting queue until
        #  some other request finishes - a liveness matter of the request engine (C34), not of configuration parsing)

    def window(rid):
        """events of lookup `rid` up to its WAIT -> (gcb dict|None, [query (name,qtype,t)], wait event)"""
        gcb = None
        qs = []
        while cur.i < len(cur.ev):
            e = cur.ev[cur.i]; cur.i += 1
            if e[0] == "GCB" and int(e[1]) == rid:
                gcb = G.parse_gcb(e)
            elif e[0] == "Q":
                q = G.dec_query(bytes.fromhex(e[3]))
                if q:
                    qs.append((q[1].lower(), q[2], int(e[2])))
                else:
                    qs.append((None, None, int(e[2])))
            elif e[0] == "WAIT":
                return gcb, qs, e
        return gcb, qs, None

    for ln in lines[1:]:
        t = ln.split()
        c = t[0]
        if c == "B":
            cfg = R.Config(quirks)
        elif c == "HN":
            hostname = G.unhx(t[1])
        elif c == "F":
            cfg = None
        elif c == "E":
            break
        elif c == "O":
            name, val = G.unhx(t[1]), G.unhx(t[2])
            acc = cfg.set_option(name or b"", val)
            e = expect("RETO")
            st("set_option_calls")
            if e and int(e[1]) not in acc:
                bad.append(("set_option-rc", "evdns_base_set_option(%r, %r) returned %s, acceptable %s" % (name, val, e[1], sorted(acc))))
            if acc == {-1}:
                st("set_option_must_reject")
            elif acc == {0}:
                st("set_option_must_accept")
            else:
                st("set_option_either")
        elif c in ("NSA", "NS"):
            s = subst(G.unhx(t[1]), ports) if c == "NSA" else b"127.0.0.1:%d" % ports[int(t[1]) % 3]
            acc = cfg.nameserver_ip_add(s)
            e = expect("RETNS")
            st("nameserver_ip_add_calls")
            if e and (int(e[1]) == 0) not in acc:
                bad.append(("nameserver_ip_add-rc", "nameserver_ip_add(%r) returned %s, acceptable success=%s" % (s, e[1], sorted(acc))))
        elif c == "SA":
            cfg.search_add_front(G.unhx(t[1]) or b"")
        elif c == "SN":
            cfg.search_ndots_set(int(t[1]))
        elif c == "SC":
            cfg.search_clear()
        elif c == "RC":
            content = subst(G.unhx(t[2]), ports)
            acc = cfg.resolv_conf_parse(content, int(t[1]), hostname, ETC_HOSTS, nul_mode)
            e = expect("RETRC")
            st("resolv_conf_files")
            last_rc_nul = b"\0" in content
            if last_rc_nul:
                st("files_with_nul")
            if e and int(e[1]) not in acc:
                bad.append(("resolv_conf_parse-rc", "returned %s, acceptable %s" % (e[1], sorted(acc))))
        elif c == "RCX":
            acc = cfg.resolv_conf_parse(None, int(t[1]), hostname, ETC_HOSTS, nul_mode)
            e = expect("RETRC")
            st("resolv_conf_missing")
            if e and int(e[1]) not in acc:
                bad.append(("resolv_conf_parse-rc", "missing file: returned %s, acceptable %s" % (e[1], sorted(acc))))
        elif c == "LH":
            e = expect("RETLH")
            st("hosts_files")
            if t[1] in ("NULL", "MISSING"):
                cfg.load_hosts(None)
                want_ok = t[1] == "NULL"
            else:
                cfg.load_hosts(subst(G.unhx(t[1]), ports), nul_mode)
                want_ok = True
            if e and (int(e[1]) == 0) != want_ok and (want_ok or int(e[1]) >= 0):
                bad.append(("load_hosts-rc", "%s returned %s" % (t[1][:20], e[1])))
        elif c == "CH":
            cfg.clear_hosts()
        elif c == "DUMP":
            dl = []
            e, _ = cur.next("NSCOUNT")
            if e is None:
                bad.append(("trace", "missing dump")); continue
            dl.append(" ".join(e))
            while cur.i < len(cur.ev):
                e = cur.ev[cur.i]; cur.i += 1
                dl.append(" ".join(e))
                if e[0] == "HECOUNT":
                    break
            d = R.parse_dump(dl)
            dumps.append((dl, repr((cfg.ns, cfg.search, sorted((k, v and sorted(v)) for k, v in cfg.f.items()), cfg.hosts, cfg.tcpflags, cfg.bind))))
            mm = R.compare(cfg, d)
            bad += mm
            st("dumps_compared")
            st("nameservers_compared", len(d["ns"]) if cfg.ns is not None else 0)
            st("host_entries_compared", len(d["he"]) if cfg.hosts is not None else 0)
            if cfg.search is not None:
                st("search_lists_compared"); st("search_domains_compared", len(cfg.search))
            for k, v in cfg.f.items():
                st("settings_judged" if v is not None else "settings_unjudged")
                if v is not None and v != default.f[k]:
                    nontrivial = True; st("settings_changed_from_default")
            if cfg.ns is None: st("nameserver_list_unjudged")
            if cfg.hosts is None: st("hosts_unjudged")
            if cfg.search is None: st("search_unjudged")
            if (cfg.ns and cfg.ns != [(R.AF_INET, bytes([127, 0, 0, 1]), 53)]) or cfg.search or cfg.hosts or cfg.tcpflags != {0} or cfg.bind != {None}:
                nontrivial = True
        elif c == "PAIR":
            st("metamorphic_pairs")
            nontrivial = True
            if "nul_truncates" in quirks and last_rc_nul:
                st("metamorphic_pairs_model_differs")      # (deviation model: the inserted NUL line hides the lines after it)
            elif len(dumps) >= 2 and dumps[-1][1] != dumps[-2][1]:
                st("metamorphic_pairs_model_differs")      # (only under a deviation model: the inserted line has an effect there)
            elif len(dumps) >= 2 and dumps[-1][0] != dumps[-2][0]:
                diff = [(a, b) for a, b in zip(dumps[-2][0], dumps[-1][0]) if a != b][:2]
                bad.append(("malformed-lines-changed-config", "same well-formed lines, malformed lines interleaved: %s" % (diff or (len(dumps[-2][0]), len(dumps[-1][0])),)))
        elif c == "PS":
            rid, name = int(t[1]), G.unhx(t[2])
            gcb, qs, w = window(rid)
            hl = cfg.hosts_lookup(name)
            nd = cfg.f["ndots"]
            if not (probeable() and cfg.search is not None and all(plain_domain(d) for d in cfg.search) and nd is not None and hl == []):
                st("search_probes_skipped"); continue
            if gcb is None or w is None or w[3] != "1":
                bad.append(("search-behaviour", "probe %r never reported" % name)); continue
            got = [q[0] for q in qs if q[1] == 1]
            ok = False
            for n in nd:
                want = [x.lower().rstrip(b".") for x in R.search_candidates(name, cfg.search, n)]
                if got == want:
                    ok = True
            st("search_probes_judged")
            st("search_probe_queries", len(got))
            if len(cfg.search) > 0: st("search_probes_with_domains")
            if not ok:
                bad.append(("search-behaviour", "lookup of %r with search=%r ndots=%s queried %r, expected %r" % (name, cfg.search, sorted(nd), got, want)))
            elif gcb["err"] == 0:
                bad.append(("search-behaviour", "all candidates NXDOMAIN but getaddrinfo reported success"))
            if any(q[1] != 1 for q in qs):
                bad.append(("search-behaviour", "PF_INET lookup sent a non-A query: %r" % [q for q in qs if q[1] != 1][:2]))
        elif c == "PH":
            rid, name, serv, fam, stype = int(t[1]), G.unhx(t[2]), G.unhx(t[3]), int(t[4]), int(t[5])
            gcb, qs, w = window(rid)
            hl = cfg.hosts_lookup(name)
            if hl is None:
                st("hosts_probes_skipped"); continue
            if not hl:
                if probeable() and gcb is not None and gcb["err"] == 0:
                    bad.append(("hosts-behaviour", "%r is in no hosts entry and every query is answered NXDOMAIN, yet getaddrinfo succeeded: %r" % (name, gcb["ents"][:2])))
                st("hosts_probes_absent_name")
                continue
            st("hosts_probes_judged")
            if gcb is None:
                bad.append(("hosts-behaviour", "lookup of hosts name %r never reported" % name)); continue
            if qs:
                bad.append(("hosts-behaviour", "lookup of hosts name %r sent %d queries" % (name, len(qs))))
            want = [(f, a) for (f, a) in hl if fam == 0 or f == fam]
            port = int(serv) if serv else 0
            if not want:
                st("hosts_probes_other_family_only")
                if gcb["err"] == 0 or gcb["n"]:
                    bad.append(("hosts-behaviour", "only entries of the other family exist for %r but err=%d n=%d" % (name, gcb["err"], gcb["n"])))
                continue
            k = 2 if stype == 0 else 1           # socktype 0 and protocol 0: one TCP and one UDP entry per address
            ents = gcb["ents"]
            got = [(ents[i]["fam"], ents[i]["addr"]) for i in range(0, len(ents), k)]
            grouped = len(ents) % k == 0 and all(ents[i]["addr"] == ents[i - i % k]["addr"] for i in range(len(ents)))
            if gcb["err"] != 0 or got != want or not grouped:
                bad.append(("hosts-behaviour", "getaddrinfo(%r) err=%d gave %s, hosts entries say %s" % (name, gcb["err"], R.fmt_ns([(e["fam"], e["addr"], 0) for e in ents]), R.fmt_ns([(f, a, 0) for f, a in want]))))
            else:
                st("hosts_addresses_verified", len(want))      # (ports / socktypes of the entries are judged by C38)
        elif c == "PR":
            rid, name = int(t[1]), G.unhx(t[2])
            gcb, qs, w = window(rid)
            to, at, mt = cfg.f["timeout"], cfg.f["attempts"], cfg.f["max_timeouts"]
            if not (probeable() and len(cfg.ns) == 1 and cfg.search is not None and all(plain_domain(d) for d in cfg.search) and cfg.f["ndots"] is not None
                    and len(to) == 1 and len(at) == 1 and mt is not None and cfg.hosts_lookup(name) == []
                    and 1 <= min(at) <= 6 and min(to) <= 30000000 and cfg.f["probe_init"] is not None and min(cfg.f["probe_init"]) >= 1000000):
                st("retry_probes_skipped"); continue
            to, at = min(to), min(at)
            firsts = {x.lower().rstrip(b".") for n in cfg.f["ndots"] for x in R.search_candidates(name, cfg.search, n)[:1]}
            mine = [q for q in qs if q[0] in firsts and q[1] == 1]
            st("retry_probes_judged")
            if gcb is None or gcb["err"] == 0:
                bad.append(("retry-behaviour", "silent server but lookup %s" % ("succeeded" if gcb else "never reported")))
                continue
            times = [q[2] - mine[0][2] for q in mine] if mine else []
            want = [k * to for k in range(at)]
            if times != want:
                bad.append(("retry-behaviour", "timeout=%dus attempts=%d: transmissions at %r, expected %r" % (to, at, times, want)))
            else:
                st("retransmission_schedules_verified")
    if case.leak != 0:
        bad.append(("leak", "allocation census: %s blocks still live after evdns_base_free/event_base_free" % case.leak))
    else:
        st("cases_leak_free")
    return bad, S, nontrivial


def judge_case(lines, case):
    """-> (violations [(key, text)], stats, nontrivial)"""
    bad, S, nt = interpret(lines, case)
    if not bad:
        return [], S, nt
    bad2, S2, nt2 = interpret(lines, case, (), "skip")
    if not bad2:
        S2["nul_lines_skipped_whole"] = 1
        return [], S2, nt2
    # which known deviations (if any) explain the mismatches?  The subset leaving the fewest unexplained mismatches is
    # reported by its specific keys; whatever it does not explain is reported under generic keys (and fails the run).
    import itertools
    best = (len({f for f, _ in bad}), (), bad)
    for k in range(1, len(QUIRKS) + 1):
        for qs in itertools.combinations(QUIRKS, k):
            for nm in ("prefix", "skip"):
                b3, _, _ = interpret(lines, case, qs, nm)
                n3 = len({f for f, _ in b3})
                if n3 < best[0]:
                    best = (n3, qs, b3)
        if best[0] == 0:
            break
    V = []
    for q in best[1]:
        V.append((QUIRK_KEY[q], "case %d: configuration differs from the reference parser in %s; explained by deviation '%s'. %s" % (
            case.idx, sorted({f for f, _ in bad}), q, "; ".join(t for _, t in bad)[:700])))
        S["explained_by_" + q] = 1
    seen = set()
    for f, txt in best[2]:
        if f in seen:
            continue
        seen.add(f)
        V.append(("C39:mismatch:" + f, "case %d: %s" % (case.idx, txt[:900])))
    return V, S, nt


# ------------------------------------------------------------------ driver
def case_hash(lines):
    return int.from_bytes(hashlib.md5("\n".join(lines[1:]).encode()).digest()[:8], "little")


def gen_shard(a):
    seed, shard, n, first, path, thorough = a
    rng = random.Random((seed * 1000003 + shard) ^ 0xC39)
    allc = {}
    with open(path, "w") as f:
        for i in range(n):
            L = G.gen_c39_case(rng, first + i, thorough)
            allc[first + i] = L
            f.write("\n".join(G.expand_probes(L)) + "\n")
    with open(path + ".meta", "w") as f:
        json.dump({str(k): v for k, v in allc.items()}, f)
    return path


def judge_shard(a):
    script, trace = a
    metas = json.load(open(script + ".meta"))
    cases = G.parse_trace(trace)
    out = dict(viol=[], stats={}, hashes=[], samples=[], ncases=0)
    for k, lines in metas.items():
        idx = int(k)
        c = cases.get(idx)
        if c is None or not c.ended:
            continue
        try:
            V, S, nt = judge_case(lines, c)
        except Exception as e:     # an oracle crash must not pass silently
            import traceback
            V, S, nt = [("C39:oracle-error", "case %d: %s" % (idx, traceback.format_exc()[-600:]))], {}, False
        out["ncases"] += 1
        for kk, v in S.items():
            out["stats"][kk] = out["stats"].get(kk, 0) + v
        if nt:
            out["hashes"].append(case_hash(lines))
            if len(out["samples"]) < 1 and len("\n".join(lines)) < 1500:
                out["samples"].append(dict(case=idx, script=[l[:160] for l in lines[:14]]))
        for key, text in V:
            out["viol"].append((key, text, idx, lines))
    return out


def _run(tier, seed, total, nfiles=16):
    res = vlib.Result(PROP)
    vlib.build("asan", [G.HARNESS])
    d = vlib.workdir(PROP)
    rounds = 1
    per = (total + nfiles - 1) // nfiles
    while per > 2500:
        rounds *= 2; per = (total + nfiles * rounds - 1) // (nfiles * rounds)
    nproc = min(vlib.NCPU, nfiles)
    with multiprocessing.Pool(nproc) as pool:
        for rd in range(rounds):
            scripts = [os.path.join(d, "c39-%d-%d.script" % (rd, i)) for i in range(nfiles)]
            pool.map(gen_shard, [(seed, rd * nfiles + i, per, (rd * nfiles + i) * per, scripts[i], tier == "thorough") for i in range(nfiles)])
            masks = [(rd * nfiles + i) % 4 for i in range(nfiles)]
            traces, outs = G.run_scripts(res, PROP, scripts, masks, "c39")
            for o in pool.map(judge_shard, list(zip(scripts, traces))):
                res.evaluations += o["ncases"]
                for k, v in o["stats"].items():
                    res.add_stat(k, v)
                res.hashes.update(o["hashes"])
                if len(res.samples) < 5:
                    res.samples += o["samples"][:1]
                for key, text, idx, lines in o["viol"]:
                    res.add_viol(key, text, dict(lines=lines, ifmask=0, seed=seed))
            for v in res.viol:       # sanitizer findings: attach the case text
                rp = v["replay"]
                if "lines" not in rp and "payload" in rp and rp.get("only", -1) >= 0:
                    try:
                        metas = json.load(open(rp["payload"]["script"] + ".meta"))
                        rp["lines"] = metas.get(str(rp["only"])); rp["ifmask"] = rp["payload"]["ifmask"]
                    except Exception:
                        pass
    return res


def run(tier, seed):
    res = _run(tier, seed, SIZES[tier])
    return vlib.finish(res, tier, seed, RULE,
                       required=["dumps_compared", "resolv_conf_files", "hosts_files", "set_option_calls", "set_option_must_reject", "set_option_must_accept",
                                 "nameservers_compared", "host_entries_compared", "search_domains_compared", "settings_changed_from_default",
                                 "metamorphic_pairs", "search_probes_judged", "search_probes_with_domains", "hosts_probes_judged", "hosts_addresses_verified",
                                 "retransmission_schedules_verified", "files_with_nul", "resolv_conf_missing", "cases_leak_free", "queries_captured"],
                       assumptions=["file contents are sampled from a grammar + mutations + random bytes, not enumerated",
                                    "the reference parser (lib/ref/resolvconf.py) encodes resolv.conf(5)/hosts(5)/dns.h; CALIBRATED choices are marked there",
                                    "settings are read from struct evdns_base by a harness that #includes evdns.c (field names are trusted)",
                                    "sends to non-fake nameservers are failed with ENETUNREACH by the harness (nothing leaves loopback)"])


def replay(info):
    r = info["replay"]
    lines = r.get("lines")
    if not lines:
        print("replay file carries no case text"); return 2
    case, err = G.replay_lines(PROP, G.expand_probes(lines), r.get("ifmask", 0))
    keys = vlib.sanitizer_keys(err)
    bad = bool(keys)
    for k, t in keys:
        print("VIOL", k)
    if case is not None and case.ended:
        V, S, _ = judge_case(lines, case)
        for k, t in V:
            print("VIOL", k, t); bad = True
    elif not keys:
        print("case did not finish"); return 2
    if bad:
        print("VIOLATION property=%s replay=(replayed)" % PROP)
    return 1 if bad else 0


REG = dict(category="exploration",
           text="Runtime monitor of the resolver configuration parsers: thousands (quick) / 3e5 (thorough) resolv.conf and hosts files from a directive "
                "grammar with valid, invalid, out-of-range and undocumented values, comments, CRLF, very long lines, NUL and random bytes, plus "
                "evdns_base_set_option over every documented name x value grammar, nameserver_ip_add strings, search API calls and missing files, "
                "under every DNS_OPTION_* flag set.  An independent reference parser (resolv.conf(5), hosts(5), dns.h) with tri-state expectations is "
                "compared with return codes, count_nameservers/get_nameserver_addr, the settings really stored in struct evdns_base, and behaviour "
                "(query names of probe lookups for search list/ndots, getaddrinfo answers for hosts names, retransmission count/spacing for "
                "attempts/timeout in virtual time); metamorphic check that interleaved malformed lines do not change the configuration; ASan+UBSan, "
                "allocation census per case, LSan.  Held-on-observed, not a proof.",
           note="trusts lib/ref/resolvconf.py; values outside the documented syntax (signs, overflow, leading zeros, exponent floats, odd address "
                "spellings) are unjudged; CALIBRATED: nameserver order/dedup/no limit, clipping ranges of libevent-specific options, '\\r' is an ordinary "
                "character, indented keywords accepted",
           technique="grammar + mutation workload, reference-parser differential oracle (tri-state), metamorphic line insertion, sanitizers, census")
