"""C05 kernel interest set == union of added I/O events at every backend wait (DESIGN §3 C05)."""
from checks import generic

RULE = ("(1) every op sequence of length <= L (quick L=3: 2 954 on 4 configurations; thorough L=4: 41 370 on 4 configurations and L=5: 579 194 on epoll+changelist and poll) over {add R, add W, add CLOSED, del R, del W, del CLOSED, "
        "close+reopen (del-then-close / close-then-del / dup2 over the open fd)} x 2 fds executed between two backend waits from a random pre-state, "
        "followed by one more random op and a third wait; (2) random histories with 1-8 (big: up to 150) adds/dels/closes/reopens/dup2 between "
        "waits on up to 88 fds (changelist growth past 64 entries), several events per fd, one-shot events, in-callback deletes. At every wait of "
        "every configuration the kernel-side set (epoll: /proc/self/fdinfo/<epfd>; poll: pollfd[]; select: fd_sets+nfds) is compared with the shadow "
        "OR of the added events per fd (ET flag on epoll); non-trivial = some user event was added at a compared wait; distinct = hash of the script")
STEPS = [
    dict(flavor="asan", harness="h_io", args=["--mode", "c05enum", "--n1", "3", "--n2", "0x55"], cases=dict(quick=2954, thorough=2954), tiers=("quick",),
         timeout=dict(quick=300, thorough=300)),
    dict(flavor="asan", harness="h_io", args=["--mode", "c05enum", "--n1", "4", "--n2", "0x55"], cases=dict(quick=41370, thorough=41370),
         tiers=("thorough",), timeout=dict(quick=3600, thorough=3600)),
    dict(flavor="asan", harness="h_io", args=["--mode", "c05enum", "--n1", "5", "--n2", "0x14"], cases=dict(quick=579194, thorough=579194),
         tiers=("thorough",), timeout=dict(quick=3600, thorough=3600), seed_off=1),
    dict(flavor="asan", harness="h_io", args=["--mode", "c05"], cases=dict(quick=1000, thorough=120000), seed_off=3,
         timeout=dict(quick=300, thorough=3600)),
]

REG = dict(
    category="exploration",
    text="Runtime monitor at the wait call itself: the link-time wrappers of epoll_wait/epoll_pwait2/poll/select hand the harness the kernel-facing "
         "interest set at every backend wait (for epoll the kernel's own view from /proc/self/fdinfo/<epfd>), which must equal, for every non-internal "
         "fd, the OR of the interests of the events the harness currently has added (edge flag exactly when requested; select on R/W only); internal fds "
         "(notify, signal socketpair / signalfd) must be read-only registrations. Workloads: bounded-exhaustive op sequences on 2 fds between two waits "
         "(thorough: all 41 370 sequences of length <=4 on epoll, epoll+changelist, poll, select and all 579 194 of length <=5 on epoll+changelist and poll; quick: length <=3) plus 1k/120k random histories incl. cancelling add/del pairs, close+reopen of "
         "the same fd number, dup2 over a registered fd, changelist growth to >64 entries; on epoll, epoll+changelist, poll, select x self-pipe/signalfd. "
         "ASan+UBSan, asserts on. Sampling beyond the enumerated bound: held-on-observed.",
    note="trusts /proc/self/fdinfo and the wrapped syscall arguments as the kernel's view, and the shadow map in harness/h_io.c; events are deleted before "
         "their fd is closed (or right after, when at most one event is added on it - the only order the library tolerates); no fd clones by dup() "
         "stay open (documented limitation of the changelist); ET and non-ET events are never mixed on one fd (documented)",
    technique="runtime observation of syscall arguments / kernel fdinfo at each wait vs a shadow reference map; bounded-exhaustive + random histories",
)


def run(tier, seed):
    return generic.run_spec("C05", tier, seed, STEPS, RULE,
                            required=["waits_compared", "add_on_closed_fd_refused", "add_on_closed_fd_accepted", "waits_epoll", "waits_epollcl", "waits_poll", "waits_select", "user_fds_compared",
                                      "internal_fds_seen", "enumerated_histories", "event_adds", "event_dels", "event_readds", "fd_number_reused",
                                      "dup2_over_open_fd", "close_before_del", "cb_et", "del_in_callback", "callbacks", "changelist_grown_past_64",
                                      "waits_after_over_64_fds_changed"],
                            assumptions=["the interest set is sampled at the wait call (after the backend applied its pending changes), which is the point the property names",
                                         "the enumerations run the 4 self-pipe configurations; signalfd variants are covered by the random histories"])
