"""C35 DNS server responses encode exactly the records that were added (DESIGN §3 C35)."""
from gen import dnssrvgen

RULE = ("scripted clients (UDP without/with OPT of many sizes, TCP with arbitrary segmentation) query a real evdns server port whose "
        "callback adds generated A/AAAA/PTR/CNAME/raw records (shared/distinct suffixes, up to 127 labels, >128 table entries, "
        "totals around 512 / the EDNS size / 16384 / 65535..65536); every byte the client receives is decoded by an independent strict "
        "decoder and compared with the request's questions and the added records; non-trivial = at least one reply was received and judged; "
        "distinct = hash of the case script")
REQUIRED = ["responses", "responses_complete_exact", "records_verified", "compression_pointers_validated", "responses_truncated",
            "responses_udp_plain", "responses_udp_edns", "responses_tcp", "responses_over_16k", "census_clean"]
ASSUME = ["the reference decoder lib/ref/dnswire_srv.py is correct (written from RFC 1035/6891, shares no code with evdns.c)",
          "loopback delivery is synchronous: after the loop is idle (3 consecutive steps without syscall progress) every reply has reached the client socket",
          "CALIBRATED: a request carrying OPT gets an automatic OPT record (class 512) as first additional record; replies over 65507 bytes cannot be sent over UDP/IPv4"]

REG = dict(category="exploration",
           text="Runtime monitor of the real evdns server port over loopback UDP/TCP sockets: ~1.4e3 (quick) / ~9.2e4 (thorough) generated "
                "request+record-set cases; every reply byte is decoded by an independent strict DNS decoder (pointer targets must be label starts of "
                "earlier names with the intended suffix) and compared with the questions and exactly the records the callback added, in order; "
                "size-limit/TC/count honesty judged against the uncompressed size; ASan+UBSan+LSan live, allocation census per case. "
                "Held-on-observed only: sampled, not exhaustive.",
           note="trusts lib/ref/dnswire_srv.py and the harness's socket plumbing; sizes are steered with an estimate of the reply size, so exact "
                "boundaries (limit-2..limit+3, 16384, 65535/65536) are hit often but not enumerated",
           technique="differential runtime oracle: strict reference decoder over replies of the real server + sanitizers")


def run(tier, seed):
    return dnssrvgen.run_check("C35", tier, seed, RULE, REQUIRED, ASSUME)


def replay(info):
    return dnssrvgen.replay(info)
