"""C33 - the resolver accepts only what a DNS reply actually says (DESIGN §3 C33).

Workload: one pending A/AAAA/PTR query per case (0x20 on/off, DNS_CNAME_CALLBACK on/off, UDP,
TC->TCP fallback or DNS_QUERY_USEVC), 1-3 replies from the reply grammar of lib/gen/dnsgen.py
delivered by the harness' fake nameserver (exact-size datagrams, arbitrary TCP segmentation),
then a known-good reply and a virtual-time drain.  Oracle: lib/ref/dnswire.py decodes the bytes
actually sent; see judge_case().
"""
import os, sys, struct, pickle, multiprocessing
import vlib
from ref import dnswire as W
from gen import dnsgen as G

PROP = "C33"
RULE = ("case = one pending A/AAAA/PTR request + 1-3 grammar replies (+ final good reply); non-trivial = at least one reply "
        "with the in-flight ID and QR=1 reached the pending request, or a must-ignore reply (wrong ID / QR=0) "
        "was delivered while it was pending; distinct = hash of the case script")
T_A, T_AAAA, T_PTR, T_CNAME = 1, 28, 12, 5
SIZES = dict(quick=4800, thorough=250000)


# ------------------------------------------------------------------ generation
def gen_case(rng, idx):
    qkind = rng.choice(["A", "A", "A", "AAAA", "AAAA", "P4", "P6"])
    qtype = G.QT[qkind]
    randcase = rng.random() < 0.6
    flags = G.F_NO_SEARCH
    if rng.random() < 0.5:
        flags |= G.F_CNAME_CB
    mode = rng.choice(["udp"] * 7 + ["tc"] * 2 + ["vc"])
    if mode == "vc":
        flags |= G.F_USEVC
    edns = rng.choice([None, None, None, None, 1232, 4096, 65535])
    if qkind in ("A", "AAAA"):
        r = rng.random()
        if r < 0.06:
            name = b".".join([G.rand_label(rng, 63), G.rand_label(rng, 63), G.rand_label(rng, 63), G.rand_label(rng, 61)])
        elif r < 0.12:
            name = G.rand_label(rng, 1)
        else:
            name = G.plain_name(rng)
        arg = name
    else:
        arg = bytes(rng.randrange(256) for _ in range(4 if qkind == "P4" else 16))
        name = G.reverse_name(qkind, arg)
    labels = W.text_to_labels(name)
    qlen = len(W.encode_name(labels))
    L = ["CASE %d" % idx, "B %d" % rng.choice([0, 0x8000]), "RNG %d 0" % rng.randrange(1 << 40), "NS 0",
         "O randomize-case %d" % (1 if randcase else 0)]
    if edns:
        L.append("O edns-udp-size %d" % edns)
    L += ["R 0 %s %d %s" % (qkind, flags, arg.hex()), "S"]
    tags = []
    nrep = rng.choice([1, 1, 1, 2, 2, 3])

    def push(tmpl):
        ca = -1
        if rng.random() < 0.1:
            ca = rng.randrange(1, 60)
        ch = "-"
        if rng.random() < 0.6:
            ch = ",".join(str(rng.choice([1, 1, 2, 3, 7, 20, 100, 500])) for _ in range(rng.randint(1, 8)))
        return "P 0 %d %s %s" % (ca, ch, tmpl)
    if mode == "tc":
        L += ["U 0 0 I8380" + struct.pack(">HHHH", 1, 0, 0, 0).hex() + "Q" + struct.pack(">HH", qtype, 1).hex(), "S"]
    for _ in range(nrep):
        tcp = mode != "udp"
        if tcp and rng.random() < 0.15:
            tcp = False      # a UDP datagram while the request lives on TCP
        t, tg = G.gen_reply(rng, qtype, qlen, tcp=tcp)
        if tcp and rng.random() < 0.1:
            t2, tg2 = G.gen_reply(rng, qtype, qlen, tcp=True)      # two frames in one stream
            t, tg = (t if t != "-" else "") + t2, tg | tg2 | {"two-frames"}
        if tcp and rng.random() < 0.05:
            t = t.replace("L", rng.choice(["0000", "0001", "ffff", "000b"]), 1); tg = tg | {"bogus-length"}
        tags.append(sorted(tg))
        if tcp:
            L += [push(t), "S"]
        else:
            alt = 1 if rng.random() < 0.06 else 0
            L += ["U 0 %d %s" % (alt, t), "S"]
    L += ["U 0 0 " + G.good_reply(rng, qtype, qlen), "S", "P 0 -1 - " + G.good_reply(rng, qtype, qlen, tcp=True), "S",
          "W 90000000 2500000", "E"]
    meta = dict(idx=idx, qkind=qkind, qtype=qtype, name=name, randcase=randcase, flags=flags, mode=mode,
                maxudp=max(512, min(65535, edns)) if edns else 512, tags=tags)
    return L, meta


def gen_shard(a):
    seed, shard, n, first, path = a
    rng = G.mkrng(seed, PROP, shard)
    metas = {}
    with open(path, "w") as f:
        for k in range(n):
            L, meta = gen_case(rng, first + k)
            f.write("\n".join(L) + "\n")
            meta["hash"] = G.h64("\n".join(L[1:]).encode())
            metas[first + k] = meta
    pickle.dump(metas, open(path + ".meta", "wb"))
    return path


# ------------------------------------------------------------------ oracle
class Reply:
    __slots__ = ("t", "data", "kind", "alt", "consumed", "final", "ignore", "stale")


def _frames(buf):
    out = []
    while len(buf) >= 2:
        l = struct.unpack(">H", buf[:2])[0]
        if len(buf) < 2 + l:
            break
        out.append(bytes(buf[2:2 + l]))
        del buf[:2 + l]
    return out


def judge_case(case, meta):
    """returns (viols:list[(key,text)], stats:dict, nontrivial:bool)"""
    V, S = [], {}

    def st(k, n=1): S[k] = S.get(k, 0) + n

    def viol(key, text): V.append((key, "case %d: %s" % (meta["idx"], text)))
    qtype, flags = meta["qtype"], meta["flags"]
    want = W.text_to_labels(meta["name"])
    cur_id = None          # id of the transaction in flight (last query seen)
    sent_labels = None     # question name as sent (0x20 applied)
    qstream = {}
    rstream = {}
    window = []
    cb_src = None
    replies = []
    n_primary = 0
    done_t = None
    nontrivial = False
    ret = None
    cname_strict_max, cname_lenient = 0, 0
    for ev in case.events:
        k = ev[0]
        if k == "RET":
            ret = ev[3]
        elif k in ("Q", "QT"):
            if k == "Q":
                msgs = [bytes.fromhex(ev[4])] if ev[4] != "-" else [b""]
            else:
                b = qstream.setdefault((ev[1], ev[2]), bytearray())
                b += bytes.fromhex(ev[4]) if ev[4] != "-" else b""
                msgs = _frames(b)
            for m in msgs:
                if len(m) >= 12:
                    cur_id = struct.unpack(">H", m[:2])[0]
                    try:
                        sent_labels, _ = W.decode_name(m, 12)
                    except W.WireError:
                        sent_labels = None
                    st("queries_seen")
        elif k == "SENT":
            tr = ev[2]
            if tr.startswith("udp"):
                if int(ev[4]) < 0:
                    continue
                data = bytes.fromhex(ev[5]) if ev[5] != "-" else b""
                r = Reply(); r.t = int(ev[3]); r.kind = "udp"; r.alt = tr == "udp-alt"; r.consumed = 0
                r.data = data[:meta["maxudp"]]
                if len(data) > meta["maxudp"]:
                    st("udp_replies_cut_by_recv_buffer")
                replies.append(r); window.append(r)
                _classify(r, cur_id, done_t is not None, st)
            else:
                b = rstream.setdefault((ev[1], ev[4]), bytearray())
                b += bytes.fromhex(ev[5]) if ev[5] != "-" else b""
                # a zero-length frame makes the library drop the connection: stop framing there
                while len(b) >= 2:
                    l = struct.unpack(">H", b[:2])[0]
                    if l == 0:
                        b[:] = b"\0\0"      # poisoned: nothing after it is ever read
                        break
                    if len(b) < 2 + l:
                        break
                    r = Reply(); r.t = int(ev[3]); r.kind = "tcp"; r.alt = False; r.consumed = 0
                    r.data = bytes(b[2:2 + l]); del b[:2 + l]
                    replies.append(r); window.append(r)
                    st("tcp_frames_delivered")
                    _classify(r, cur_id, done_t is not None, st)
        elif k == "TX":
            rstream.pop((ev[1], ev[2]), None)
        elif k == "IDLE":
            window = []
        elif k == "CB":
            t = int(ev[2]); prim = int(ev[3]) >= 0
            result, ctype, count, ttl = int(ev[4]), int(ev[5]), int(ev[6]), int(ev[7])
            data = bytes.fromhex(ev[8]) if ev[8] not in ("-", "?") else b""
            if prim:
                n_primary += 1
                if n_primary > 1:
                    viol("C33:callback-twice", "second primary callback %s" % " ".join(ev))
                    continue
                done_t = t
                exp_type = {T_A: 1, T_AAAA: 3, T_PTR: 2}[qtype]
                if ctype != exp_type:
                    viol("C33:callback-type", "callback type %d for query type %d" % (ctype, qtype))
                if not window:
                    # no reply since the last idle point: caused by the passage of virtual time; may only be an error
                    if result == 0:
                        viol("C33:result-without-reply", "result callback at t=%d with no reply delivered since the last idle point" % t)
                    else:
                        st("error_after_timeout")
                    continue
                # several replies can reach the library in one read (TCP frames); the callback is owed to one of
                # the replies delivered since the last idle point that are not must-ignore
                cands = [r for r in window if not r.ignore]
                if not cands:
                    r0 = window[-1]
                    viol("C33:ignored-reply-caused-callback:" + r0.ignore, "reply %s (id in flight %s) was followed by %s" % (r0.data.hex()[:120], cur_id, " ".join(ev)))
                    continue
                nontrivial = True
                if result != 0:
                    st("error_callbacks"); st("error_code_%d" % result)
                    continue
                st("result_callbacks")
                best = None
                for r in cands:
                    v2, s2 = [], {}
                    _judge_result(r, sent_labels, want, meta, count, ttl, data,
                                  lambda key, text: v2.append((key, text)), lambda k2, n=1: s2.__setitem__(k2, s2.get(k2, 0) + n))
                    # the reply the result was taken from is the one whose answer section holds exactly the reported data
                    data_ok = any(k2 in s2 for k2 in ("address_lists_checked", "ptr_names_checked", "lenient_parse_accepted"))
                    rank = (0 if not v2 else 1 if data_ok else 2, len(v2))
                    if best is None or rank < best[3]:
                        best = (v2, s2, r, rank)
                    if not v2:
                        break
                for key, text in best[0]:
                    viol(key, text)
                for k2, n in best[1].items():
                    st(k2, n)
                cb_src = best[2]
            else:
                st("cname_callbacks")
                if not (flags & G.F_CNAME_CB):
                    viol("C33:cname-callback-without-flag", " ".join(ev))
                if cb_src is None:
                    viol("C33:cname-callback-unattributed", " ".join(ev))
                    continue
                m = W.decode_message(cb_src.data, tolerant=True)
                if any(rr.flaw for rr in m.answers if rr.type == T_CNAME) or (m.error and m.error[1] == "answer"):
                    st("ambiguous_framing_skipped")
                    continue
                targets = [W.labels_text(rr.target).split(b"\0")[0] for rr in m.answers if rr.type == T_CNAME and rr.target is not None]
                if data not in targets:
                    viol("C33:wrong-cname", "reported CNAME %r not among CNAME targets %r of the answer section" % (data, targets))
                else:
                    st("cname_checked")
                    if targets and data == targets[-1]:
                        st("cname_is_last_in_chain")
                if ctype != 4 or count != 1:
                    viol("C33:cname-callback-shape", " ".join(ev))
    # replies that must be ignored and indeed were
    pend_replies = [r for r in replies if not r.stale]
    for r in pend_replies:
        if r.ignore:
            nontrivial = True
        else:
            m = W.decode_message(r.data, tolerant=True)
            cname_strict_max = max(cname_strict_max, sum(1 for rr in m.answers if rr.type == T_CNAME))
            cname_lenient += r.data[12:].count(b"\x00\x05")
    # a request that only ever saw must-ignore replies must be answered by the final good reply
    if ret == "1":
        st("requests")
        if n_primary == 0:
            viol("C33:no-callback", "request never reported although virtual time was advanced past every timeout")
    if case.leak:
        if flags & G.F_CNAME_CB and cname_strict_max >= 2:
            viol("C33:leak:multiple-cname-with-cname-callback", "%d blocks live after evdns_base_free: reply with %d CNAME records to a DNS_CNAME_CALLBACK query" % (case.leak, cname_strict_max))
        elif flags & G.F_CNAME_CB and cname_lenient:
            viol("C33:leak:cname-on-error-path", "%d blocks live after evdns_base_free: CNAME record in a reply that ended in an error, DNS_CNAME_CALLBACK set" % case.leak)
        else:
            viol("C33:leak:other", "%d blocks live after evdns_base_free + event_base_free" % case.leak)
    elif case.leak == 0:
        st("cases_leak_free")
    return V, S, nontrivial


def _classify(r, cur_id, finished, st):
    """must-ignore classification (r.ignore = reason or None); r.stale: request already finished"""
    r.stale = finished
    r.ignore = None
    d = r.data
    if finished:
        r.ignore = "request-finished"
        return
    if r.alt:
        st("replies_from_other_source_address")    # the property does not speak about source addresses: judged like any reply
    if len(d) < 2 or struct.unpack(">H", d[:2])[0] != cur_id:
        r.ignore = "wrong-id"; st("ignored_wrong_id")
    elif len(d) >= 4 and not (d[2] & 0x80):
        r.ignore = "qr0"; st("ignored_qr0")
    else:
        st("matching_replies")


def _judge_result(src, sent_labels, want, meta, count, ttl, data, viol, st):
    qtype = meta["qtype"]
    d = src.data
    hx = d.hex()[:160]
    if len(d) < 12:
        viol("C33:result-from-short-message", "result from a %d-byte message %s" % (len(d), hx)); return
    m = W.decode_message(d, tolerant=True)
    if m.opcode != 0:
        viol("C33:reply-opcode-mismatch-used", "result taken from a reply with opcode %d (query opcode 0): %s" % (m.opcode, hx))
    if m.rcode != 0 or m.tc:
        viol("C33:result-despite-error-flags", "result from reply with rcode=%d tc=%d: %s" % (m.rcode, m.tc, hx)); return
    if m.error and m.error[1] == "question":
        viol("C33:result-with-unparsable-question", "%s %s" % (m.error, hx)); return
    qname = sent_labels if sent_labels is not None else want
    exact = [q for q in m.questions if q[0] == qname]
    folded = [q for q in m.questions if W.names_equal(q[0], qname, True)]
    if not folded:
        viol("C33:result-with-wrong-question", "no echoed question names %r: %r %s" % (W.labels_text(qname), [W.labels_text(q[0]) for q in m.questions], hx)); return
    if not exact:
        st("case_differing_echo_accepted")     # CALIBRATED: either outcome allowed (names are case-insensitive)
    if not any(q[1] == qtype and q[2] == 1 for q in folded):
        viol("C33:reply-question-type-mismatch-used", "result taken from a reply whose echoed question is %r (asked type %d class 1): %s" %
             ([(W.labels_text(q[0]), q[1], q[2]) for q in folded], qtype, hx))
    size = 4 if qtype == T_A else 16
    malformed = bool(m.error and m.error[1] == "answer")
    if qtype == T_PTR:
        ptrs = [rr for rr in m.answers if rr.type == T_PTR and rr.cls == 1]
        before = m.answers[:m.answers.index(ptrs[0])] if ptrs else m.answers
        if any(rr.flaw for rr in before if rr.type == T_CNAME) or (ptrs and ptrs[0].flaw):
            st("ambiguous_framing_skipped"); return     # CALIBRATED: RDLENGTH lies on name records make framing ambiguous
        if not ptrs:
            if malformed:
                # the strict decoder gave up before any PTR record; a more lenient parser may legitimately find one.
                # Only demand that the reported name is made of bytes of the message.
                if all(lab in d for lab in data.split(b".") if lab):
                    st("lenient_parse_accepted")
                else:
                    viol("C33:ptr-name-not-in-message", "reported %r: %s" % (data, hx))
            else:
                viol("C33:result-without-matching-record", "PTR result but no PTR/IN record in the answer section: %s" % hx)
            return
        exp = W.labels_text(ptrs[0].target).split(b"\0")[0]     # CALIBRATED: raw label bytes joined by '.', C string
        if count != 1 or data != exp:
            viol("C33:wrong-ptr-name", "reported %r (count %d), answer section says %r: %s" % (data, count, exp, hx))
        else:
            st("ptr_names_checked")
        if (ttl & 0xffffffff) > ptrs[0].ttl:
            viol("C33:ttl-exceeds-min", "ttl %d > PTR record ttl %d" % (ttl & 0xffffffff, ptrs[0].ttl))
        return
    if any(rr.flaw for rr in m.answers if rr.type == T_CNAME):
        st("ambiguous_framing_skipped"); return     # CALIBRATED: CNAME RDLENGTH lies make the record framing ambiguous
    used = [rr for rr in m.answers if rr.type == qtype and rr.cls == 1]
    if any(rr.rdlen % size for rr in used):
        viol("C33:result-with-bad-rdlength", hx); return
    exp = b"".join(rr.rdata for rr in used)
    if malformed:
        # The strict decoder stopped inside the answer section (m.error).  The property does not forbid a more lenient
        # parser (evdns e.g. follows label types 01/10 as pointers and allows 255-character names), so only demand:
        # the addresses of the strictly decodable prefix come first, in order, and every further address is a byte
        # string of the message (nothing invented, nothing from outside).
        extra = data[len(exp):]
        ok = data[:len(exp)] == exp and len(data) == count * size and all(extra[i:i + size] in d for i in range(0, len(extra), size))
        if not ok:
            viol("C33:wrong-addresses", "malformed answer section (%s): reported %s, decodable prefix holds %s: %s" % (m.error[0], data.hex()[:200], exp.hex()[:200], hx))
        else:
            st("lenient_parse_accepted")
            if used and not extra and (ttl & 0xffffffff) > min(rr.ttl for rr in used):
                viol("C33:ttl-exceeds-min", "ttl %d > min ttl %d of the records used" % (ttl & 0xffffffff, min(rr.ttl for rr in used)))
        return
    if not used:
        viol("C33:result-without-matching-record", "result but no type-%d/IN record among %d answers: %s" % (qtype, len(m.answers), hx)); return
    if any(rr.rdlen != size for rr in used):
        st("multi_address_rdata_accepted")     # CALIBRATED: RDATA of k*size bytes is taken as k addresses
    if data != exp or count != len(exp) // size:
        viol("C33:wrong-addresses", "reported count=%d %s, answer section holds %s: %s" % (count, data.hex()[:200], exp.hex()[:200], hx))
    else:
        st("address_lists_checked"); st("addresses_checked", count)
    mn = min(rr.ttl for rr in used)
    if (ttl & 0xffffffff) > mn:
        viol("C33:ttl-exceeds-min", "ttl %d > min ttl %d of the records used" % (ttl & 0xffffffff, mn))
    else:
        st("ttl_checked")
        if len(set(rr.ttl for rr in used)) > 1:
            st("ttl_checked_differing_ttls")


def judge_shard(a):
    script, traces = a
    metas = pickle.load(open(script + ".meta", "rb"))
    out = dict(viol=[], stats={}, hashes=[], samples=[], ncases=0)
    for tp in traces:
        cases, _ = G.parse_trace(tp)
        for idx, c in cases.items():
            if not c.ended:
                continue
            meta = metas[idx]
            V, S, nt = judge_case(c, meta)
            out["ncases"] += 1
            for k, v in S.items():
                out["stats"][k] = out["stats"].get(k, 0) + v
            for tg in meta["tags"]:
                for t in tg:
                    out["stats"]["gen_" + t] = out["stats"].get("gen_" + t, 0) + 1
            if nt:
                out["hashes"].append(meta["hash"])
                if len(out["samples"]) < 1:
                    out["samples"].append(dict(case=idx, query=meta["qkind"], name=meta["name"].decode("latin1")[:60], mode=meta["mode"],
                                               trace=[" ".join(e)[:200] for e in c.events if e[0] in ("Q", "SENT", "CB")][:6]))
            for key, text in V:
                out["viol"].append((key, text, script, idx))
    return out


def _run(tier, seed, total, nfiles=16):
    res = vlib.Result(PROP)
    vlib.build("asan", ["h_dns"])
    d = vlib.workdir(PROP)
    per = (total + nfiles - 1) // nfiles
    nproc = min(vlib.NCPU, nfiles)
    rounds = 1
    while per > 3000:
        rounds *= 2; per = (total + nfiles * rounds - 1) // (nfiles * rounds)
    with multiprocessing.Pool(nproc) as pool:
        for rd in range(rounds):
            scripts = [os.path.join(d, "s%d-%d.script" % (rd, i)) for i in range(nfiles)]
            pool.map(gen_shard, [(seed, rd * nfiles + i, per, (rd * nfiles + i) * per, scripts[i]) for i in range(nfiles)])
            traces = G.run_scripts(res, PROP, scripts, [(rd * nfiles + i + 1) * per for i in range(nfiles)])
            outs = pool.map(judge_shard, list(zip(scripts, traces)))
            texts = {}
            for o in outs:
                res.evaluations += o["ncases"]
                for k, v in o["stats"].items():
                    res.add_stat(k, v)
                res.hashes.update(o["hashes"])
                if len(res.samples) < 5:
                    res.samples += o["samples"][:1]
                for key, text, script, idx in o["viol"]:
                    if script not in texts:
                        texts[script] = G.case_texts(script)
                    res.add_viol(key, text, dict(lines=texts[script][idx], seed=seed))
            for sc in scripts:
                if any(((v.get("replay") or {}).get("payload") or {}).get("script") == sc and "lines" not in v["replay"]["payload"] for v in res.viol):
                    texts.setdefault(sc, G.case_texts(sc))
            G.attach_case_text(res, texts)
    return res


def run(tier, seed):
    res = _run(tier, seed, SIZES[tier])
    return vlib.finish(res, tier, seed, RULE,
                       required=["result_callbacks", "error_callbacks", "address_lists_checked", "ptr_names_checked", "cname_checked",
                                 "ttl_checked_differing_ttls", "ignored_wrong_id", "ignored_qr0", "replies_from_other_source_address",
                                 "tcp_frames_delivered", "datagrams_exact_size", "cases_leak_free"],
                       assumptions=["reply space is sampled from a grammar, not enumerated", "UDP over-reads are visible to ASan because the unused tail of "
                                    "the receive buffer is poisoned per datagram; TCP messages are exact-size heap blocks in the library itself",
                                    "CALIBRATED choices are marked in lib/checks/C33.py"])


def replay(info):
    r = info["replay"]
    lines = r.get("lines") or (r.get("payload") or {}).get("lines")
    if not lines:
        print("replay file carries no case text"); return 2
    case, err = G.replay_lines(PROP, lines)
    keys = vlib.sanitizer_keys(err)
    bad = bool(keys)
    # the oracle needs the generator's metadata: regenerate it from the R line
    meta = meta_from_lines(lines)
    if case is not None and case.ended and meta:
        V, S, _ = judge_case(case, meta)
        for k, t in V:
            print("VIOL", k, t); bad = True
    for k, t in keys:
        print("VIOL", k)
    if bad:
        print("VIOLATION property=%s replay=(replayed)" % PROP)
    return 1 if bad else 0


def meta_from_lines(lines):
    meta = dict(idx=int(lines[0].split()[1]), randcase=True, maxudp=512, tags=[], mode="?")
    for ln in lines:
        t = ln.split()
        if t[0] == "O" and t[1] == "randomize-case":
            meta["randcase"] = t[2] == "1"
        if t[0] == "O" and t[1] == "edns-udp-size":
            meta["maxudp"] = max(512, min(65535, int(t[2])))
        if t[0] == "R":
            meta["qkind"] = t[2]; meta["qtype"] = G.QT[t[2]]; meta["flags"] = int(t[3])
            arg = bytes.fromhex(t[4])
            meta["name"] = arg if t[2] in ("A", "AAAA") else G.reverse_name(t[2], arg)
    return meta if "qtype" in meta else None


REG = dict(category="exploration",
           text="Runtime monitor of the evdns reply path: ~4.8e3 (quick) / 2.5e5 (thorough) cases of 1-3 grammar-generated and mutated DNS replies "
                "(wrong ID/QR/opcode/rcode/TC, question echo variants, compression pointers forward/backward/looping/into the header, "
                "truncation, count and rdlength lies, 0-3 CNAMEs, other classes/types, SOA, arbitrary TCP segmentation, two frames per stream; 5% are small "
                "single-record replies whose PTR/CNAME target expands to 250..257 characters through a compression pointer, i.e. at the buffer limits) "
                "are delivered to a pending A/AAAA/PTR request; an independent RFC 1035 decoder decides from the bytes sent whether the "
                "callback may carry a result and exactly which addresses/PTR name/CNAME/TTL bound; ASan+UBSan with exact-size datagrams, "
                "allocation census after evdns_base_free, LSan. Held-on-observed, not a proof.",
           note="trusts lib/ref/dnswire.py; CALIBRATED: RDATA of k*4/k*16 bytes = k addresses, case-differing question echo either way, "
                "CNAME TTL not part of the bound, records with CNAME/PTR rdlength lies skipped (framing ambiguous)",
           technique="scripted fake nameserver + reference decoder differential oracle + sanitizers + allocation census")
