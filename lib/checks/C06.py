"""C06 epoll change table: exhaustive 512 entries x ET on/off against the kernel (DESIGN §3 C06)."""
from checks import generic

RULE = ("every index 0..511 of epoll_op_table, each without and with EV_CHANGE_ET (1024 cases); non-impossible entries: old "
        "conditions registered with raw epoll_ctl on a fresh epoll fd + socketpair end, the real epoll_apply_one_change applied, "
        "registration read back from /proc/self/fdinfo and compared with old U adds \\ dels, epoll_ctl calls counted; "
        "non-trivial = non-impossible entry with at least one pending change; distinct = (index, ET)")
STEPS = [
    dict(flavor="asan", harness="h_epolltab", args=[], cases=dict(quick=1248, thorough=1248)),
]

REG = dict(
    category="exploration",
    text="Exhaustive runtime enumeration of the compiled epoll change table: all 512 entries x ET off/on. For the 216x2 "
         "non-impossible entries the real epoll_apply_one_change runs against a live epoll fd whose registration holds exactly the "
         "old conditions; the kernel's resulting registration (fdinfo) must equal old U adds \\ dels (ET iff requested), with exactly "
         "one epoll_ctl that the kernel accepted (no reliance on the ENOENT/EEXIST fallbacks). The 296 add+del entries must have "
         "events==0 (no operation). EPOLL_OP_TABLE_INDEX is checked against the documented bit layout for every entry. "
         "Part 2 asks the same at the real entry points without changelist: epoll_nochangelist_add/_del(base, fd, old, events) for every old x non-empty events x add/del x ET that evmap can produce (224 combinations, 76 producible) must leave old U events resp. old \\ events through one accepted epoll_ctl. "
         "Identical in both tiers; complete over the table, for this kernel and an AF_UNIX stream socket.",
    note="trusts /proc/self/fdinfo as the kernel's view and the 3-line set reference in harness/h_epolltab.c; CALIBRATED: the 7x2 "
         "'delete from an fd with nothing registered' entries (never produced by evmap/changelist) may get ENOENT from their single "
         "DEL, the resulting empty registration is still required",
    technique="exhaustive differential execution against the live kernel (fdinfo read-back) + syscall counting via link-time wrap",
)


def run(tier, seed):
    return generic.run_spec("C06", tier, seed, STEPS, RULE, exhaustive=True,
                            required=["applied", "entry_point_add", "entry_point_del", "applied_et", "impossible_entries", "index_macro_checked", "accepted_first_try",
                                      "op_add", "op_mod", "op_del", "op_none"],
                            assumptions=["kernel behaviour observed on the running kernel only; target fd is an AF_UNIX stream socket",
                                         "asserts are on, so impossible entries are judged on the table (events==0 => the function issues no epoll_ctl) "
                                         "instead of calling the function, which aborts by design on them"])
