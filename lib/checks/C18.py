"""C18: read/write watermarks are honoured (DESIGN §3 C18).  Harness h_bev --mode watermark."""
from checks import generic

# vlib's sanitizer options plus a smaller quarantine: the sessions allocate and free megabytes of
# evbuffer chains and ASan spends most of the run mapping fresh memory for them otherwise
ASAN = ("abort_on_error=1:detect_leaks=1:allocator_may_return_null=1:handle_abort=0:detect_stack_use_after_return=0:"
        "malloc_context_size=12:quarantine_size_mb=24")

RULE = ("sessions as in C17 plus a watermark generator: read low/high on the reading top bufferevent from {0/0, 0/H, H/H equal, "
        "inverted L>H, L<H, low only, 1/1}, H from 1 byte to 256 KiB, changed at random instants (while suspended, raised above / "
        "lowered below the current length, cleared), low write watermark on the writing top, write low/high on the underlying "
        "bufferevents of filters and TLS layers, read high on underlying filters; monitored at every evbuffer change, every read/"
        "write callback entry and every quiescent point; non-trivial = bytes were delivered and a watermark gated something "
        "(input reached its high mark, a read callback ran under a non-zero low mark, or an underlying write mark was set); "
        "distinct = hash of the configuration")
STEPS = [
    dict(flavor="asan", harness="h_bev", args=["--mode", "watermark"], cases=dict(quick=560, thorough=6000), seed_off=7,
         timeout=dict(quick=600, thorough=7200), env=dict(ASAN_OPTIONS=ASAN)),
]
REQUIRED = ["cases", "sessions_with_delivery", "sessions_reached_high_watermark", "sessions_readcb_with_low_watermark",
            "in_growth_checked_vs_high", "read_cbs_low_set", "write_cbs_low_set", "underlying_out_checked",
            "setwatermark_while_suspended", "setwatermark_below_length", "drain_resets_watermarks",
            "tls_overrun", "liveness_checks", "idle_points_wm_readcb_loop", "base_tcp", "base_unix", "base_pair",
            "filters_1", "filters_2", "tls_openssl_socket", "tls_mbedtls_over_pair", "eof_after_all_data"]
REG = dict(category="exploration",
           text="Random sessions with random, changing watermarks on every bufferevent kind; an evbuffer callback on every input/"
                "output buffer checks each growth against the high read mark (TLS: calibrated to the documented overrun) and each "
                "filter/TLS write against the underlying's high write mark; read/write callbacks are checked against the low marks "
                "over the window since the previous callback; at quiescent points a reader below its high mark with data pending "
                "upstream, or a due callback that never ran, is a violation.",
           note="Sampled histories; the TLS overrun bound (one evbuffer extent + one record, reading only starts below the mark) "
                "is calibrated to the implementation because the header documents the overrun without a bound; overruns caused by "
                "BEV_FLUSH/BEV_FINISHED are exempt by design.",
           technique="runtime monitoring: evbuffer-callback monitors + callback-entry checks + quiescence liveness oracle, sanitizers on")


def run(tier, seed):
    return generic.run_spec("C18", tier, seed, STEPS, RULE, required=REQUIRED,
                            assumptions=["the library null filter is kept away from places where a watermark makes its moves partial "
                                         "(it crashes there: finding evbuffer-remove-buffer-reentrancy, witnessed through the harness's own pass-through filter)"])
