"""C45 prepare/check watchers (harness/h_core.c, mode watch)."""
from checks import generic

RULE = ("random histories creating/freeing up to 8 prepare/check watchers from top level, event callbacks and watcher callbacks (self, previous, next, arbitrary), "
        "with timers and I/O pending so the wait timeout varies; per iteration the sequence prepare* -> wait(T) -> check* -> callbacks is matched in lockstep, "
        "evwatch_prepare_get_timeout must equal the timeout the backend is then given; non-trivial = >=1 watcher callback ran; distinct = hash(seed, case, #callbacks, #queries)")
STEPS = [
    dict(flavor="asan", harness="h_core", args=["--mode", "watch"], cases=dict(quick=16000, thorough=600000)),
]
REG = dict(category="exploration",
           text="Online lockstep monitor: every watcher callback is matched against the model's list walk (registration order, once per iteration, prepare immediately "
                "before the wrapped backend wait with the same timeout, check right after it and before any event callback); frees of self/other watchers inside callbacks; "
                "ASan catches use of a freed watcher.",
           note="a watcher created during the walk of its own list may or may not be visited in that walk (either accepted)",
           technique="lockstep reference-model monitor + ASan")


def run(tier, seed):
    return generic.run_spec("C45", tier, seed, STEPS, RULE,
                            required=["watcher_callbacks", "watcher_free_in_callback", "watcher_self_free", "waits_checked"])
