"""C46 bounded random choices (DESIGN §3 C46): evutil_weakrand_range_ over generator states x bounds, end-to-end start
index of poll/select dispatch and first member of a rate-limit group, evutil_secure_rng_get_bytes fill."""
from checks import generic
import vlib

# The harness allocates and frees many small exact-size blocks per evaluation; ASan's default 256 MB quarantine makes
# every allocation touch fresh pages (7x slower).  16 MB still keeps a freed block poisoned for thousands of evaluations.
ASAN_ENV = dict(ASAN_OPTIONS=vlib.sanitizer_env("asan")["ASAN_OPTIONS"] + ":quarantine_size_mb=16")

RULE = ("inputs = (a) generator states in blocks of 65536 consecutive states x the 12 bounds {1,2,3,5,7,32,33,1000,1024,65535,2^30,2^31-1} "
        "(quick: every 32nd block, offset by the seed = 2^26 states; thorough: all 2^31 states), plus random (state, bound) pairs with bounds "
        "near powers of two, near 2^31-1 and near MAX/k; each evaluation checks 0 <= result < bound and counts the draws (steps of the "
        "library's own evutil_weakrand_) up to the end state, bounded by 1024; (b) poll and select event bases with 1..64 pipes, random ready "
        "subsets, the base's generator state steered to raw values 0, MAX, last-accepted, first-rejected: every ready fd must get exactly one "
        "callback per dispatch; rate-limit groups of 1..16 members exhausted and refilled with steered states: every member must be "
        "unsuspended; (c) evutil_secure_rng_get_bytes for every length 0..4096 into exact-size heap blocks, 16 calls each, every position must "
        "change at least once; non-trivial = a state block / pair / dispatch with >=1 ready fd / group round / non-zero length; distinct = hash of it")
REG = dict(category="exploration",
           text="Runtime monitor: evutil_weakrand_range_ called for 2^26 (quick) / all 2^31 (thorough) generator states x 12 bounds plus random "
                "(state, bound) pairs, each result range-checked and its draw count bounded; poll/select dispatch and rate-limit-group unsuspend run "
                "end-to-end under ASan with the generator steered to extreme raw values (every ready fd / member must be served exactly once); "
                "evutil_secure_rng_get_bytes checked for complete fill on every length 0..4096 in exact-size blocks.",
           note="bounds are sampled (12 fixed + random), states are enumerated only in the thorough tier; secure-RNG check is statistical "
                "(false-alarm probability 256^-16 per byte position); steering uses the documented LCG constants and is verified by measurement",
           technique="range/termination assertions over enumerated generator states + end-to-end functional oracle under ASan")


def steps(seed, tier):
    small = 6 if tier == "quick" else None   # few shards for small steps: process start-up dominates them
    return [
        dict(flavor="plain", harness="h_util", args=["--mode", "wr", "--n1", 32, "--n2", seed % 32], cases=dict(quick=1024), tiers=("quick",)),
        dict(flavor="plain", harness="h_util", args=["--mode", "wr"], cases=dict(thorough=32768), tiers=("thorough",), timeout=6000),
        dict(flavor="asan", env=ASAN_ENV, harness="h_util", args=["--mode", "wr", "--n1", 2048, "--n2", (seed * 131) % 2048], cases=dict(quick=16, thorough=16), shards=4),
        dict(flavor="plain", harness="h_util", args=["--mode", "wrr"], cases=dict(quick=400, thorough=40000), seed_off=1),
        dict(flavor="asan", env=ASAN_ENV, harness="h_util", args=["--mode", "wrr"], cases=dict(quick=40, thorough=2000), seed_off=2, shards=4),
        dict(flavor="asan", env=ASAN_ENV, harness="h_util", args=["--mode", "rng"], cases=dict(quick=4097, thorough=4097 * 4), shards=small),
        dict(flavor="asan", env=ASAN_ENV, harness="h_util", args=["--mode", "poll"], cases=dict(quick=200, thorough=15000), seed_off=3, shards=small),
        dict(flavor="asan", env=ASAN_ENV, harness="h_util", args=["--mode", "select"], cases=dict(quick=200, thorough=15000), seed_off=4, shards=small),
        # threaded poll backend: descriptors registered while the loop sits in poll() (seeded defect C46-2)
        dict(flavor="asan", env=ASAN_ENV, harness="h_util", args=["--mode", "pollmt"], cases=dict(quick=150, thorough=8000), seed_off=6, shards=small),
        dict(flavor="asan", env=ASAN_ENV, harness="h_util", args=["--mode", "group"], cases=dict(quick=200, thorough=8000), seed_off=5, shards=small),
    ]


def run(tier, seed):
    def post(res):
        n = res.stats.get("wr_states", 0)
        mx = max([int(k.rsplit("_", 1)[1]) for k in res.stats if k.startswith("wr_shards_whose_max_draws_was_")] or [0])
        res.extra["enumerated_subspace"] = "generator states enumerated (x12 bounds): %d (2^31 = 2147483648; asan+plain blocks may overlap)" % n
        res.extra["max_draws_observed"] = mx
    return generic.run_spec("C46", tier, seed, steps(seed, tier), RULE,
                            required=["select_add_failed_by_injected_oom", "group_members_moved_to_other_group", "wr_states", "wr_evaluations_with_redraw", "wr_result_lowest", "wr_result_highest", "wr_random_tops",
                                      "rng_calls", "rng_zero_length", "rng_positions_checked",
                                      "e2e_poll_dispatches", "e2e_select_dispatches", "e2e_mt_registrations_during_wait", "e2e_choices", "e2e_choices_with_redraw",
                                      "e2e_steered_to_raw_maximum", "e2e_range_model_matches", "e2e_started_mid_table",
                                      "group_choices", "group_choices_with_redraw"],
                            assumptions=["bounds are sampled, not enumerated", "a 'draw' is one call of the library's evutil_weakrand_()"],
                            post=post)
