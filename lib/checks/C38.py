"""C38 - evdns_getaddrinfo returns exactly the addresses the sources provide (DESIGN §3 C38).

Workload (lib/gen/gaigen.py gen_c38_case): per case a fresh evdns_base with 1-3 fake nameservers, optional hosts
file, search list, getaddrinfo-allow-skew / attempts / randomize-case options and cache on/off; 1-5 lookups
(node NULL / numeric v4 / numeric v6 / hosts name / DNS name, repeated names in other letter case; service NULL /
numeric / named / invalid; hints family x socktype x protocol x PASSIVE/CANONNAME/NUMERICHOST/NUMERICSERV/
ADDRCONFIG or NULL) separated by virtual-time gaps chosen around the TTLs.  The fake nameservers answer A/AAAA
from scripted records (1-4 addresses, equal or differing TTLs, CNAME and CNAME chains, NODATA, NXDOMAIN, drops,
delays around the A/AAAA skew window, data changing after the first use).

Oracle (independent model, below): numeric hosts / NULL node / hosts names => zero datagrams captured and exactly
the documented addresses; DNS names => the union of the A and AAAA answers that the scripted servers gave within
the skew window, each with the port of the service and the socktype/protocol implied by the hints, canonical name
when requested; a lookup answered with zero datagrams (cache hit) must equal the answer originally delivered
(filtered by family) and be within the TTL of every record it returns.  Sanitizers + allocation census per case.
"""
import os, sys, re, socket, hashlib, random, multiprocessing, json
import vlib
from ref import resolvconf as R
from gen import gaigen as G

PROP = "C38"
RULE = ("case = one evdns_base (hosts file, search list, options, cache flag) + scripted A/AAAA answers + 1-5 getaddrinfo lookups at "
        "chosen virtual-time gaps; non-trivial = at least one lookup delivered addresses that were compared with the model "
        "(numeric/NULL/hosts/DNS union/cache hit); distinct = md5 of the case script")
SIZES = dict(quick=1800, thorough=100000)
AF_INET, AF_INET6 = 2, 10
T_A, T_AAAA, T_CNAME = 1, 28, 5


def effective_hints(h, ifmask, numerichost_path=False):
    """-> (fam, [(socktype, proto)...], flags, protoname)"""
    if h is None:
        fam, st, pr, fl = 0, 0, 0, 0
    else:
        fam, st, pr, fl = h
    if fl & G.AI_ADDRCONFIG and fam == 0 and not numerichost_path:
        # POSIX AI_ADDRCONFIG: a family is returned only if an address of it is configured (loopback not counted)
        if ifmask == 1:
            fam = AF_INET
        elif ifmask == 2:
            fam = AF_INET6
    if pr == 0 and st:
        pr = {1: 6, 2: 17}.get(st, 0)
    if st == 0 and pr:
        st = {6: 1, 17: 2}.get(pr, 0)
    pairs = [(1, 6), (2, 17)] if (st == 0 and pr == 0) else [(st, pr)]     # CALIBRATED: nothing given = one TCP and one UDP entry per address
    return fam, pairs, fl, {6: "tcp", 17: "udp"}.get(pr)


def service_port(serv, flags, protoname):
    """-> port or None (no such service)"""
    if serv is None:
        return 0
    if re.match(rb"\d+\Z", serv) and len(serv) < 8:
        n = int(serv)
        return n if n <= 65535 else None
    if re.match(rb"[+-]?\d+\Z", serv) or serv == b"":
        return None if not re.match(rb"\+\d+\Z", serv) else "either"
    if flags & G.AI_NUMERICSERV:
        return None
    try:
        return socket.getservbyname(serv.decode("latin1"), protoname) if protoname else socket.getservbyname(serv.decode("latin1"))
    except (OSError, ValueError, UnicodeError):
        return None


def numeric_host(node):
    """-> (fam, addr) for a textual IP address, else None"""
    a = R._v6(node)
    if a:
        return (AF_INET6, a[1])
    a = R._v4(node)
    if a and a[0] == "valid":
        return (AF_INET, a[1])
    return None


class Rules:
    def __init__(self):
        self.rules = []

    def add(self, t):
        name = None if t[2] == "*" else G.unhx(t[2])
        qtype, delay, rcode, ancount, maxuses = int(t[3]), int(t[4]), int(t[5]), int(t[6]), int(t[8])
        ans = G.unhx(t[7]) or b""
        recs = G.dec_answer_section(ans, ancount, name or b"x") if ancount else []
        self.rules.append(dict(name=name, qtype=qtype, delay=delay, rcode=rcode, recs=recs, max=maxuses, used=0))

    def match(self, name, qtype, local):
        """the rule the fake server applies to the next query for (name, qtype); `local` = uses not yet committed"""
        for r in self.rules:
            if r["qtype"] != qtype and r["qtype"] != 255:
                continue
            if r["name"] is not None and r["name"] != name:
                continue
            if r["max"] > 0 and r["used"] + local.get(id(r), 0) >= r["max"]:
                continue
            local[id(r)] = local.get(id(r), 0) + 1
            return r
        return None


def simulate_type(rules, qtype, cands, t0, timeout, attempts):
    """what the scripted servers make of one A or AAAA request that walks `cands`.
    -> dict(kind='ok'|'err'|'timeout', t, addrs=[(fam, addr, ttl)], cnames=[(first, final)] of the answering reply,
            cand=index of the answering candidate, cons=[(rule, t_tx)] rule uses with their transmission time)"""
    fam = AF_INET if qtype == T_A else AF_INET6
    t = t0
    local = {}
    cons = []
    nodata_cn = []       # CNAMEs of replies that carried no address of the asked type
    first = None         # rule applied to the very first query
    for ci, c in enumerate(cands):
        name = c.lower().rstrip(b".")
        tx = 0
        while True:
            r = rules.match(name, qtype, local)
            tx += 1
            if ci == 0 and tx == 1:
                first = r
            if r is None:
                break
            cons.append((r, t))
            if r["rcode"] < 0:
                t += timeout
                if tx >= attempts:
                    return dict(kind="timeout", t=t, addrs=[], cnames=[], cand=ci, cons=cons, first=first)
                continue
            t += r["delay"]
            if r["rcode"] != 0:
                break
            addrs = [(fam, rec[3], rec[2]) for rec in r["recs"] if rec[1] == qtype]
            cn = [rec[3] for rec in r["recs"] if rec[1] == T_CNAME]
            if addrs:
                return dict(kind="ok", t=t, addrs=addrs, cnames=[(cn[0].lower(), cn[-1].lower())] if cn else [], cand=ci, cons=cons, first=first)
            if cn:
                nodata_cn.append((cn[0].lower(), cn[-1].lower()))
            break
    return dict(kind="err", t=t, addrs=[], cnames=[], nodata_cnames=nodata_cn, cand=len(cands) - 1, cons=cons, first=first)


def commit(outcomes, t_stop, first_only=False):
    """the lookup stopped transmitting at t_stop (skew timeout): only earlier queries reached the servers.
    first_only: cancelled right after the call - just the first query of each type was sent"""
    for o in outcomes:
        if o:
            if first_only:
                if o["first"] is not None:
                    o["first"]["used"] += 1
                continue
            for r, t_tx in o["cons"]:
                if t_stop is None or t_tx <= t_stop:
                    r["used"] += 1


def merge(oa, ob, skew):
    """A outcome, AAAA outcome (either may be None when the family hint excludes it)
    -> list of acceptable (addrs, complete) alternatives + expected callback time"""
    if oa is None or ob is None:
        o = oa or ob
        return [o["addrs"]], o["t"], True
    first, second = (oa, ob) if oa["t"] <= ob["t"] else (ob, oa)
    gap = second["t"] - first["t"]
    both = oa["addrs"] + ob["addrs"]          # CALIBRATED: A answers before AAAA answers
    if gap < skew:
        return [both], second["t"], True
    if gap == skew:
        return [both, first["addrs"]], second["t"], False
    return [first["addrs"]], first["t"] + skew, False


def judge_case(lines, case, ifmask):
    V = []
    S = {}
    nontrivial = False

    sink = [V, S]        # (redirected while a cache hit is tried against several earlier answers)
    def st(k, n=1): sink[1][k] = sink[1].get(k, 0) + n
    def viol(key, text): sink[0].append((key, "case %d: %s" % (case.idx, text[:900])))
    cfg = R.Config()
    rules = Rules()
    nocache = False
    history = {}
    ev = case.events
    pos = 0
    pend = []
    canceled = set()

    def fmt(l):
        return "[" + ", ".join(R.fmt_addr(f, a) for f, a in l) + "]"

    def judge_block(block):
        nonlocal pos, nontrivial
        # window: everything up to the next WAIT
        gcbs, qs, rets = {}, [], {}
        wait = None
        while pos < len(ev):
            e = ev[pos]; pos += 1
            if e[0] == "GCB":
                g = G.parse_gcb(e)
                if g["rid"] in gcbs:
                    viol("C38:callback-twice", "lookup %d reported twice" % g["rid"])
                gcbs[g["rid"]] = g
            elif e[0] == "RET":
                rets[int(e[1])] = (int(e[2]), int(e[3]))
            elif e[0] == "Q":
                q = G.dec_query(bytes.fromhex(e[3]))
                if q and q[1].lower() == b"google.com":
                    st("nameserver_probe_queries_ignored")
                elif q:
                    qs.append((q[1].lower(), q[2], int(e[2])))
                else:
                    qs.append((None, 0, int(e[2])))
            elif e[0] == "WAIT":
                wait = e; break
        if wait is None:
            viol("C38:trace", "no WAIT for lookups %r" % [b["rid"] for b in block]); return
        # attribute queries
        for b in block:
            b["cands"] = [c.lower().rstrip(b".") for c in R.search_candidates(b["node"], cfg.search or [], min(cfg.f["ndots"]))] if b["node"] is not None else []
        if len(block) == 2 and set(block[0]["cands"]) & set(block[1]["cands"]):
            st("concurrent_overlapping_skipped"); return
        for b in block:
            mine = [q for q in qs if q[0] in b["cands"]] if len(block) > 1 else list(qs)
            judge_lookup(b, gcbs.get(b["rid"]), rets.get(b["rid"]), mine)

    def judge_lookup(b, g, ret, qs):
        nonlocal nontrivial
        rid, node, serv, h = b["rid"], b["node"], b["serv"], b["hints"]
        st("lookups")
        if g is None or ret is None:
            viol("C38:never-reported", "lookup %d of %r never reported (WAIT gave up)" % (rid, node)); return
        t0 = ret[0]
        if g["err"] == 0 and not g["ents"]:
            viol("C38:success-without-addresses", "lookup of %r: err 0 and an empty list" % node)
        if g["err"] != 0 and g["ents"]:
            viol("C38:error-with-addresses", "lookup of %r: err %d with %d entries" % (node, g["err"], len(g["ents"])))
        flags = 0 if h is None else h[3]
        if rid in canceled and ret[1] == 1:
            st("lookups_cancelled")
            if g["err"] == 0:
                viol("C38:cancelled-but-succeeded", "lookup %d cancelled while pending reported success" % rid)
            if node is not None and not flags & G.AI_NUMERICHOST and numeric_host(node) is None and cfg.f["timeout"] and cfg.f["attempts"]:
                fam0 = effective_hints(h, ifmask)[0]
                commit([simulate_type(rules, T_A, b["cands"], t0, min(cfg.f["timeout"]), min(cfg.f["attempts"])) if fam0 != AF_INET6 else None,
                        simulate_type(rules, T_AAAA, b["cands"], t0, min(cfg.f["timeout"]), min(cfg.f["attempts"])) if fam0 != AF_INET else None], t0, True)
            return
        want_cname = bool(flags & G.AI_CANONNAME)
        npk = len(qs)
        # ---------------- AI_NUMERICHOST: the platform resolver answers at once, nothing may go on the wire
        if flags & G.AI_NUMERICHOST:
            st("lookups_numerichost_flag")
            if npk:
                viol("C38:numerichost-flag-sent-queries", "AI_NUMERICHOST lookup of %r sent %d queries" % (node, npk))
            nh = numeric_host(node) if node is not None else None
            if node is not None and nh is None and g["err"] == 0:
                viol("C38:numerichost-flag-resolved-a-name", "AI_NUMERICHOST lookup of %r succeeded: %s" % (node, fmt([(e["fam"], e["addr"]) for e in g["ents"]])))
            if nh is not None and g["err"] == 0 and nh[0] == AF_INET6 and nh[1][:12] == bytes(10) + b"\xff\xff":
                st("lookups_unjudged")        # the platform resolver may turn a v4-mapped literal into the IPv4 address
            elif nh is not None and g["err"] == 0:
                nontrivial = True
                if any((e["fam"], e["addr"]) != nh for e in g["ents"]):
                    viol("C38:numeric-host-wrong-address", "AI_NUMERICHOST %r gave %s" % (node, fmt([(e["fam"], e["addr"]) for e in g["ents"]])))
                fam, pairs, fl, pn = effective_hints(h, ifmask, True)
                port = service_port(serv, fl, pn)
                if isinstance(port, int) and any(e["port"] != port for e in g["ents"]):
                    viol("C38:port:numerichost-flag", "service %r: ports %s" % (serv, sorted({e["port"] for e in g["ents"]})))
                if h and h[1] and any(e["socktype"] != h[1] for e in g["ents"]):
                    viol("C38:socktype:numerichost-flag", "hint socktype %d: got %s" % (h[1], sorted({e["socktype"] for e in g["ents"]})))
                st("numeric_results_verified")
            return
        fam, pairs, fl, pn = effective_hints(h, ifmask)
        port = service_port(serv, fl, pn)

        def check_entries(cls, want_addrs, canon_ok=None, order_matters=True):
            """compare the delivered list with [(fam, addr)...] expanded by the socktype pairs"""
            nonlocal nontrivial
            got = [(e["fam"], e["addr"]) for e in g["ents"]]
            want = [a for a in want_addrs for _ in pairs]
            if g["err"] != 0:
                viol("C38:%s:error-instead-of-addresses" % cls, "lookup of %r (hints %r) err=%d, expected %s" % (node, h, g["err"], fmt(want_addrs))); return False
            if sorted(set(got)) != sorted(set(want)):
                miss = [a for a in want_addrs if a not in got]
                extra = [a for a in dict.fromkeys(got) if a not in want_addrs]
                viol("C38:%s:%s" % (cls, "missing-address" if miss else "extra-address"), "lookup of %r (hints %r): got %s, expected %s" % (node, h, fmt(list(dict.fromkeys(got))), fmt(want_addrs)))
                return False
            nontrivial = True
            ok = True
            # port / socktype / protocol / length of every entry
            for k, e in enumerate(g["ents"]):
                if e["port"] != port:
                    second = len(pairs) == 2 and k % 2 == 1 and g["ents"][k - 1]["addr"] == e["addr"] and g["ents"][k - 1]["port"] == port
                    viol("C38:%s:port%s" % (cls, "-second-socktype-entry" if second else ""), "lookup of %r service %r: entry %d (%s socktype %d) has port %d, expected %d" % (
                        node, serv, k, R.fmt_addr(e["fam"], e["addr"]), e["socktype"], e["port"], port))
                    ok = False
            if got != want or [(e["socktype"], e["proto"]) for e in g["ents"]] != [p for _ in want_addrs for p in pairs]:
                if sorted(got) != sorted(want) or sorted((e["addr"], e["socktype"], e["proto"]) for e in g["ents"]) != sorted((a[1], p[0], p[1]) for a in want_addrs for p in pairs):
                    dup = len(got) > len(want) and sorted(set((e["addr"], e["socktype"], e["proto"]) for e in g["ents"])) == sorted(set((a[1], p[0], p[1]) for a in want_addrs for p in pairs))
                    viol("C38:%s:%s" % (cls, "duplicated-entries" if dup else "socktype-protocol-entries"), "lookup of %r hints %r: entries %s, expected each of %s with %s" % (
                        node, h, [(R.fmt_addr(e["fam"], e["addr"]), e["socktype"], e["proto"]) for e in g["ents"]][:8], fmt(want_addrs), pairs))
                    ok = False
                elif order_matters:
                    viol("C38:%s:order" % cls, "lookup of %r: order %s, CALIBRATED order %s" % (node, fmt(got), fmt(want)))
                    ok = False
            for e in g["ents"]:
                if e["addrlen"] != (16 if e["fam"] == AF_INET else 28) or e["fam"] not in (AF_INET, AF_INET6):
                    viol("C38:%s:addrlen" % cls, "entry family %d addrlen %d" % (e["fam"], e["addrlen"])); ok = False
            if ok:
                st("results_verified_" + cls); st("addresses_verified", len(want_addrs)); st("entries_verified", len(g["ents"]))
                if port: st("ports_verified_nonzero")
                if len(pairs) == 2: st("results_with_tcp_and_udp_entries")
            return ok

        # ---------------- invalid service / nothing to look up
        if port is None or (node is None and serv is None):
            st("lookups_invalid_service")
            if npk:
                viol("C38:invalid-service-sent-queries", "service %r is not resolvable but %d queries were sent" % (serv, npk))
            if g["err"] == 0:
                viol("C38:invalid-service-accepted", "node %r service %r hints %r succeeded with ports %s" % (node, serv, h, sorted({e["port"] for e in g["ents"]})))
            return
        if port == "either" or fam not in (0, AF_INET, AF_INET6):
            st("lookups_unjudged"); return
        # ---------------- NULL node
        if node is None:
            st("lookups_null_node")
            if npk:
                viol("C38:null-node-sent-queries", "NULL node sent %d queries" % npk)
            passive = bool(fl & G.AI_PASSIVE)
            a4 = (AF_INET, bytes(4) if passive else bytes([127, 0, 0, 1]))
            a6 = (AF_INET6, bytes(16) if passive else bytes(15) + b"\x01")
            check_entries("null-node", [a for a in (a4, a6) if fam in (0, a[0])])
            return
        # ---------------- numeric host
        nh = numeric_host(node)
        if nh is not None:
            st("lookups_numeric_host")
            if npk:
                viol("C38:numeric-host-sent-queries:%s" % ("family-mismatch" if fam not in (0, nh[0]) else "same-family"),
                     "numeric host %r with family hint %d sent %d queries: %r" % (node, fam, npk, qs[:2]))
            if fam in (0, nh[0]):
                check_entries("numeric-host", [nh])
            elif g["err"] == 0:
                viol("C38:numeric-host-other-family-answered", "numeric %r, family %d: got %s" % (node, fam, fmt([(e["fam"], e["addr"]) for e in g["ents"]])))
            else:
                st("numeric_other_family_refused")
            return
        if re.match(rb"[0-9.]+\Z", node) or b":" in node:
            st("lookups_unjudged"); return
        # ---------------- hosts file
        hl = cfg.hosts_lookup(node)
        if hl:
            st("lookups_hosts_name")
            if npk:
                viol("C38:hosts-name-sent-queries", "%r is in the hosts file but %d queries were sent" % (node, npk))
            want = [a for a in hl if fam in (0, a[0])]
            if not want:
                st("hosts_other_family_only")
                if g["err"] == 0:
                    viol("C38:hosts:extra-address", "hosts entries of %r are all of the other family, got %s" % (node, fmt([(e["fam"], e["addr"]) for e in g["ents"]])))
                return
            if check_entries("hosts", want) and any(e["canon"] is not None for e in g["ents"]) and not want_cname:
                viol("C38:hosts:canonname-unrequested", "canonname set without AI_CANONNAME")
            return
        # ---------------- DNS name
        key = node.lower()
        cands = b["cands"]
        def judge_hit(orig):
            age = t0 - orig["t_cb"]
            want = [(f, a) for (f, a, ttl) in orig["addrs"] if fam in (0, f)]
            ttl_of = {(f, a): ttl for (f, a, ttl) in orig["addrs"]}
            if not want:
                st("cache_hits_other_family_only")
                # dns.h: "If we cached a response exclusively for a different address type ... return EVUTIL_EAI_ADDRFAMILY"
                if g["err"] == 0:
                    viol("C38:cache:extra-address", "cached answer of %r has no family-%d address, got %s" % (node, fam, fmt([(e["fam"], e["addr"]) for e in g["ents"]])))
                if age > min(ttl_of.values()) * 1000000:
                    viol("C38:cache-stale:other-family", "answer for %r from the cache at age %.1fs, TTLs %s" % (node, age / 1e6, sorted(set(ttl_of.values()))))
                return
            got = list(dict.fromkeys((e["fam"], e["addr"]) for e in g["ents"]))
            stale = [(a, ttl_of[a]) for a in got if a in ttl_of and age > ttl_of[a] * 1000000]
            if stale:
                ttls = sorted(set(ttl_of.values()))
                if orig["merged"] and age <= max(ttls) * 1000000:
                    cls = "merged-A-and-AAAA-with-different-ttls"
                elif age <= max(ttls) * 1000000:
                    cls = "records-with-different-ttls"
                else:
                    cls = "beyond-every-ttl"
                viol("C38:cache-stale:" + cls, "lookup of %r answered from the cache at age %.3fs with %s whose TTL is %ds (original answer: %s)" % (
                    node, age / 1e6, R.fmt_addr(*stale[0][0]), stale[0][1], [(R.fmt_addr(f, a), ttl) for f, a, ttl in orig["addrs"]]))
            else:
                st("cache_hits_within_ttl")
            if g["err"] == 0 and sorted(got) != sorted(want):
                miss = [a for a in want if a not in got]
                if miss and not [a for a in got if a not in want] and want_cname:
                    viol("C38:cache:missing-address:with-AI_CANONNAME", "cached answer of %r was %s, the cache hit with AI_CANONNAME returned only %s" % (node, fmt(want), fmt(got)))
                else:
                    viol("C38:cache:%s" % ("missing-address" if miss else "extra-address"), "cached answer of %r was %s (family %d), hit returned %s" % (node, fmt(want), fam, fmt(got)))
            elif g["err"] != 0:
                viol("C38:cache:%s" % ("missing-address:with-AI_CANONNAME" if want_cname else "error-instead-of-addresses"), "cached answer of %r was %s, hit returned err %d" % (node, fmt(want), g["err"]))
            else:
                check_entries("cache", want)
                st("cache_hits_equal_original")
                if want_cname:
                    c0 = g["ents"][0]["canon"]
                    if c0 is None or c0.lower().rstrip(b".") not in orig["canon_ok"]:
                        viol("C38:cache:canonname", "cache hit canonname %r, original answer's %r" % (c0, sorted(x for x in orig["canon_ok"] if x)))
                    else:
                        st("canonnames_verified")
            return
        if npk == 0:
            # answered without asking anybody: must be a cache hit of an answer delivered earlier
            st("lookups_answered_from_cache")
            origs = history.get(key) or []
            if nocache:
                viol("C38:cache-used-with-NO_CACHE", "EVDNS_BASE_NO_CACHE base answered %r with no query" % node); return
            if not origs:
                viol("C38:answer-without-query-or-cache", "lookup of %r (err %d, %d entries) sent no query and nothing was cached" % (node, g["err"], len(g["ents"]))); return
            # the source of the hit: the cache holds the last answer that was delivered with both halves in (an answer reported
            # through the skew timeout is not written); answers at the exact skew boundary may or may not have been written
            cands_o = []
            for orig in reversed(origs):
                if orig["complete"] is not False:
                    cands_o.append(orig)
                if orig["complete"] is True:
                    break
            if not cands_o:
                viol("C38:answer-without-query-or-cache", "lookup of %r (err %d, %d entries) sent no query; no earlier answer can be in the cache" % (node, g["err"], len(g["ents"]))); return
            trials = []
            for k, orig in enumerate(cands_o):
                tv, ts = [], {}
                sink[0], sink[1] = tv, ts
                try:
                    judge_hit(orig)
                finally:
                    sink[0], sink[1] = V, S
                gotset = set((e["fam"], e["addr"]) for e in g["ents"])
                wantset = set((f, a) for (f, a, ttl) in orig["addrs"] if fam in (0, f))
                # prefer the candidate with the same address set, then a superset of what was returned, then fewer complaints, then newer
                trials.append(((0 if gotset == wantset else (1 if gotset <= wantset else 2), 1 if tv else 0, k), tv, ts))
                if not tv:
                    break
            best = min(trials, key=lambda x: x[0])
            V.extend(best[1])
            for kk, vv in best[2].items():
                st(kk, vv)
            return

        # ---------------- really asked the servers
        st("lookups_resolved_by_dns")
        bad = [q for q in qs if q[0] not in cands or (q[1] == T_A and fam == AF_INET6) or (q[1] == T_AAAA and fam == AF_INET) or q[1] not in (T_A, T_AAAA)]
        if bad:
            viol("C38:unexpected-query", "lookup of %r family %d sent %r (candidates %r)" % (node, fam, bad[:3], cands))
        prev = (history.get(key) or [None])[-1]
        if prev and prev["complete"] is not True:
            prev = None
        if prev and not nocache and prev["complete"] and (not want_cname or prev["canon_real"]) and \
                0 <= t0 - prev["t_cb"] < (min(t for f, a, t in prev["addrs"]) - 0.5) * 1000000:
            # CALIBRATED: a complete answer still within every TTL is served from the cache (dns.h: "if the requested address is ... cached")
            viol("C38:cache-miss-within-ttl", "lookup of %r at age %.1fs (min TTL %ds) went to the servers again" % (node, (t0 - prev["t_cb"]) / 1e6, min(t for f, a, t in prev["addrs"])))
        to, at, skew = cfg.f["timeout"], cfg.f["attempts"], cfg.f["skew"]
        if to is None or at is None or skew is None or len(at) != 1:
            st("lookups_unjudged"); return
        to, at, skew = min(to), min(at), min(skew)
        oa = simulate_type(rules, T_A, cands, t0, to, at) if fam != AF_INET6 else None
        ob = simulate_type(rules, T_AAAA, cands, t0, to, at) if fam != AF_INET else None
        alts, t_cb, complete = merge(oa, ob, skew)
        commit([oa, ob], None if complete else t_cb)
        if any(o and o["kind"] == "timeout" for o in (oa, ob)):
            st("lookups_with_silent_server")
        got = list(dict.fromkeys((e["fam"], e["addr"]) for e in g["ents"]))
        alts2 = [[(f, a) for (f, a, ttl) in alt] for alt in alts]
        if len(alts2) > 1: st("lookups_at_skew_boundary")
        match = [alt for alt in alts2 if sorted(alt) == sorted(got)]
        desc = "(A %s@%s AAAA %s@%s, skew %d)" % (oa and oa["kind"], oa and oa["t"] - t0, ob and ob["kind"], ob and ob["t"] - t0, skew)
        if not match:
            alt = alts2[0]
            if not alt:
                viol("C38:dns:extra-address", "servers gave no usable address for %r %s but got %s" % (node, desc, fmt(got)))
            elif g["err"] != 0:
                viol("C38:dns:error-instead-of-addresses", "lookup of %r family %d err=%d, the servers answered %s %s" % (node, fam, g["err"], fmt(alt), desc))
            else:
                miss = [a for a in alt if a not in got]
                viol("C38:dns:%s" % ("missing-address" if miss else "extra-address"), "lookup of %r family %d: got %s, the servers answered %s %s" % (
                    node, fam, fmt(got), fmt(alt), desc))
            return
        alt = match[0]
        if not alt:
            st("dns_failures_verified")
            return
        contrib = [o for o in (oa, ob) if o and o["addrs"] and all((f, a) in alt for f, a, _ in o["addrs"])]
        if len(contrib) == 2:
            st("results_union_of_A_and_AAAA")
        if any(o["cand"] > 0 for o in contrib):
            st("results_from_later_search_candidate")
        finals = {c[1].rstrip(b".") for o in contrib for c in o["cnames"]}
        firsts = {c[0].rstrip(b".") for o in contrib for c in o["cnames"]}
        c0 = g["ents"][0]["canon"]
        # what a later cache hit is compared with: the answer as it was delivered now
        history.setdefault(key, []).append(dict(t_cb=g["t"], addrs=[(f, a, ttl) for o in contrib for (f, a, ttl) in o["addrs"]], merged=len(contrib) == 2,
                            complete=(None if len(alts2) > 1 else complete), canon_ok={None if c0 is None else c0.lower().rstrip(b".")} | finals | firsts,
                            canon_real=want_cname and c0 is not None))
        if not check_entries("dns", alt):
            return
        if g["t"] != t_cb and len(alts2) == 1:
            viol("C38:dns:callback-time", "lookup of %r reported at +%dus, CALIBRATED expectation +%dus %s" % (node, g["t"] - t0, t_cb - t0, desc))
        # a reply without addresses (NODATA) that arrived before the callback may also have named the alias target
        others = {x.rstrip(b".") for o in (oa, ob) if o and o["t"] <= g["t"] for c in o.get("nodata_cnames", []) for x in c}
        canon_ok = (set(finals) | others) if finals else ({None, key.rstrip(b".")} | others)      # no CNAME: NULL or the name itself
        if want_cname:
            cn = None if c0 is None else c0.lower().rstrip(b".")
            if cn not in canon_ok:
                if cn in firsts:
                    viol("C38:canonname-not-end-of-cname-chain", "lookup of %r: canonname %r, the CNAME chain ends at %r" % (node, c0, sorted(finals)))
                elif cn is None and all(o["cand"] > 0 for o in contrib if o["cnames"]):
                    viol("C38:canonname-lost:answer-from-later-search-candidate", "lookup of %r: the answering reply (search candidate %r) carries CNAME %r but canonname is NULL" % (
                        node, [cands[o["cand"]] for o in contrib if o["cnames"]], sorted(finals)))
                else:
                    viol("C38:dns:canonname", "lookup of %r: canonname %r, acceptable %r %s" % (node, c0, sorted(x for x in canon_ok if x), desc))
            else:
                st("canonnames_verified")
                if finals: st("canonnames_from_cname_verified")
        elif any(e["canon"] is not None for e in g["ents"]):
            viol("C38:dns:canonname-unrequested", "canonname %r without AI_CANONNAME" % c0)

    # ------------------------------------------------ walk the script
    block = []
    for ln in lines[1:]:
        t = ln.split()
        c = t[0]
        if c == "B":
            nocache = bool(int(t[1]) & 0x10)
        elif c == "NS":
            pass
        elif c == "O":
            cfg.set_option(G.unhx(t[1]), G.unhx(t[2]))
        elif c == "SA":
            cfg.search_add_front(G.unhx(t[1]))
        elif c == "SN":
            cfg.search_ndots_set(int(t[1]))
        elif c == "LH":
            cfg.load_hosts(None if t[1] == "NULL" else G.unhx(t[1]))
        elif c == "AR":
            rules.add(t)
        elif c == "G":
            h = None if t[4] == "N" else (int(t[5]), int(t[6]), int(t[7]), int(t[8]))
            block.append(dict(rid=int(t[1]), node=G.unhx(t[2]), serv=G.unhx(t[3]), hints=h))
        elif c == "X":
            canceled.add(int(t[1]))
        elif c == "W":
            judge_block(block)
            block = []
        elif c == "E":
            break
    if case.leak != 0:
        viol("C38:leak", "allocation census: %s blocks still live after the base was freed" % case.leak)
    else:
        st("cases_leak_free")
    return V, S, nontrivial


# ------------------------------------------------------------------ driver
def case_hash(lines):
    return int.from_bytes(hashlib.md5("\n".join(lines[1:]).encode()).digest()[:8], "little")


def gen_shard(a):
    seed, shard, n, first, path, thorough = a
    rng = random.Random((seed * 1000003 + shard) ^ 0xC38)
    allc = {}
    with open(path, "w") as f:
        for i in range(n):
            L = G.gen_c38_case(rng, first + i, thorough)
            allc[first + i] = L
            f.write("\n".join(L) + "\n")
    with open(path + ".meta", "w") as f:
        json.dump({str(k): v for k, v in allc.items()}, f)
    return path


def judge_shard(a):
    script, trace, ifmask = a
    metas = json.load(open(script + ".meta"))
    cases = G.parse_trace(trace)
    out = dict(viol=[], stats={}, hashes=[], samples=[], ncases=0)
    for k, lines in metas.items():
        idx = int(k)
        c = cases.get(idx)
        if c is None or not c.ended:
            continue
        try:
            V, S, nt = judge_case(lines, c, ifmask)
        except Exception:
            import traceback
            V, S, nt = [("C38:oracle-error", "case %d: %s" % (idx, traceback.format_exc()[-700:]))], {}, False
        out["ncases"] += 1
        for kk, v in S.items():
            out["stats"][kk] = out["stats"].get(kk, 0) + v
        if nt:
            out["hashes"].append(case_hash(lines))
            if len(out["samples"]) < 1 and len("\n".join(lines)) < 1800:
                out["samples"].append(dict(case=idx, ifmask=ifmask, script=[l[:170] for l in lines[:16]]))
        seen = set()
        for key, text in V:
            if key in seen:
                continue
            seen.add(key)
            out["viol"].append((key, text, idx, lines, ifmask))
    return out


def _run(tier, seed, total, nfiles=16):
    res = vlib.Result(PROP)
    vlib.build("asan", [G.HARNESS])
    d = vlib.workdir(PROP)
    rounds = 1
    per = (total + nfiles - 1) // nfiles
    while per > 2500:
        rounds *= 2; per = (total + nfiles * rounds - 1) // (nfiles * rounds)
    nproc = min(vlib.NCPU, nfiles)
    with multiprocessing.Pool(nproc) as pool:
        for rd in range(rounds):
            scripts = [os.path.join(d, "c38-%d-%d.script" % (rd, i)) for i in range(nfiles)]
            pool.map(gen_shard, [(seed, rd * nfiles + i, per, (rd * nfiles + i) * per, scripts[i], tier == "thorough") for i in range(nfiles)])
            masks = [[3, 0, 1, 2][(rd * nfiles + i) % 4] for i in range(nfiles)]
            traces, outs = G.run_scripts(res, PROP, scripts, masks, "c38")
            for o in pool.map(judge_shard, list(zip(scripts, traces, masks))):
                res.evaluations += o["ncases"]
                for k, v in o["stats"].items():
                    res.add_stat(k, v)
                res.hashes.update(o["hashes"])
                if len(res.samples) < 5:
                    res.samples += o["samples"][:1]
                for key, text, idx, lines, m in o["viol"]:
                    res.add_viol(key, text, dict(lines=lines, ifmask=m, seed=seed))
            for v in res.viol:
                rp = v["replay"]
                if "lines" not in rp and "payload" in rp and rp.get("only", -1) >= 0:
                    try:
                        metas = json.load(open(rp["payload"]["script"] + ".meta"))
                        rp["lines"] = metas.get(str(rp["only"])); rp["ifmask"] = rp["payload"]["ifmask"]
                    except Exception:
                        pass
    return res


def run(tier, seed):
    res = _run(tier, seed, SIZES[tier])
    return vlib.finish(res, tier, seed, RULE,
                       required=["lookups", "lookups_null_node", "lookups_numeric_host", "lookups_hosts_name", "lookups_resolved_by_dns",
                                 "lookups_answered_from_cache", "cache_hits_within_ttl", "cache_hits_equal_original", "results_verified_null-node",
                                 "results_verified_numeric-host", "results_verified_hosts", "results_verified_dns", "results_verified_cache",
                                 "results_union_of_A_and_AAAA", "ports_verified_nonzero", "results_with_tcp_and_udp_entries", "canonnames_from_cname_verified",
                                 "dns_failures_verified", "lookups_with_silent_server", "lookups_invalid_service", "queries_captured", "replies_delayed",
                                 "cases_leak_free"],
                       assumptions=["answer sets, timings and hints are sampled, not enumerated",
                                    "getifaddrs() is replaced by the harness so that AI_ADDRCONFIG is deterministic (one interface set per process)",
                                    "named services are looked up with the platform's getservbyname() on both sides",
                                    "CALIBRATED choices (A before AAAA, TCP+UDP entries for unspecified socktype, skew-window semantics, callback time, "
                                    "cache expected to hit within every TTL) are marked in lib/checks/C38.py"])


def replay(info):
    r = info["replay"]
    lines = r.get("lines")
    if not lines:
        print("replay file carries no case text"); return 2
    ifmask = r.get("ifmask", 0)
    case, err = G.replay_lines(PROP, lines, ifmask)
    keys = vlib.sanitizer_keys(err)
    bad = bool(keys)
    for k, t in keys:
        print("VIOL", k)
    if case is not None and case.ended:
        V, S, _ = judge_case(lines, case, ifmask)
        for k, t in V:
            print("VIOL", k, t); bad = True
    elif not keys:
        print("case did not finish"); return 2
    if bad:
        print("VIOLATION property=%s replay=(replayed)" % PROP)
    return 1 if bad else 0


REG = dict(category="exploration",
           text="Runtime monitor of evdns_getaddrinfo: thousands (quick) / 1.3e5 (thorough) cases of 1-5 lookups (NULL / numeric / hosts-file / DNS "
                "names x service x hints incl. PASSIVE, CANONNAME, NUMERICHOST, NUMERICSERV, ADDRCONFIG) against in-process fake nameservers with "
                "scripted A/AAAA records, TTLs, CNAME chains, NODATA/NXDOMAIN, drops and delays around the A/AAAA skew window, repeated at cache "
                "ages around the TTLs under a virtual clock.  Every captured datagram and every callback list is compared with an independent "
                "model: no query for numeric/NULL/hosts names, hosts before DNS, exact union allowed by the family, port/socktype/protocol/"
                "canonname per entry, cache hits equal to the delivered answer and within the TTL of every returned record; ASan+UBSan, "
                "allocation census per case, LSan.  Held-on-observed, not a proof.",
           note="trusts the model in lib/checks/C38.py and the platform getservbyname(); age of a cached answer is counted from its delivery "
                "(callback) time; canonname without any CNAME in the replies may be NULL or the queried name; error codes are only zero/non-zero",
           technique="scripted fake nameservers + virtual clock + independent result/cache model (differential oracle) + sanitizers + census")
