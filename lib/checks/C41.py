"""C41 ASCII and sockaddr helpers (DESIGN §3 C41): evutil_ascii_strcasecmp/strncasecmp, EVUTIL_IS*_/TOLOWER_/TOUPPER_,
evutil_ascii_strcasestr, evutil_rtrim_lws_, evutil_snprintf, evutil_sockaddr_cmp against table-free reference definitions
written in harness/h_util.c."""
from checks import generic
import vlib

# The harness allocates and frees many small exact-size blocks per evaluation; ASan's default 256 MB quarantine makes
# every allocation touch fresh pages (7x slower).  16 MB still keeps a freed block poisoned for thousands of evaluations.
ASAN_ENV = dict(ASAN_OPTIONS=vlib.sanitizer_env("asan")["ASAN_OPTIONS"] + ":quarantine_size_mb=16")

RULE = ("inputs = (a) every byte 0..255 through the 8 class predicates and both case maps, and all 256x256 byte pairs through strcasecmp/"
        "strncasecmp as one-byte strings and embedded behind a case-differing common prefix (exhaustive, both tiers); (b) random and related "
        "string pairs (case flips, one-byte changes, truncations; alphabets incl. bytes >= 0x80 and the neighbours of the letter ranges) for "
        "strcasecmp/strncasecmp/strcasestr/rtrim_lws_, and 8 format templates x every buffer size 0..len+2 for evutil_snprintf; (c) sockaddr "
        "triples (random and derived by one-bit/port/padding changes) checked for reflexivity, equality iff same address(+port), antisymmetry "
        "and transitivity; non-trivial = every generated pair/string/triple (empty strings included at 10%); distinct = hash of the inputs")
REG = dict(category="exploration",
           text="Runtime differential monitor: all 256 bytes x 10 ctype/case functions and all 65536 byte pairs through strcasecmp/strncasecmp "
                "(exhaustive sub-space), plus ~1.2e5 (quick) / 1.8e7 (thorough) generated strings and sockaddr triples, compared with "
                "locale-independent reference definitions (range tests, naive search) and order axioms; inputs live in exact-size heap blocks under ASan.",
           note="string and sockaddr spaces are sampled; evutil_snprintf is compared with libc snprintf output (return value, prefix, termination)",
           technique="differential runtime oracle (reference definitions, order axioms) + ASan exact-size buffers")
STEPS = [
    dict(flavor="asan", env=ASAN_ENV, harness="h_util", args=["--mode", "ctype"], cases=dict(quick=256, thorough=256)),
    dict(flavor="asan", env=ASAN_ENV, harness="h_util", args=["--mode", "str"], cases=dict(quick=200, thorough=30000), seed_off=1),
    dict(flavor="asan", env=ASAN_ENV, harness="h_util", args=["--mode", "sacmp"], cases=dict(quick=150, thorough=20000), seed_off=2),
]


def run(tier, seed):
    def post(res):
        res.extra["enumerated_subspace"] = "byte pairs enumerated: %d of 65536; bytes through ctype/case functions: %d of 2560 calls" % (
            res.stats.get("byte_pairs", 0), res.stats.get("ctype_calls", 0) + res.stats.get("casemap_calls", 0))
    return generic.run_spec("C41", tier, seed, STEPS, RULE,
                            required=["byte_pairs", "ctype_members", "strcasecmp_calls", "strncasecmp_calls", "casecmp_equal", "casecmp_ordered",
                                      "strcasestr_found", "strcasestr_absent", "rtrim_trimmed", "rtrim_unchanged", "rtrim_all_whitespace",
                                      "snprintf_truncated", "snprintf_fits", "snprintf_zero_size", "cmp_equal_pairs", "cmp_unequal_pairs",
                                      "cmp_pairs_differing_only_in_port", "cmp_transitivity_checks", "cmp_mixed_family_triples"],
                            assumptions=["reference definitions are the C-locale ASCII ones (letters A-Z/a-z only; bytes compared as unsigned char)",
                                         "strings and sockaddrs are sampled; only the byte-pair sub-space is enumerated"],
                            post=post)
