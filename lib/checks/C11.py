"""C11 fork + event_reinit: child and parent both behave like a never-forked run (DESIGN §3 C11)."""
from checks import generic

RULE = ("random scenarios: 2-4 pipes/socketpairs, 4-14 events (read/write/timer/signal, persist and one-shot, EV_ET reads, "
        "I/O timeouts, 1-3 priorities, write events waiting on a full pipe, epoll changelist on/off), prefix bringing them into added/active/ready/deleted states, fork either at top "
        "level (ready data, event_active'd events, expired timers in flight), inside the callback of an I/O, timer or "
        "signal event (optionally deleting another event / itself around the fork), or (epoll, threads) inside the callback "
        "of an event a second thread just activated, i.e. with a wake-up notification in flight; then a stimulus of writes, virtual-"
        "time advances, self-kills, event_active, add/del; all backends x {self-pipe, signalfd} x {plain, pthreads-notifiable}; "
        "each scenario is run never-forked (control) and forked; non-trivial = the control ran at least one callback after "
        "the fork point and both comparisons were made; distinct = hash of the scenario")
STEPS = [
    dict(flavor="asan", harness="h_fork", args=[], cases=dict(quick=360, thorough=3000),
         timeout=dict(quick=900, thorough=3000)),
]
REG = dict(category="exploration",
           text="After fork()+event_reinit() the child's per-step callback multiset, drained bytes, signals reaching the prior "
                "handler, return codes and final event_pending() state equal those of a never-forked control run of the same "
                "scenario, and so do the parent's; the parent's epoll registration (/proc fdinfo) is unchanged by the child's "
                "reinit/add/del/base free; the child's signal socketpair and notify eventfd are new kernel objects; a signal "
                "sent by the child to the parent reaches the parent only and the child's self-signals never reach the parent; "
                "a cross-thread event_active() made while the loop thread sits in the backend wait writes a wake-up notification "
                "to the process's own notify fd in control, parent and child (eventfd counter, no wall clock).",
           note="Metamorphic oracle (control run of the same script), no model of libevent. Child and parent run one after the "
                "other on the virtual clock, so truly concurrent use of shared descriptors by both processes is not explored. "
                "Signals pending at the fork are avoided (they are not inherited, the property is undefined for them); EV_ET "
                "only on draining reads. Notification-in-flight forks only with epoll: on this tree the notify eventfd is never read (EV_ET only), so on "
                "poll/select the loop spins after the first cross-thread wake-up (reported to the lead, outside C11). "
                "ASan+UBSan live in all processes; case processes _exit().",
           technique="differential execution (forked vs never-forked) under sanitizers plus /proc fdinfo identity probes")


def run(tier, seed):
    return generic.run_spec("C11", tier, seed, STEPS, RULE,
                            required=["forks", "child_reinits", "dual_interest_fd_at_fork", "fork_in_callback", "fork_in_oneshot_callback", "fork_at_top_level",
                                      "forks_with_active_events", "child_cb_read", "child_cb_write", "child_cb_timer", "child_cb_signal",
                                      "parent_cb_read", "parent_cb_write", "parent_cb_timer", "parent_cb_signal",
                                      "child_vs_control_comparisons", "parent_vs_control_comparisons", "epoll_fdinfo_checks",
                                      "sigpipe_identity_checks", "notify_identity_checks", "cross_kills_sent_by_child",
                                      "child_wakeups", "parent_wakeups", "fork_with_notification_in_flight", "child_base_frees", "cfg_epoll_changelist", "cfg_full_pipe_with_waiting_writers",
                                      "cfg_epoll_selfpipe", "cfg_epoll_signalfd", "cfg_poll_selfpipe", "cfg_poll_signalfd",
                                      "cfg_select_selfpipe", "cfg_select_signalfd"],
                            assumptions=["kill() to a process blocked in a syscall is delivered before that process next returns to user code",
                                         "/proc/<pid>/fdinfo of an epoll fd lists exactly its registrations (tfd lines); eventfd-id identifies the eventfd object"])
