"""C36 - queries on the wire are well-formed and ask for the requested name (DESIGN §3 C36).

Workload: one evdns_base_resolve_{ipv4,ipv6,reverse,reverse_ipv6} request per case with a name from
the grammar below, a search list of 0-4 domains (configured through evdns_base_search_add or a
resolv.conf `search` line), ndots 0-3, DNS_QUERY_NO_SEARCH, edns-udp-size, randomize-case, UDP or
DNS_QUERY_USEVC.  The fake nameserver answers NXDOMAIN/NODATA (so the whole search list is walked) or
succeeds at the k-th query.  Oracle: every datagram/TCP frame captured is decoded by the strict
reference decoder and compared with the documented search order; see judge_case().
"""
import os, struct, pickle, multiprocessing
import vlib
from ref import dnswire as W
from gen import dnsgen as G

PROP = "C36"
RULE = ("case = one resolve call (name grammar x search list x ndots x NO_SEARCH x EDNS x 0x20 x UDP/TCP); non-trivial = at least "
        "one query reached the fake nameserver or the request was refused for an un-encodable name; distinct = hash of the case script")
SIZES = dict(quick=6400, thorough=320000)
T_A, T_AAAA, T_PTR = 1, 28, 12


# ------------------------------------------------------------------ name grammar
def gen_name(rng):
    """-> (bytes, tag)"""
    r = rng.random()
    L = G.rand_label
    if r < 0.30:
        return G.plain_name(rng), "plain"
    if r < 0.36:
        return G.plain_name(rng) + b".", "trailing-dot"
    if r < 0.40:
        return L(rng, 63) + b"." + G.plain_name(rng, 2), "label63"
    if r < 0.44:
        return L(rng, rng.choice([64, 65, 100])) + b"." + G.plain_name(rng, 1), "label64+"
    if r < 0.62:
        # total length around the limits: 253 (max valid), 254/255 (too long for the wire), 256+ (too long for the API)
        total = rng.choice([250, 252, 253, 253, 254, 254, 255, 255, 256, 257, 300, 400])
        labs, left = [], total
        while left > 0:
            n = left if left <= 63 else min(rng.choice([63, 63, 63, 40, 20]), left - 2)
            labs.append(L(rng, n)); left -= n + 1
        nm = b".".join(labs)
        assert len(nm) == total
        if rng.random() < 0.2:
            nm += b"."
        return nm, "len%d" % min(len(nm), 257)
    if r < 0.74:
        base = G.plain_name(rng, rng.choice([1, 2, 3]))
        k = rng.randrange(6)
        if k == 0: return b"." + base, "empty-label"
        if k == 1: return base.replace(b".", b"..", 1) if b"." in base else base + b"..x", "empty-label"
        if k == 2: return base + b"..", "empty-label"
        if k == 3: return rng.choice([b".", b"..", b"..."]), "dots-only"
        if k == 4: return b"", "empty"
        return b".." + base, "empty-label"
    if r < 0.82:
        return rng.choice([b"a\\.b.c", b"a\\032b.test", b"\\\\.x", b"x\\", b"we\\ird.example.", b"\\.", b"a\\..b"]), "backslash"
    if r < 0.92:
        alpha = bytes(range(0x80, 0x100)) + b"\x01\x02\x1f \t@!*(){}/:"
        return b".".join(L(rng, rng.choice([1, 3, 8]), alpha) for _ in range(rng.choice([1, 2, 3]))), "8bit"
    if r < 0.96:
        return rng.choice([b"1.2.3.4", b"localhost", b"::1", b"4.3.2.1.in-addr.arpa", b"xn--bcher-kva.example", b"_sip._tcp.example.com"]), "special"
    return bytes(rng.choice(b"aA") for _ in range(rng.choice([1, 2, 9, 17, 33]))), "case-bits"


def gen_domain(rng):
    r = rng.random()
    if r < 0.7:
        return G.plain_name(rng, rng.choice([1, 2, 3]))
    if r < 0.78:
        return G.plain_name(rng, 2) + b"."
    if r < 0.86:
        return b".".join(G.rand_label(rng, 63) for _ in range(rng.choice([1, 2, 3])))
    if r < 0.92:
        return G.rand_label(rng, rng.choice([64, 70])) + b".long"
    return rng.choice([b"a..b", b"x.", b"8\xffbit.d", b"UPPER.Case"])


def gen_case(rng, idx):
    qkind = rng.choice(["A"] * 5 + ["AAAA"] * 3 + ["P4", "P6"])
    randcase = rng.random() < 0.5
    flags = 0
    if rng.random() < 0.25:
        flags |= G.F_NO_SEARCH
    tcp = rng.random() < 0.12
    if tcp:
        flags |= G.F_USEVC
    edns = rng.choice([None] * 5 + [0, 511, 512, 513, 1232, 4096, 65535, 70000])
    L = ["CASE %d" % idx, "B %d" % rng.choice([0, 0x8000]), "RNG %d 0" % rng.randrange(1 << 40), "NS 0",
         "O randomize-case %d" % (1 if randcase else 0)]
    if edns is not None:
        L.append("O edns-udp-size %d" % edns)
    # search configuration
    method = rng.choice(["none", "api", "api", "resolvconf", "resolvconf"])
    ndots = 1
    domains = []
    if method != "none":
        nd = rng.choice([0, 1, 1, 2, 2, 3, 4]) if method == "api" else rng.choice([1, 1, 2, 3, 4])
        doms = [gen_domain(rng) for _ in range(nd)]
        nset = rng.choice([None, 0, 1, 2, 3])
        if method == "api":
            if nset is not None and rng.random() < 0.5:
                L.append("SN %d" % nset); ndots = nset; nset = None
            for d in doms:
                L.append("SA " + d.hex())
            if nset is not None:
                L.append("SN %d" % nset); ndots = nset
            # CALIBRATED: evdns_base_search_add pushes at the head of the list (last added is tried first);
            # the documentation is silent on the order of API-added domains.
            domains = list(reversed(doms))
        else:
            doms = [d for d in doms if b" " not in d and b"\t" not in d and b"\n" not in d and d]
            if not doms:
                doms = [b"fallback.test"]
            txt = b"# generated\n"
            # (an "options ndots:" line placed BEFORE the search line is reset to 1 by evdns' search-line handling;
            #  resolv.conf parsing belongs to C39, so the conventional order search-then-options is used here)
            txt += b"search " + b" ".join(doms) + b"\n"
            if nset is not None:
                txt += b"options ndots:%d\n" % nset; ndots = nset
            L.append("RC 1 " + txt.hex())
            domains = doms       # resolv.conf(5): tried in the order listed
    if qkind in ("A", "AAAA"):
        name, ntag = gen_name(rng)
        arg = name
    else:
        arg = bytes(rng.randrange(256) for _ in range(4 if qkind == "P4" else 16))
        name, ntag = G.reverse_name(qkind, arg), "reverse"
    if b"\0" in name:
        name = name.replace(b"\0", b"x"); arg = name
    # candidates in documented order
    if qkind in ("P4", "P6") or flags & G.F_NO_SEARCH or not domains:
        cands = [name]
    else:
        def join(n, d):
            while d.startswith(b"."):      # CALIBRATED: leading dots of a search domain are dropped
                d = d[1:]
            return n + (b"" if n.endswith(b".") else b".") + d
        joined = [join(name, d) for d in domains]
        # dns.h: "If the number [of dots] is greater than the ndots setting then the name is first tried globally.
        # Otherwise each search domain is appended in turn."  The example (ndots 1: "www.abc" is tried as is first)
        # and resolv.conf(5) make the threshold ">= ndots".
        if name.count(b".") >= ndots:
            cands = [name] + joined
        else:
            cands = joined + [name]
    # server behaviour
    stop_at = rng.choice([None, None, None, 1, 2, 3])
    rc = rng.choice([3, 3, 3, 0])        # NXDOMAIN or NODATA while walking the list
    for k in range(1, 8):
        ok = stop_at == k
        if tcp:
            L.append("TR 0 -1 - " + G.echo_reply(rcode=0 if ok else rc, tcp=True, addrs=1 if ok else 0, rng=rng))
        else:
            L.append("UR 0 1 0 0 " + G.echo_reply(rcode=0 if ok else rc, addrs=1 if ok else 0, rng=rng))
    L += ["R 0 %s %d %s" % (qkind, flags, arg.hex() or "-"), "S", "W 60000000 5000000", "E"]
    meta = dict(idx=idx, qkind=qkind, qtype=G.QT[qkind], name=name, ntag=ntag, randcase=randcase, flags=flags, tcp=tcp,
                edns=None if edns is None else max(512, min(65535, edns)), cands=cands, stop_at=stop_at,
                nosearch=bool(flags & G.F_NO_SEARCH), ndomains=len(domains), method=method, ndots=ndots)
    return L, meta


def gen_shard(a):
    seed, shard, n, first, path = a
    rng = G.mkrng(seed, PROP, shard)
    metas = {}
    with open(path, "w") as f:
        for k in range(n):
            L, meta = gen_case(rng, first + k)
            f.write("\n".join(L) + "\n")
            meta["hash"] = G.h64("\n".join(L[1:]).encode())
            metas[first + k] = meta
    pickle.dump(metas, open(path + ".meta", "wb"))
    return path


# ------------------------------------------------------------------ oracle
def check_query(msg, meta, viol, st):
    """strict well-formedness of one captured query; returns decoded question labels or None"""
    hx = msg.hex()[:140]
    m = W.decode_message(msg)
    if m.error:
        return None, "undecodable:%s" % m.error[0]
    bad = []
    if m.flags != 0x0100:
        if not m.rd:
            bad.append("rd-clear")
        if m.qr or m.opcode or m.tc or m.rcode or (m.flags & 0x0070) or (m.flags & 0x0480):
            bad.append("flags-0x%04x" % m.flags)
    qd, an, ns, ar = m.counts
    if qd != 1:
        bad.append("qdcount-%d" % qd)
    if an or ns:
        bad.append("answer-or-authority-in-query")
    if m.questions:
        _, qt, qc = m.questions[0]
        if qt != meta["qtype"]:
            bad.append("qtype-%d" % qt)
        if qc != 1:
            bad.append("qclass-%d" % qc)
    # EDNS: OPT exactly when configured (CALIBRATED: edns-udp-size is clipped to [512, 65535]; 512 means "no EDNS")
    want_opt = meta["edns"] is not None and meta["edns"] > 512
    opts = [rr for rr in m.additional if rr.type == W.T_OPT]
    if want_opt:
        if len(opts) != 1 or ar != 1:
            bad.append("opt-missing")
        else:
            o = opts[0]
            if o.name != [] or o.cls != meta["edns"] or o.ttl != 0 or o.rdlen != 0:
                bad.append("opt-wrong(size=%d ttl=%d rdlen=%d)" % (o.cls, o.ttl, o.rdlen))
            else:
                st("opt_records_checked")
    elif ar or opts:
        bad.append("opt-unconfigured")
    for b in bad:
        viol("C36:query-" + b.split("(")[0].split("-0x")[0], "query %s: %s" % (hx, b))
    if not m.questions:
        return None, "no-question"
    st("queries_well_formed" if not bad else "queries_flawed")
    return m.questions[0][0], None


def judge_case(case, meta):
    V, S = [], {}

    def st(k, n=1): S[k] = S.get(k, 0) + n

    def viol(key, text): V.append((key, "case %d: %s" % (meta["idx"], text)))
    wire = []
    qstream = {}
    ret = None
    ncb = 0
    cbres = None
    for ev in case.events:
        k = ev[0]
        if k == "RET":
            ret = ev[3]
        elif k == "Q":
            wire.append(bytes.fromhex(ev[4]) if ev[4] != "-" else b"")
            st("udp_queries")
        elif k == "QT":
            b = qstream.setdefault((ev[1], ev[2]), bytearray())
            b += bytes.fromhex(ev[4]) if ev[4] != "-" else b""
            while len(b) >= 2:
                l = struct.unpack(">H", b[:2])[0]
                if len(b) < 2 + l:
                    break
                wire.append(bytes(b[2:2 + l])); del b[:2 + l]
                st("tcp_queries")
        elif k == "TX":
            b = qstream.pop((ev[1], ev[2]), None)
            if b:
                viol("C36:tcp-stream-garbage", "TCP stream ended with %d unframed bytes %s" % (len(b), bytes(b).hex()[:60]))
        elif k == "CB" and int(ev[3]) >= 0:
            ncb += 1; cbres = int(ev[4])
        elif k in ("RETO", "RETRC") and ev[-1] != "0":
            viol("C36:config-rejected", " ".join(ev))
    for key, b in qstream.items():
        if b:
            viol("C36:tcp-stream-garbage", "TCP stream holds %d unframed bytes %s" % (len(b), bytes(b).hex()[:60]))
    cands = meta["cands"]
    fold = meta["randcase"] or meta["qtype"] == T_PTR
    p = 0
    stopped = False
    successes = 0
    for i, msg in enumerate(wire):
        labels, err = check_query(msg, meta, viol, st)
        matched = False
        while p < len(cands):
            c = cands[p]
            cl = W.text_to_labels(c)
            if cl is not None:
                if labels is not None and W.names_equal(labels, cl, fold):
                    matched = True
                    if fold and labels != cl:
                        st("case_randomized_names")
                    elif fold and any(ch in b"abcdefghijklmnopqrstuvwxyzABCDEFGHIJKLMNOPQRSTUVWXYZ" for l in cl for ch in l):
                        st("case_identical_names")
                    st("names_checked")
                    p += 1
                    break
                # a valid candidate was skipped or something else was asked
                if labels is None and c.strip(b".") == b"":
                    # "." names the root but has the shape <empty label><dot>: same witness class as other empty labels
                    viol("C36:malformed-query-sent:empty-label", "name %r: query %d %s is not a well-formed message (%s)" % (c, i, msg.hex()[:120], err))
                elif labels is None:
                    viol("C36:malformed-query:" + err, "query %d (%s) for valid candidate %r" % (i, msg.hex()[:120], c[:80]))
                else:
                    viol("C36:wrong-name-or-order", "query %d asks %r, documented order expects %r (candidates %r)" %
                         (i, W.labels_text(labels)[:80], c[:80], [x[:40] for x in cands]))
                p = len(cands) + 1
                break
            # candidate cannot be encoded: it must not be transmitted
            prob = W.name_problem(c)
            nxt = [x for x in cands[p + 1:] if W.text_to_labels(x) is not None]
            if labels is not None and nxt and W.names_equal(labels, W.text_to_labels(nxt[0]), fold):
                p += 1       # properly skipped; look at the next candidate
                st("unencodable_candidates_skipped")
                continue
            viol("C36:malformed-query-sent:" + prob, "candidate %r cannot be encoded (%s) but query %d %s was transmitted" %
                 (c[:80], prob, i, msg.hex()[:120]))
            matched = True
            p += 1
            break
        if not matched and p == len(cands):
            viol("C36:unexpected-query", "query %d %s after all %d candidates" % (i, msg.hex()[:100], len(cands)))
            p += 1
        if meta["stop_at"] is not None and i + 1 == meta["stop_at"]:
            successes += 1
    # completeness: while every reply was NXDOMAIN/NODATA the whole list must be walked, in order, until an
    # un-encodable candidate stops the search (CALIBRATED: evdns gives up there; skipping it would be fine too)
    if p <= len(cands) and (meta["stop_at"] is None or len(wire) < meta["stop_at"]):
        rest = cands[p:]
        if rest and W.text_to_labels(rest[0]) is not None and ret == "1" and not any(v[0].startswith("C36:malformed-query-sent") for v in V):
            viol("C36:search-incomplete", "candidates %r were never asked although every reply was negative (asked %d)" % ([x[:40] for x in rest], len(wire)))
    first_valid = W.text_to_labels(cands[0]) is not None
    if ret == "0":
        st("resolve_returned_null")
        if wire:
            viol("C36:refused-but-sent", "resolve returned NULL but %d queries were sent" % len(wire))
        if all(W.text_to_labels(c) is not None for c in cands[:1]) and meta["ntag"] not in ("empty",):
            viol("C36:valid-name-refused", "resolve returned NULL for %r (first candidate %r)" % (meta["name"][:80], cands[0][:80]))
        else:
            st("unencodable_refused")
    elif ret == "1":
        st("resolve_accepted")
        if ncb != 1:
            viol("C36:no-single-callback", "%d callbacks" % ncb)
        if not first_valid and not wire:
            st("unencodable_failed_by_callback")
    if len(wire) > 1:
        st("search_sequences_checked")
    if meta["tcp"] and wire:
        st("tcp_cases")
    st("tag_" + meta["ntag"])
    return V, S, bool(wire) or ret == "0"


def judge_shard(a):
    script, traces = a
    metas = pickle.load(open(script + ".meta", "rb"))
    out = dict(viol=[], stats={}, hashes=[], samples=[], ncases=0)
    for tp in traces:
        cases, _ = G.parse_trace(tp)
        for idx, c in cases.items():
            if not c.ended:
                continue
            meta = metas[idx]
            V, S, nt = judge_case(c, meta)
            out["ncases"] += 1
            for k, v in S.items():
                out["stats"][k] = out["stats"].get(k, 0) + v
            if nt:
                out["hashes"].append(meta["hash"])
                if len(out["samples"]) < 1 and len(meta["cands"]) > 1:
                    out["samples"].append(dict(case=idx, type=meta["qkind"], name=meta["name"].decode("latin1")[:60], ndots=meta["ndots"],
                                               candidates=[x.decode("latin1")[:50] for x in meta["cands"]],
                                               queries=[" ".join(e)[:120] for e in c.events if e[0] in ("Q", "QT")][:5]))
            for key, text in V:
                out["viol"].append((key, text, script, idx))
    return out


def run(tier, seed, total=None, nfiles=16):
    res = vlib.Result(PROP)
    vlib.build("asan", ["h_dns"])
    d = vlib.workdir(PROP)
    total = total or SIZES[tier]
    per = (total + nfiles - 1) // nfiles
    rounds = 1
    while per > 4000:
        rounds *= 2; per = (total + nfiles * rounds - 1) // (nfiles * rounds)
    with multiprocessing.Pool(min(vlib.NCPU, nfiles)) as pool:
        for rd in range(rounds):
            scripts = [os.path.join(d, "s%d-%d.script" % (rd, i)) for i in range(nfiles)]
            pool.map(gen_shard, [(seed, rd * nfiles + i, per, (rd * nfiles + i) * per, scripts[i]) for i in range(nfiles)])
            traces = G.run_scripts(res, PROP, scripts, [(rd * nfiles + i + 1) * per for i in range(nfiles)])
            outs = pool.map(judge_shard, list(zip(scripts, traces)))
            texts = {}
            for o in outs:
                res.evaluations += o["ncases"]
                for k, v in o["stats"].items():
                    res.add_stat(k, v)
                res.hashes.update(o["hashes"])
                if len(res.samples) < 5:
                    res.samples += o["samples"][:1]
                for key, text, script, idx in o["viol"]:
                    if script not in texts:
                        texts[script] = G.case_texts(script)
                    res.add_viol(key, text, dict(lines=texts[script][idx], seed=seed))
            for sc in scripts:
                if any(((v.get("replay") or {}).get("payload") or {}).get("script") == sc and "lines" not in v["replay"]["payload"] for v in res.viol):
                    texts.setdefault(sc, G.case_texts(sc))
            G.attach_case_text(res, texts)
    return vlib.finish(res, tier, seed, RULE,
                       required=["names_checked", "search_sequences_checked", "opt_records_checked", "case_randomized_names", "tcp_queries",
                                 "udp_queries", "resolve_returned_null", "queries_well_formed"],
                       assumptions=["name/search/option space sampled from a grammar", "CALIBRATED choices (API search order LIFO, >= ndots, "
                                    "edns-udp-size clipping, literal backslashes) are marked in lib/checks/C36.py"])


def replay(info):
    r = info["replay"]
    lines = r.get("lines") or (r.get("payload") or {}).get("lines")
    if not lines:
        print("replay file carries no case text"); return 2
    case, err = G.replay_lines(PROP, lines)
    keys = vlib.sanitizer_keys(err)
    bad = bool(keys)
    # regenerate the metadata: the generator is deterministic in (seed, shard) but a replay file only has the
    # script, so recover what the oracle needs from it
    meta = meta_from_lines(lines)
    if case is not None and case.ended and meta:
        V, S, _ = judge_case(case, meta)
        for k, t in V:
            print("VIOL", k, t); bad = True
    for k, t in keys:
        print("VIOL", k)
    if bad:
        print("VIOLATION property=%s replay=(replayed)" % PROP)
    return 1 if bad else 0


def meta_from_lines(lines):
    meta = dict(idx=int(lines[0].split()[1]), randcase=True, edns=None, tcp=False, stop_at=None, ntag="replay", ndots=1, method="?")
    adds, rc_doms = [], None
    nrule = 0
    for ln in lines:
        t = ln.split()
        if t[0] == "O" and t[1] == "randomize-case":
            meta["randcase"] = t[2] == "1"
        elif t[0] == "O" and t[1] == "edns-udp-size":
            meta["edns"] = max(512, min(65535, int(t[2])))
        elif t[0] == "SN":
            meta["ndots"] = int(t[1])
        elif t[0] == "SA":
            adds.append(bytes.fromhex(t[1]))
        elif t[0] == "RC":
            for l2 in bytes.fromhex(t[2]).split(b"\n"):
                if l2.startswith(b"search "):
                    rc_doms = l2.split()[1:]
                if l2.startswith(b"options ndots:"):
                    meta["ndots"] = int(l2.split(b":")[1])
        elif t[0] in ("UR", "TR"):
            nrule += 1
            tm = t[-1]
            i = tm.find("I")
            fl = int(tm[i + 1:i + 5], 16)
            an = int(tm[i + 9:i + 13], 16)
            if (fl & 15) == 0 and an and meta["stop_at"] is None:
                meta["stop_at"] = nrule
        elif t[0] == "R":
            meta["qkind"] = t[2]; meta["qtype"] = G.QT[t[2]]; meta["flags"] = int(t[3])
            arg = bytes.fromhex(t[4]) if t[4] != "-" else b""
            meta["name"] = arg if t[2] in ("A", "AAAA") else G.reverse_name(t[2], arg)
    if "qtype" not in meta:
        return None
    meta["tcp"] = bool(meta["flags"] & G.F_USEVC)
    domains = rc_doms if rc_doms is not None else list(reversed(adds))
    name = meta["name"]
    if meta["qkind"] in ("P4", "P6") or meta["flags"] & G.F_NO_SEARCH or not domains:
        cands = [name]
    else:
        def join(n, d):
            while d.startswith(b"."):
                d = d[1:]
            return n + (b"" if n.endswith(b".") else b".") + d
        joined = [join(name, d) for d in domains]
        cands = [name] + joined if name.count(b".") >= meta["ndots"] else joined + [name]
    meta["cands"] = cands
    return meta


REG = dict(category="exploration",
           text="Runtime monitor of the evdns query builder and search list: 6.4e3 (quick) / 3.2e5 (thorough) resolve calls with names from a "
                "grammar (empty labels, leading/trailing dots, 63/64-byte labels, 253-257-byte and longer names, backslashes, 8-bit and control "
                "bytes), search lists of 0-4 domains set through the API or a resolv.conf search line, ndots 0-3, DNS_QUERY_NO_SEARCH, "
                "edns-udp-size, randomize-case, UDP and TCP; every datagram/TCP frame the fake nameserver receives is decoded by an independent "
                "strict RFC 1035 decoder: one question, name equal to the expected candidate (case-folded iff 0x20), type/class, flags == RD only, "
                "OPT iff configured with the configured size, candidates in the documented order, un-encodable names never transmitted. "
                "ASan/UBSan live. Held-on-observed, not a proof.",
           note="trusts lib/ref/dnswire.py; CALIBRATED: evdns_base_search_add order is LIFO, threshold is >= ndots (dns.h example), leading dots of "
                "search domains dropped, trailing-dot names still searched, backslashes literal, edns-udp-size clipped to [512,65535] and 512 = no OPT",
           technique="wire capture at scripted fake nameserver + strict reference decoder + documented-order model")
