"""Spec-driven check: a list of harness steps whose merged result decides the
property.  Used by every property whose generator and oracle live inside the
C harness."""
import os, subprocess, sys
import vlib


def run_spec(prop, tier, seed, steps, rule, required=(), level="exploration", assumptions=(),
             exhaustive=False, evaluations_stat="cases", post=None):
    res = vlib.Result(prop)
    byflavor = {}
    for st in steps:
        if tier not in st.get("tiers", ("quick", "thorough")):
            continue
        byflavor.setdefault(st["flavor"], set()).add(st["harness"])
    for fl, hs in byflavor.items():
        vlib.build(fl, sorted(hs))
    for st in steps:
        if tier not in st.get("tiers", ("quick", "thorough")):
            continue
        args = list(st.get("args", []))
        if tier == "thorough":
            args.append("--thorough")
        n = st["cases"][tier]
        vlib.run_harness(res, st["flavor"], st["harness"], args, n, seed + st.get("seed_off", 0),
                         nshards=st.get("shards"), timeout=st.get("timeout", {}).get(tier, 1500) if isinstance(st.get("timeout"), dict) else st.get("timeout", 1500),
                         env_extra=st.get("env"))
    if post:
        post(res)
    return vlib.finish(res, tier, seed, rule, required=required, level=level, assumptions=assumptions,
                       exhaustive=exhaustive, evaluations_stat=evaluations_stat)


def replay(info):
    r = info["replay"]
    exe = vlib.build(r["flavor"], [r["harness"]])[0]
    cmd = [exe, "--seed", str(r["seed"]), "--only", str(r.get("only", 0))] + r.get("args", [])
    env = vlib.sanitizer_env(r["flavor"])
    print("replay:", " ".join(cmd))
    p = subprocess.run(cmd, env=env, stdout=subprocess.PIPE, stderr=subprocess.PIPE, text=True, errors="replace")
    sys.stdout.write(p.stdout[-8000:])
    sys.stderr.write(p.stderr[-8000:])
    bad = any(l.startswith("VIOL ") for l in p.stdout.splitlines()) or vlib.sanitizer_keys(p.stderr) or p.returncode != 0
    if bad:
        print("VIOLATION property=%s replay=%s" % (info["property"], "(replayed)"))
        return 1
    return 0
