"""C32 WebSocket handshake accept value and outgoing frame encoding: generated
client keys / server-send scripts against a real evws session (harness h_ws);
oracle = hashlib/base64 and the RFC 6455 reference codec (DESIGN §3 C32)."""
import base64, hashlib, os, random, struct
import vlib
from ref import ws6455 as W
from gen import wsgen as G

PROP = "C32"
NSHARDS = 16
NCASES = dict(quick=640, thorough=50000)
RULE = ("a case = one WebSocket upgrade (generated Sec-WebSocket-Key: lengths 0..16 KiB (thorough 1 MiB), every length 0..139, SHA-1 block "
        "edges, obs-text/control bytes, lengths around 1 KiB) optionally followed by evws_send_text/evws_send_binary calls with payload "
        "lengths on and around 0/125/126/65535/65536 (thorough: 1 MiB), evws_close(code), or an echo session; non-trivial = the upgrade was "
        "accepted (101) and the accept value / every written frame was compared; distinct = hash of (request bytes, operations)")
REG = dict(
    category="exploration",
    text="Runtime differential monitor: ~640 (quick) / ~50 000 (thorough) upgrade requests with generated Sec-WebSocket-Key values sent over "
         "loopback to a real evhttp/evws server; Sec-WebSocket-Accept of every accepted upgrade is compared with base64(SHA-1(key+GUID)) from "
         "hashlib (exercises sha1.c on inputs up to 16 KiB / 1 MiB); every evws_send_text/binary/evws_close call made by the harness is "
         "compared byte-for-byte with the unique unmasked, FIN, minimal-length RFC 6455 encoding and decoded by the reference decoder; "
         "ASan+UBSan+LSan live. Sampling: held-on-observed.",
    note="trusts hashlib/base64 and lib/ref/ws6455.py; keys never start/end with SP/HTAB and never contain CR/LF/NUL (not part of a field "
         "value); a non-101 answer is 'not accepted' and not judged; text payloads are NUL-free (C string API)",
    technique="differential runtime oracle (hashlib SHA-1/base64, RFC 6455 reference codec) + sanitizers")

CLOSE_CODES = (1000, 1001, 1002, 1003, 1007, 1008, 1009, 1010, 1011, 1005, 1006, 1015)


def send_len(rng, tier):
    r = rng.random()
    if r < 0.45:
        return rng.choice((0, 1, 2, 124, 125, 126, 127, 128, 65534, 65535, 65536, 65537))
    if r < 0.75:
        return rng.randrange(0, 300)
    if r < 0.93:
        return rng.randrange(300, 70001)
    if tier == "thorough" and r < 0.97:
        return rng.choice(((1 << 20) - 1, 1 << 20, (1 << 20) + 1, rng.randrange(70001, 2 << 20)))
    return rng.choice((125, 126, 65535, 65536))


class Case:
    pass


def make_case(seed, tier, idx):
    rng = random.Random("C32/%d/%d" % (seed, idx))
    c = Case()
    c.idx = idx
    r = rng.random()
    c.kind = "hs" if r < 0.56 else "send" if r < 0.93 else "echo"
    if c.kind == "hs":
        c.key, c.keycls = G.gen_key(rng, tier, idx)
    else:
        if rng.random() < 0.7:
            c.key, c.keycls = G.std_key(rng), "b64"
        else:
            c.key, c.keycls = G.gen_key(rng, "quick", idx)
    c.req = G.upgrade_request(c.key, rng, plain=rng.random() < 0.3)
    L = len(c.req)
    if rng.random() < 0.7:
        c.req_segs = [L]
    else:
        cuts = sorted(set(rng.randrange(1, L) for _ in range(rng.randrange(1, 5))))
        pts = [0] + cuts + [L]
        c.req_segs = [pts[i + 1] - pts[i] for i in range(len(pts) - 1)]
    c.groups = []      # list of lists of ops: ("TXT"|"BIN", Payload) / ("CLOSE", code)
    c.stream = None
    if c.kind == "send":
        ngroups = rng.randrange(1, 5)
        for _ in range(ngroups):
            g = []
            for _ in range(1 if rng.random() < 0.65 else rng.randrange(2, 5)):
                n = send_len(rng, tier)
                if rng.random() < 0.5:
                    g.append(("TXT", G.gen_text(rng, n, nul_ok=False) if rng.random() < 0.6 else G.gen_binary(rng, n, nul_ok=False)))
                else:
                    g.append(("BIN", G.gen_binary(rng, n)))
            c.groups.append(g)
        if rng.random() < 0.6:
            r2 = rng.random()
            code = rng.choice(CLOSE_CODES) if r2 < 0.5 else rng.randrange(3000, 5000) if r2 < 0.75 else \
                rng.choice((0, 1, 255, 256, 999, 0x1234, 0x7fff, 0x8000, 0xff00, 0x00ff, 0xffff, rng.randrange(65536)))
            if rng.random() < 0.5 and c.groups:
                c.groups[-1].append(("CLOSE", code))
            else:
                c.groups.append([("CLOSE", code)])
    elif c.kind == "echo":
        s = G.Stream()
        for _ in range(rng.randrange(1, 7)):
            op = rng.choice((W.TEXT, W.BINARY))
            n = rng.choice((0, 1, 125, 126, 127, rng.randrange(0, 400)))
            pl = G.gen_text(rng, n, nul_ok=False) if op == W.TEXT else G.gen_binary(rng, n)
            s.add(G.mk_frame(rng, op, pl, masked=True, nonminimal_ok=False))
            if rng.random() < 0.2:
                s.add(G.mk_frame(rng, W.PING, G.gen_binary(rng, rng.randrange(0, 10)), masked=True))
        s.echo = 1
        c.stream = s.finish()
        c.stream_segs = G.segmentation(rng, c.stream, rng.choice(("one", "frame", "rand", "byte")))
    return c


def case_lines(c):
    out = ["S0", "S X " + c.req.hex()]
    if c.stream is not None:
        out += c.stream.script_pieces()
    out.append("CASE %d" % c.idx)
    out.append("SEND " + " ".join(map(str, c.req_segs)))
    out.append("FLUSH HS")
    for gi, g in enumerate(c.groups):
        for op, arg in g:
            if op == "CLOSE":
                out.append("CLOSE %d" % arg)
            else:
                out.append("%s %s" % (op, arg.spec()))
        out.append("STEP")
        out.append("FLUSH G%d" % gi)
    if c.stream is not None:
        out.append("ECHO 1")
        for i in range(0, len(c.stream_segs), 4000):
            out.append("SEND " + " ".join(map(str, c.stream_segs[i:i + 4000])))
        out.append("FLUSH ECHO")
    out += ["EOF", "FLUSH EOF", "END"]
    return out


def shard_indices(total, shard):
    return range(shard, total, NSHARDS)


def write_script(a):
    seed, tier, shard, total, path, only = a
    with open(path, "w") as f:
        for idx in ([only] if only is not None else shard_indices(total, shard)):
            f.write("\n".join(case_lines(make_case(seed, tier, idx))))
            f.write("\n")
    return path


# ------------------------------------------------------------------ judging
def parse_response(data):
    """-> (status int or None, {lower name: [values]})"""
    head, sep, _ = data.partition(b"\r\n\r\n")
    lines = head.split(b"\r\n")
    try:
        parts = lines[0].split(b" ", 2)
        status = int(parts[1]) if parts[0].startswith(b"HTTP/1.") else None
    except (IndexError, ValueError):
        status = None
    hdrs = {}
    for ln in lines[1:]:
        k, colon, v = ln.partition(b":")
        if colon:
            hdrs.setdefault(k.strip().lower(), []).append(v.strip(b" \t"))
    return status, hdrs, bool(sep)


def diagnose_frames(rxdata, ops):
    """rxdata: bytes actually received; ops: expected [(opcode, payload)].  -> specific key"""
    frames, rest = W.parse_server_frames(rxdata)
    for i, (op, pl) in enumerate(ops):
        if i >= len(frames):
            return "C32:frame-missing-or-truncated"
        f = frames[i]
        if f.masked:
            return "C32:frame-masked"
        if not f.fin or f.rsv:
            return "C32:frame-not-single-fin"
        if f.opcode == 0 or (f.opcode != op and f.payload == pl):
            return "C32:wrong-opcode"
        if f.opcode != op:
            return "C32:frame-mismatch"
        if f.length == len(pl) and f.lenform != W.minimal_lenform(f.length):
            return "C32:length-form-not-minimal"
        if f.payload != pl:
            return "C32:close-code-mismatch" if op == W.CLOSE else "C32:payload-mismatch"
    if len(frames) > len(ops) or rest:
        return "C32:extra-bytes-written"
    return "C32:frame-bytes-mismatch"


def diagnose_header_only(rx, op, pl):
    """large frame traced as (n, 'H', first32hex, sha256): judge the header"""
    n, kind, first, sha = rx
    f = W.parse_header(bytes.fromhex(first), 0)
    if f is None:
        return "C32:frame-missing-or-truncated"
    if f.masked:
        return "C32:frame-masked"
    if not f.fin or f.rsv:
        return "C32:frame-not-single-fin"
    if f.opcode != op:
        return "C32:wrong-opcode"
    if f.length == len(pl) and f.lenform != W.minimal_lenform(f.length):
        return "C32:length-form-not-minimal"
    if f.length != len(pl):
        return "C32:payload-length-mismatch"
    return "C32:payload-mismatch"


def judge_case(c, tr, stats):
    """-> list of (key, text)"""
    def st(k, n=1):
        stats[k] = stats.get(k, 0) + n
    viol = []
    hs = tr.rx.get("HS")
    if hs is None:
        return [("C32:no-handshake-trace", "case %d" % c.idx)]
    st("keys_" + c.keycls)
    st("key_bytes", len(c.key))
    if hs[1] != "X":
        return [("C32:handshake-response-too-long", "case %d: %d bytes" % (c.idx, hs[0]))]
    data = bytes.fromhex(hs[2])
    status, hdrs, complete = parse_response(data)
    if status != 101 or tr.session != 1:
        st("upgrades_not_accepted")
        if tr.session == 1:
            viol.append(("C32:session-created-without-101", "case %d key=%r status=%s" % (c.idx, c.key[:60], status)))
        return viol
    st("upgrades_accepted")
    st("accepted_" + c.keycls)
    if len(c.key) > 987:
        st("accepted_keys_longer_than_987")
    if len(c.key) >= 4096:
        st("accepted_keys_ge_4096")
    acc = hdrs.get(b"sec-websocket-accept", [])
    want = W.accept_value(c.key)
    st("accept_values_compared")
    if len(acc) != 1 or acc[0] != want:
        trunc = base64.b64encode(hashlib.sha1((c.key + W.GUID)[:1023]).digest())
        if len(acc) == 1 and len(c.key) + len(W.GUID) > 1023 and acc[0] == trunc:
            key = "C32:accept-key-input-truncated-at-1023-bytes"
        else:
            key = "C32:accept-value-mismatch"
        viol.append((key, "case %d key(len %d, class %s)=%r...: Sec-WebSocket-Accept=%r expected %r" % (
            c.idx, len(c.key), c.keycls, c.key[:48], acc, want)))
    else:
        st("accept_values_correct")
    if not complete or b"upgrade" not in hdrs or b"connection" not in hdrs:
        st("responses_without_upgrade_headers")
    # ---- outgoing frames
    for gi, g in enumerate(c.groups):
        rx = tr.rx.get("G%d" % gi)
        ops = []
        for op, arg in g:
            if op == "CLOSE":
                ops.append((W.CLOSE, struct.pack(">H", arg)))
                st("close_frames_expected")
            else:
                ops.append((W.TEXT if op == "TXT" else W.BINARY, arg.data))
                st("sends_" + op.lower())
                st("sends_lenform_%d" % W.minimal_lenform(len(arg.data)))
                if len(arg.data) >= 1 << 20:
                    st("sends_ge_1MiB")
                if len(arg.data) in (125, 126, 65535, 65536):
                    st("sends_at_length_boundary")
        if tr.nosession:
            viol.append(("C32:session-gone-before-send", "case %d group %d: %s" % (c.idx, gi, tr.nosession[:2])))
            break
        expected = b"".join(W.encode_frame(op, pl) for op, pl in ops)
        if rx is None:
            viol.append(("C32:frame-missing-or-truncated", "case %d group %d: no bytes traced" % (c.idx, gi)))
            continue
        st("frames_compared", len(ops))
        if G.rx_matches(rx, expected):
            st("frames_correct", len(ops))
            continue
        if rx[1] == "X":
            key = diagnose_frames(bytes.fromhex(rx[2]), ops)
        elif len(ops) == 1:
            key = diagnose_header_only(rx, ops[0][0], ops[0][1])
        else:
            key = "C32:frame-bytes-mismatch"
        viol.append((key, "case %d group %d ops=%s: received %d bytes %s..., expected %d bytes %s..." % (
            c.idx, gi, [(o, len(p)) for o, p in ops], rx[0], rx[2][:64], len(expected), expected[:32].hex())))
    if c.groups and c.groups[-1][-1][0] == "CLOSE":
        st("close_api_cases")
        if tr.peer_closed:
            st("closed_after_close_frame")
    if c.stream is not None:
        frames = W.split_frames(c.stream.wire)
        msgs = [(t, p) for t, p, _ in W.decode(frames).msgs]
        expected = b"".join(W.encode_frame(t, p) for t, p in msgs)
        rx = tr.rx.get("ECHO")
        st("echo_cases")
        st("frames_compared", len(msgs))
        if [G.msg_repr(t, p) for t, p in msgs] != list(tr.msgs):
            st("echo_input_not_delivered_as_sent")      # C31's business; the echo cannot be judged
        elif rx is None or not G.rx_matches(rx, expected):
            key = diagnose_frames(bytes.fromhex(rx[2]), msgs) if rx and rx[1] == "X" else "C32:frame-bytes-mismatch"
            viol.append((key, "case %d echo of %s: received %s" % (c.idx, [(t, len(p)) for t, p in msgs], rx and rx[2][:80])))
        else:
            st("frames_correct", len(msgs))
            st("echo_frames_correct", len(msgs))
    return viol


def judge_shard(a):
    seed, tier, shard, total, outpath, only = a
    stats, viols, hashes, samples, incon = {}, [], [], [], []
    traces = dict((t.id, t) for t in G.parse_trace(outpath))
    for idx in ([only] if only is not None else shard_indices(total, shard)):
        c = make_case(seed, tier, idx)
        tr = traces.get(idx)
        if tr is None:
            stats["cases_missing"] = stats.get("cases_missing", 0) + 1
            continue
        if not tr.ended:
            stats["cases_truncated"] = stats.get("cases_truncated", 0) + 1
            continue
        if tr.stall:
            incon.append("case %d: %s" % (idx, tr.stall))
            continue
        stats["cases"] = stats.get("cases", 0) + 1
        stats["cases_" + c.kind] = stats.get("cases_" + c.kind, 0) + 1
        before = stats.get("upgrades_accepted", 0)
        for key, text in judge_case(c, tr, stats):
            viols.append((key, text, dict(seed=seed, tier=tier, idx=idx)))
        if stats.get("upgrades_accepted", 0) > before:
            h = hashlib.sha1(c.req + repr([[(o, a if o == "CLOSE" else hashlib.sha1(a.data).hexdigest()) for o, a in g] for g in c.groups]).encode()
                             + (c.stream.wire if c.stream is not None else b"")).digest()
            hashes.append(int.from_bytes(h[:8], "big"))
            if len(samples) < 1 and len(c.req) < 300:
                hs = tr.rx.get("HS")
                samples.append(dict(kind=c.kind, key=c.key.decode("latin-1"), request=c.req.decode("latin-1"),
                                    response=bytes.fromhex(hs[2]).decode("latin-1"),
                                    ops=[[(o, a if o == "CLOSE" else len(a.data)) for o, a in g] for g in c.groups],
                                    rx=dict((k, v[2][:48]) for k, v in tr.rx.items() if k.startswith("G"))))
    return stats, viols, hashes, samples, incon


def _pool(n):
    import multiprocessing
    return multiprocessing.get_context("fork").Pool(min(n, vlib.NCPU))


def execute(res, tier, seed, only=None):
    vlib.build("asan", ["h_ws"])
    wd = vlib.workdir(PROP)
    total = NCASES[tier]
    shards = [only % NSHARDS] if only is not None else list(range(NSHARDS))
    wargs = [(seed, tier, sh, total, os.path.join(wd, "ws32-%s-%d-%d.script" % (tier, seed, sh)), only) for sh in shards]
    with _pool(len(wargs)) as p:
        p.map(write_script, wargs)
    jobs = [dict(args=["--arg", a[4], "--n1", 900 if tier == "thorough" else 180], tag="c32-%s-%d-%d" % (tier, seed, a[2]), replay=dict(seed=seed, tier=tier, shard=a[2])) for a in wargs]
    outs = vlib.run_jobs(res, "asan", "h_ws", jobs, timeout=3600 if tier == "thorough" else 600,
                         env_extra=None if only is not None else {"UBSAN_OPTIONS": "print_stacktrace=0:halt_on_error=1"})
    jargs = [(seed, tier, a[2], total, o["out"], only) for a, o in zip(wargs, outs)]
    with _pool(len(jargs)) as p:
        results = p.map(judge_shard, jargs)
    for (stats, viols, hashes, samples, incon), o in zip(results, outs):
        for k, v in stats.items():
            res.add_stat(k, v)
        for key, text, rp in viols:
            res.add_viol(key, text, rp)
        res.hashes.update(hashes)
        for smp in samples:
            if len(res.samples) < 5:
                res.samples.append(smp)
        res.inconclusive += incon[:3]
        if (stats.get("cases_missing", 0) or stats.get("cases_truncated", 0)) and not o["keys"]:
            res.inconclusive.append("trace of %s incomplete without a sanitizer report" % o["job"]["tag"])
    for a in wargs:
        try:
            os.unlink(a[4])
        except OSError:
            pass
    res.evaluations = res.stats.get("cases", 0)
    return res


REQUIRED = ["cases", "upgrades_accepted", "accept_values_compared", "accept_values_correct", "accepted_b64", "accepted_len0-139",
            "accepted_sha1-block-edge", "accepted_obs-text", "accepted_near-1k", "accepted_long", "accepted_keys_longer_than_987",
            "accepted_keys_ge_4096", "sends_txt", "sends_bin", "sends_lenform_7", "sends_lenform_16", "sends_lenform_64",
            "sends_at_length_boundary", "frames_compared", "frames_correct", "close_frames_expected", "echo_frames_correct"]


def run(tier, seed):
    res = vlib.Result(PROP)
    execute(res, tier, seed)
    req = list(REQUIRED)
    if tier == "thorough":
        req.append("sends_ge_1MiB")
    return vlib.finish(res, tier, seed, RULE, required=req,
                       assumptions=["hashlib SHA-1 / base64 and lib/ref/ws6455.py are correct",
                                    "a response other than 101 means the key was not accepted (nothing to judge)"])


def replay(info):
    r = info["replay"]
    res = vlib.Result(PROP)
    if "idx" not in r:
        p = r.get("payload", {})
        execute(res, p.get("tier", "quick"), p.get("seed", 1))
    else:
        execute(res, r["tier"], r["seed"], only=r["idx"])
    for v in res.viol:
        print("replayed: key=%s %s" % (v["key"], v["text"][:500]))
    if [v for v in res.viol if v["key"] == info["key"]]:
        print("VIOLATION property=%s replay=%s" % (PROP, "(replayed)"))
        return 1
    print("not reproduced")
    return 0
