"""C02 event API state machine vs reference model (harness/h_core.c, mode state)."""
from checks import generic

RULE = ("random histories over a pool of <=8 events (timers, pipe read/write, signal events; persistent/one-shot; 1-3 priorities) of "
        "event_new/add/del/active/active_later/remove_timer/priority_set/free/loop, also from inside callbacks; after every operation and at every "
        "callback entry/exit and backend wait: event_pending incl. expiry, event_initialized, priority, get_num_events (7 flag combos), get_max_events, "
        "event_base_assert_ok_ compared with the model; callbacks and result flags matched in lockstep; non-trivial = >=1 callback ran (random modes) / every enumerated sequence (enum mode); distinct = hash(seed, case, #callbacks, #queries)")
STEPS = [
    dict(flavor="asan", harness="h_core", args=["--mode", "state"], cases=dict(quick=10000, thorough=600000)),
    dict(flavor="asan", harness="h_core", args=["--mode", "timers"], cases=dict(quick=2000, thorough=60000), seed_off=102),
    dict(flavor="asan", harness="h_core", args=["--mode", "prio"], cases=dict(quick=2000, thorough=60000), seed_off=103),
    # bounded-exhaustive: every op sequence of length <=5 over a 16-letter alphabet x 5 in-callback variants on a fixed 3-event pool
    # (5 * (16+16^2+..+16^5) = 5,592,400 cases in thorough; quick enumerates all sequences of length <=3 = 21,840)
    dict(flavor="asan", harness="h_core", args=["--mode", "enum"], cases=dict(quick=21840, thorough=5592400)),
]
REG = dict(category="exploration",
           text="Online lockstep monitor: every API return value and every queryable observable is compared with a reference model of the documented event state "
                "machine after each operation, and the exact callbacks (with result flags) per loop iteration are matched; library assertions are compiled in.",
           note="trusts the model in harness/h_core.c; CALIBRATED: ADDED counts queue memberships, event_add on an active event does not register I/O, "
                "ncalls honoured for signal events only; re-activating a signal event from inside its own ncalls loop is excluded from the workload",
           technique="lockstep reference-model monitor + library self-checks + ASan/UBSan")


def run(tier, seed):
    return generic.run_spec("C02", tier, seed, STEPS, RULE,
                            required=["enum_sequences", "state_queries", "callbacks", "io_callbacks", "timers_fired", "signal_ncalls_iterations", "later_promoted"])
