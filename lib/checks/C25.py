"""C25 HTTP size limits (DESIGN §3 C25): max_headers_size / max_body_size are never exceeded in what is
delivered, buffering beyond the limits stays bounded, over-limit messages get 413/400 or a close, lingering
close drains no more than the announced length.

Cases (server and client side): valid messages with header-section shapes {normal, one long line, many short
lines, long target/reason} and bodies {none, Content-Length, chunked, close-delimited}, limits chosen from
{unlimited, 0, 1, actual-2..actual+2 for both ways of measuring, generous}, lingering close on/off, optional
pipelined neighbours; plus probes whose oversized element is never terminated or far beyond the limits
(request line, field line, many field lines, chunk-size line, chunk extension, trailer line, Content-Length
body, chunk, close-delimited body).  All under >=4 segmentations.  The input evbuffer's exact high-water mark and
the number of bytes consumed from it are measured with an evbuffer callback and sampled at every wait."""
import os, random
import vlib
from ref import http9112 as ref
from ref import httporacle as ho
from gen import httpgen as gen

PROP = "C25"
RULE = ("limit cases (server 70% / client 30%; 72% valid messages with limits placed around their measured sizes, 28% unterminated/oversized probes), "
        "each under 4 (quick) / 6 (thorough) segmentations; non-trivial = a finite limit is configured and the stream contains a message that is over, "
        "at, or within one line-terminator band of that limit, or is a probe; distinct = hash of (options, stream)")
SIZES = dict(quick=800, thorough=40000)
# VERIF_THOROUGH_DIV=n divides the thorough case counts (to try the thorough command on a loaded machine); default 1
_DIV = max(1, int(os.environ.get("VERIF_THOROUGH_DIV", "1") or "1"))
SIZES["thorough"] = max(SIZES["quick"], SIZES["thorough"] // _DIV)
BATCH = 2000

REG = dict(category="exploration",
           text="Runtime monitor: generated messages and unterminated/oversized probes are played against a real evhttp server / evhttp_connection "
                "(ASan+UBSan) with max_headers_size/max_body_size in {0,1,around the measured sizes,unlimited} and lingering close on/off under 4-6 "
                "segmentations; delivered header/body sizes, 413/400/close, the exact high-water mark of the connection's input evbuffer (evbuffer "
                "callback + sampling at every wait) and the bytes drained by lingering close are checked. Held-on-observed, not a proof.",
           note="CALIBRATED: the header-section size is taken as the sum of line lengths without terminators (what the tree counts; the API is "
                "undocumented), messages between that measure and the on-the-wire size may be accepted or rejected; buffering bound = both limits + "
                "two 16384-byte bufferevent reads + 256; sizes come from lib/ref/http9112.py",
           technique="limit-boundary workload + exact buffer high-water monitor + reference-measured sizes + segmentation metamorphic check, sanitizers live")


def iter_cases(tier, seed):
    rng = random.Random((seed << 8) ^ 0xC25)
    thorough = (tier == "thorough")
    for idx in range(SIZES[tier]):
        g = gen.gen_limit_case(rng, ho.measure, thorough)
        c = ho.Case(idx, g["mode"], g["data"], g["opts"], end=g["end"], requests=g["requests"], tags=g["tags"], cfg=g["cfg"])
        c.segs = gen.segmentations_big(rng, c.data, thorough=thorough)
        yield c


def build_cases(tier, seed):
    return list(iter_cases(tier, seed))


def judge_case(c, res):
    viol = []
    stats = {}
    seen = set()
    band = False
    for name, _ in c.segs:
        r = c.results.get(name)
        if r is None:
            continue
        if c.mode == 'S':
            v, b = ho.judge_limits_server(PROP, c, r, stats if name == 'one' else {})
        else:
            v, b = ho.judge_limits_client(PROP, c, r, stats if name == 'one' else {})
        band = band or b
        for k, t in v:
            if k not in seen:
                seen.add(k)
                viol.append((k, "[segmentation %s] %s" % (name, t)))
    if not band:
        if c.mode == 'S':
            ho.judge_metamorphic(PROP, c, ho.server_signature_limits, viol, res)
        else:
            ho.judge_metamorphic(PROP, c, lambda r: ho.client_signature(r, len(c.requests)), viol, res)
    else:
        stats["metamorphic_skipped_band"] = 1
    for k, v in stats.items():
        res.add_stat(k, v)
    return viol


def account(c, res):
    if c.cfg.get("mh", -1) >= 0 or c.cfg.get("mb", -1) >= 0:
        res.hashes.add(ho.stream_hash(c))
    for t in set(c.tags):
        res.add_stat("gen_" + t.replace(":", "_"), 1)
    r1 = c.results.get('one')
    res.extra["max_input_high_water"] = max(res.extra.get("max_input_high_water", 0), max(r.get("hwx", 0) for r in c.results.values()))
    if c.mode == 'S':
        res.add_stat("requests_delivered", len(r1["reqs"]))
        for s in ho.out_statuses(r1["out"]):
            res.add_stat("status_%s" % (s if s in (100, 200, 400, 413) else "other"), 1)
        res.add_stat("server_closed_before_fin", 1 if r1["closed_before_fin"] else 0)
    else:
        for o in ho.client_observed(r1, len(c.requests)):
            res.add_stat("client_request_" + o["kind"], 1)
    res.add_stat("bytes_consumed_from_input", r1.get("del", 0))
    res.add_stat("cases_" + ("server" if c.mode == 'S' else "client"), 1)
    res.add_stat("segmentations_run", len(c.results))
    if len(res.samples) < 5 and (c.idx % 173 == 3 or c.idx < 2):
        res.samples.append(dict(mode=c.mode, opts=c.opts, stream=ho.short(c.data, 200), end=c.end, hw=[(n, c.results[n].get("hwx")) for n, _ in c.segs],
                                delivered=(len(r1["reqs"]) if c.mode == 'S' else [o["kind"] for o in ho.client_observed(r1, len(c.requests))])))


def run(tier, seed):
    res = vlib.Result(PROP)
    vlib.build(ho.FLAVOR, [ho.HARNESS])
    ho.run_batched(res, PROP, iter_cases(tier, seed), tier, BATCH, judge_case, account)
    return vlib.finish(res, tier, seed, RULE,
                       required=["cases_server", "cases_client", "over_limit_messages", "within_limit_delivered", "band_messages", "status_413", "status_400",
                                 "gen_probe-server", "gen_probe-client", "gen_ling1", "bytes_consumed_from_input", "client_request_failed", "client_request_delivered"],
                       assumptions=["header size measure calibrated to the tree (line contents without terminators)", "one read quantum = 16384 bytes (bufferevent max_single_read)"])


def replay(info):
    return ho.generic_replay(info, judge_case)
