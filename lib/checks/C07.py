"""C07 signal events: every delivery reported, nothing after del, prior disposition restored (DESIGN §3 C07)."""
from checks import generic

RULE = ("random add/del/free/deliver/step/fork histories over 1-5 signals x 1-3 events (persist and one-shot, evsignal_new/"
        "event_new/event_assign, 1-3 priorities) with recognisable prior dispositions (SIG_DFL/SIG_IGN/handler/siginfo "
        "handler, random sa_flags and sa_mask), raise()/kill() bursts of 1-200 from the script and from callbacks, "
        "self-pipe and signalfd x epoll/poll/select, one third with fork()+event_reinit() continuing in parent and child; "
        "every case in its own forked process; non-trivial = at least one signal callback ran and at least one "
        "restore check (last del / one-shot auto-delete / base free) was made; distinct = hash of the generated script")
STEPS = [
    dict(flavor="asan", harness="h_signal", args=[], cases=dict(quick=1200, thorough=16000),
         timeout=dict(quick=600, thorough=3000)),
]
REG = dict(category="exploration",
           text="Signal events: 1 <= callbacks <= deliveries per batch for every added event, no callback after event_del/"
                "event_free returned, sigaction (handler, flags, mask) equal to the pre-add one after the last del, after "
                "one-shot auto-delete and after event_base_free; both signal mechanisms, three backends, and in a forked "
                "child after event_reinit (parent must not see the child's signals).",
           note="Model lives in the harness next to the generator (independent of libevent state: counts adds/dels/"
                "raises itself). Signals still pending at the last del under signalfd and one event_base per process are "
                "outside the property and avoided. Deliveries already taken by the self-pipe before a del may be reported "
                "to a later event of the same signal (calibrated as allowed). ASan+UBSan live in every process; forked "
                "case processes _exit() so LeakSanitizer only covers the harness parent.",
           technique="randomised histories under sanitizers with an in-harness reference model; one forked process per case")


def run(tier, seed):
    return generic.run_spec("C07", tier, seed, STEPS, RULE,
                            required=["callbacks", "callbacks_child", "child_delivery_before_reinit_prior_other", "child_delivery_before_reinit_prior_ign", "deliveries", "deliveries_in_callback", "last_dels",
                                      "oneshot_autodel", "restore_checks", "base_free_checks", "base_free_with_events_added",
                                      "child_reinits", "batches_multi", "partial_dels",
                                      "cfg_epoll_selfpipe", "cfg_epoll_signalfd", "cfg_poll_selfpipe", "cfg_poll_signalfd",
                                      "cfg_select_selfpipe", "cfg_select_signalfd"],
                            assumptions=["single-threaded delivery: raise()/kill(getpid()) return after the handler ran (POSIX)",
                                         "one event_base owns signals at a time (documented libevent limitation)"])
