"""C04 every backend reports exactly the ready I/O asked for (DESIGN §3 C04)."""
from checks import generic

RULE = ("random scenarios over pipes, AF_UNIX socketpairs and loopback TCP pairs (data pending, full buffers, shutdown(WR), peer closed, "
        "abortive close, fd numbers closed and reused by other objects incl. dup2 over an open fd), 1-4 events per fd (R/W/CLOSED mixes, "
        "ET or LT per fd, persistent or one-shot), add/del between iterations, deletes from inside callbacks, signals in between; each "
        "script runs on 8 configurations (epoll, epoll+changelist, poll, select x self-pipe/signalfd) and every iteration is judged "
        "against a raw poll(2) probe taken before and after it; non-trivial = at least one I/O callback ran; distinct = hash of the script")
STEPS = [
    dict(flavor="asan", harness="h_io", args=["--mode", "c04"], cases=dict(quick=2400, thorough=250000),
         timeout=dict(quick=300, thorough=3600)),
]

REG = dict(
    category="exploration",
    text="Runtime monitor over generated scenarios (2.4k quick / 250k thorough scripts x 8 backend configurations, ASan+UBSan, asserts on): "
         "every user callback (fd, what) is checked against an independent zero-timeout poll(2) probe of all fds taken immediately before and "
         "after each loop iteration: soundness (what names only requested conditions the probe confirms; never for a deleted / not added event), "
         "level-triggered completeness (probe says condition holds and event added => callback in that iteration, once per iteration while it holds), "
         "edge-triggered (no callback in an iteration with no activity and no registration change; exactly one for a first registration of a ready fd "
         "or a false->true transition; pipes/AF_UNIX only), and agreement of the per-iteration callback sets between all 8 configurations (exact "
         "between self-pipe and signalfd variants; modulo documented feature gaps across backends). Sampling of scenario space: held-on-observed.",
    note="trusts the kernel's poll(2) as ground truth for readiness and the in-harness shadow of added/deleted events; CALIBRATED: ERR => readable+writable, "
         "HUP => readable everywhere, 'writable because of HUP alone' is treated as either (select does not report it); TCP objects are excluded from "
         "the edge-triggered exact-once rules (asynchronous ACK wakeups); order of callbacks on one fd unspecified (victims of in-callback deletes are either)",
    technique="differential runtime oracle (raw poll(2) probe + shadow event state) and metamorphic cross-backend comparison on generated scenarios",
)


def run(tier, seed):
    return generic.run_spec("C04", tier, seed, STEPS, RULE,
                            required=["callbacks", "cb_epoll", "cb_epollcl", "cb_poll", "cb_select", "cb_signalfd_cfgs", "cb_et", "cb_closed",
                                      "sound_checked", "lt_must_checked", "lt_must_closed", "lt_refire_seen", "et_quiet_while_ready", "et_edge_checked",
                                      "deleted_while_ready", "del_in_callback", "xcfg_event_steps_compared", "fd_number_reused", "dup2_over_open_fd",
                                      "st_in", "st_write_blocked", "st_rdhup", "st_hup", "st_err", "obj_pipe", "obj_unix", "obj_tcp", "signal_callbacks"],
                            assumptions=["readiness ground truth is the kernel's poll(2) on the same fds in the same thread (no concurrent actors)",
                                         "loopback TCP state changes are awaited (three identical consecutive probes) before an iteration; remaining "
                                         "divergence between configurations' probes disables the cross-configuration comparison for that fd (counted)"])
