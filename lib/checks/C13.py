"""C13 evbuffer change callbacks report exactly what happened (DESIGN §3 C13)."""
from checks import generic

RULE = ("case = one history of 15-65 operations over 1-4 evbuffers with 0-6 callbacks each (new-style and obsolete evbuffer_setcb), "
        "callbacks added/removed/enabled/disabled/NODEFER-flagged at random points, buffers switched to deferred delivery on an event_base "
        "that is stepped with EVLOOP_NONBLOCK, callbacks that add/drain one byte, remove or disable themselves; every invocation judged "
        "(orig+added-deleted == evbuffer_get_length == model length, orig == end of its previous report, not disabled, not removed, "
        "deferred ones only from the loop and once per turn), and per always-enabled callback sum(added)/sum(deleted) == bytes the "
        "byte-string model says were added/removed since its registration, at every flush point; non-trivial = a content-changing op "
        "succeeded while callbacks were registered; distinct = hash of the op sequence")

STEPS = [dict(flavor="asan", harness="h_evbuf", args=["--mode", "callbacks"], cases=dict(quick=3000, thorough=120000), timeout=dict(quick=900, thorough=7200))]
REQUIRED = ["cb_invocations", "cb_deferred_invocations", "cb_deferred_aggregated_reports", "deferred_flushes_with_pending",
            "cb_obsolete_invocations", "cb_disabled", "cb_nodefer_set", "cb_remove_self", "cb_disable_self", "cb_reentrant_add",
            "cb_reentrant_drain", "cb_sums_judged", "loop_steps", "buffers_deferred", "cb_registered", "cb_removed",
            "cb_reports_with_add_and_del", "op_remove_buffer", "op_add_buffer", "op_readln", "op_reserve_commit", "op_add_buffer_reference"]

REG = dict(category="exploration",
           text="Runtime monitor of every evbuffer callback invocation over ~1.3e5 (quick) / ~5e6 (thorough) operations in random histories "
                "with immediate and deferred delivery, flag toggling and self-modifying callbacks: per-invocation identity, report chaining, "
                "and per-callback sums against an independent byte-string ledger, under ASan+UBSan. Held-on-observed.",
           note="trusts the ledger in harness/h_evbuf.c; a callback registered on a deferred buffer with changes pending may or may not see them "
                "(either accepted); re-entrant changes are only injected into single-step mutators; removing oneself is only done from a top-level "
                "invocation (removal from a nested run while an outer run holds the saved next pointer is a suspected use-after-free that is not exercised)",
           technique="runtime callback ledger vs byte-string model over generated histories + sanitizers")


def run(tier, seed):
    return generic.run_spec("C13", tier, seed, STEPS, RULE, required=REQUIRED,
                            assumptions=["single-threaded; one event_base per history stepped with EVLOOP_NONBLOCK"])
