"""C24 evhttp_connection client response framing/parsing vs an RFC 9112 reference parser (DESIGN §3 C24).

An evhttp_connection queues 1-3 requests to a raw listening socket owned by the harness; the scripted peer
sends a generated response stream (valid + adversarial; HEAD, 1xx, 204, 304, CONNECT, Content-Length, chunked,
close-delimited, junk after a complete response) under >=4 segmentations and then closes, half-closes or
stays open; a truncation family cuts valid streams at random bytes.  Oracles: (1) per request the completion
callback's (status, reason, version, fields, body) equals the reference parse, or the request fails where the
RFC demands it; bytes after a complete response only ever serve the next queued request; (2) all
segmentations agree."""
import os, random
import vlib
from ref import http9112 as ref
from ref import httporacle as ho
from gen import httpgen as gen

PROP = "C24"
RULE = ("response scripts (directed catalogue + grammar-generated responses for 1-3 queued requests with at most one deviation each, peer close / "
        "half-close / open end, + truncations of valid streams at random bytes), each executed under 4 (quick) / 6 (thorough) segmentations; "
        "non-trivial = the reference parser derives at least one complete final response or a must-fail verdict; distinct = hash of (requests, stream, end)")
SIZES = dict(quick=900, thorough=45000)
TRUNC = dict(quick=200, thorough=10000)
# VERIF_THOROUGH_DIV=n divides the thorough case counts (to try the thorough command on a loaded machine); default 1
_DIV = max(1, int(os.environ.get("VERIF_THOROUGH_DIV", "1") or "1"))
SIZES["thorough"] = max(SIZES["quick"], SIZES["thorough"] // _DIV)
TRUNC["thorough"] = max(TRUNC["quick"], TRUNC["thorough"] // _DIV)
BATCH = 4000

REG = dict(category="exploration",
           text="Runtime differential monitor: a real evhttp_connection (ASan+UBSan build) queues 1-3 requests against a scripted raw-socket peer that "
                "plays generated valid/adversarial response streams under 4-6 segmentations, with peer close at the end or at random bytes; each "
                "completion callback (status, reason, version, fields, body, or failure) is compared with an independent RFC 9112 reference parser "
                "(tri-state), and all segmentations must agree. Held-on-observed over the generated scripts, not a proof.",
           note="trusts lib/ref/http9112.py and the harness' quiescence detection; only the first connection is served (reconnects are accepted and "
                "closed); requests after a connection-closing response are not judged; genuine deviations are listed in known_findings.d/C24.json",
           technique="differential oracle (own RFC 9112 parser) + metamorphic segmentation-independence + truncation at random bytes, sanitizers live")


def catalogue():
    R = []
    ok = b"HTTP/1.1 200 OK\r\n"
    G = [b"GET"]
    R.append(("cl", G, ok + b"Content-Length: 5\r\n\r\nhello", None))
    R.append(("cl-then-next", [b"GET", b"GET"], ok + b"Content-Length: 5\r\n\r\nhelloHTTP/1.1 404 Not Found\r\nContent-Length: 2\r\n\r\nno", None))
    R.append(("head", [b"HEAD", b"GET"], ok + b"Content-Length: 5\r\n\r\nHTTP/1.1 404 Not Found\r\nContent-Length: 2\r\n\r\nno", None))
    R.append(("head-chunked", [b"HEAD", b"GET"], ok + b"Transfer-Encoding: chunked\r\n\r\nHTTP/1.1 404 Not Found\r\nContent-Length: 2\r\n\r\nno", None))
    R.append(("204", [b"GET", b"GET"], b"HTTP/1.1 204 No Content\r\nContent-Length: 5\r\n\r\nHTTP/1.1 200 OK\r\nContent-Length: 2\r\n\r\nhi", None))
    R.append(("304", [b"GET", b"GET"], b"HTTP/1.1 304 Not Modified\r\nContent-Length: 5\r\nETag: \"x\"\r\n\r\nHTTP/1.1 200 OK\r\nContent-Length: 2\r\n\r\nhi", None))
    R.append(("interim-100", G, b"HTTP/1.1 100 Continue\r\n\r\n" + ok + b"Content-Length: 2\r\n\r\nhi", None))
    R.append(("interim-100-hdr", G, b"HTTP/1.1 100 Continue\r\nX-I: 1\r\n\r\n" + ok + b"Content-Length: 2\r\n\r\nhi", None))
    R.append(("interim-103", G, b"HTTP/1.1 103 Early Hints\r\nLink: </s.css>; rel=preload\r\n\r\n" + ok + b"Content-Length: 2\r\n\r\nhi", None))
    R.append(("interim-102", G, b"HTTP/1.1 102 Processing\r\n\r\n" + ok + b"Content-Length: 2\r\n\r\nhi", None))
    R.append(("interim-two", G, b"HTTP/1.1 100 Continue\r\n\r\nHTTP/1.1 103 Early Hints\r\nLink: x\r\n\r\n" + ok + b"Content-Length: 2\r\n\r\nhi", None))
    R.append(("chunked", [b"GET", b"GET"], ok + b"Transfer-Encoding: chunked\r\n\r\n5\r\nhello\r\n6\r\n world\r\n0\r\n\r\n" + ok + b"Content-Length: 1\r\n\r\nx", None))
    R.append(("chunk-ext", G, ok + b"Transfer-Encoding: chunked\r\n\r\n5;ext=1\r\nhello\r\n0\r\n\r\n", None))
    R.append(("chunk-trailers", G, ok + b"Transfer-Encoding: chunked\r\n\r\n5\r\nhello\r\n0\r\nX-T: 1\r\n\r\n", None))
    R.append(("chunk-bad-size", G, ok + b"Transfer-Encoding: chunked\r\n\r\nxyz\r\nhello\r\n0\r\n\r\n", None))
    R.append(("close-delimited", G, ok + b"\r\nhello world", 'X'))
    R.append(("close-delimited-fin", G, ok + b"Server: s\r\n\r\nhello world", 'F'))
    R.append(("close-delimited-open", G, ok + b"\r\nhello world", None))
    R.append(("close-delimited-keepalive", G, ok + b"Connection: keep-alive\r\n\r\nhello world", 'X'))
    R.append(("http10", G, b"HTTP/1.0 200 OK\r\n\r\nold body", 'X'))
    R.append(("http10-cl", [b"GET", b"GET"], b"HTTP/1.0 200 OK\r\nContent-Length: 3\r\nConnection: keep-alive\r\n\r\nabc" + ok + b"Content-Length: 1\r\n\r\nx", None))
    R.append(("conn-close", [b"GET", b"GET"], ok + b"Connection: close\r\nContent-Length: 2\r\n\r\nhi" + ok + b"Content-Length: 2\r\n\r\nyo", None))
    R.append(("cl-truncated", G, ok + b"Content-Length: 50\r\n\r\nhello", 'X'))
    R.append(("chunk-truncated", G, ok + b"Transfer-Encoding: chunked\r\n\r\n5\r\nhello\r\n", 'X'))
    R.append(("hdr-truncated", G, ok + b"Content-Length: 5\r\n", 'X'))
    R.append(("empty-close", G, b"", 'X'))
    R.append(("cl-conflict", G, ok + b"Content-Length: 3\r\nContent-Length: 5\r\n\r\nhello", None))
    R.append(("cl-plus", G, ok + b"Content-Length: +5\r\n\r\nhello", None))
    R.append(("cl-minus-zero", G, ok + b"Content-Length: -0\r\n\r\n", None))
    R.append(("cl-junk", G, ok + b"Content-Length: 5x\r\n\r\nhello", None))
    R.append(("cl-second-bad", G, ok + b"Content-Length: 5\r\nContent-Length: abc\r\n\r\nhello", None))
    R.append(("cl-nul", G, ok + b"Content-Length: 5\x00junk\r\n\r\nhello", None))
    R.append(("te-two-hdrs", G, ok + b"Transfer-Encoding: gzip\r\nTransfer-Encoding: chunked\r\n\r\n5\r\nhello\r\n0\r\n\r\n", 'X'))
    R.append(("te-tab-open", G, ok + b"Transfer-Encoding:\tchunked\r\n\r\n5\r\nhello\r\n0\r\n\r\n", None))
    R.append(("no-length-conn-te", G, ok + b"Connection: TE\r\n\r\nhello world", 'X'))
    R.append(("no-length-keepalive-open", G, ok + b"Connection: keep-alive\r\n\r\nhello world", None))
    R.append(("bare-cr-value", G, ok + b"X-Cr: a\r b\r\nContent-Length: 0\r\n\r\n", None))
    R.append(("cl-dup-same", G, ok + b"Content-Length: 5\r\nContent-Length: 5\r\n\r\nhello", None))
    R.append(("ws-colon-cl", G, ok + b"Content-Length : 5\r\n\r\nhello", 'X'))
    R.append(("te-and-cl", G, ok + b"Content-Length: 3\r\nTransfer-Encoding: chunked\r\n\r\n5\r\nhello\r\n0\r\n\r\n", None))
    R.append(("te-gzip-chunked", G, ok + b"Transfer-Encoding: gzip, chunked\r\n\r\n5\r\nhello\r\n0\r\n\r\n", 'X'))
    R.append(("te-gzip", G, ok + b"Transfer-Encoding: gzip\r\n\r\nrawbody", 'X'))
    R.append(("te-gzip-cl", G, ok + b"Transfer-Encoding: gzip\r\nContent-Length: 3\r\n\r\nhello", 'X'))
    R.append(("te-tab", G, ok + b"Transfer-Encoding:\tchunked\r\n\r\n5\r\nhello\r\n0\r\n\r\n", 'X'))
    R.append(("te-case", G, ok + b"transfer-encoding: CHUNKED\r\n\r\n5\r\nhello\r\n0\r\n\r\n", None))
    R.append(("connect-200", [b"CONNECT"], b"HTTP/1.1 200 Connection established\r\n\r\ntunnel bytes", None))
    R.append(("connect-403", [b"CONNECT", b"GET"], b"HTTP/1.1 403 Forbidden\r\nContent-Length: 5\r\n\r\nhello" + ok + b"Content-Length: 1\r\n\r\nx", None))
    R.append(("obs-fold", G, ok + b"X-A: one\r\n two\r\nContent-Length: 0\r\n\r\n", None))
    R.append(("htab-value", G, ok + b"X-A:\tv\r\nContent-Length: 0\r\n\r\n", None))
    R.append(("nul-value", G, ok + b"X-A: a\x00b\r\nContent-Length: 0\r\n\r\n", None))
    R.append(("no-reason", G, b"HTTP/1.1 200 \r\nContent-Length: 0\r\n\r\n", None))
    R.append(("no-reason-no-sp", G, b"HTTP/1.1 200\r\nContent-Length: 0\r\n\r\n", None))
    R.append(("reason-odd", G, b"HTTP/1.1 404 Not  Found here\r\nContent-Length: 0\r\n\r\n", None))
    R.append(("bare-lf", G, b"HTTP/1.1 200 OK\nContent-Length: 2\n\nhi", None))
    R.append(("junk-after", G, ok + b"Content-Length: 2\r\n\r\nhiJUNKJUNK", None))
    R.append(("junk-after-2", [b"GET", b"GET"], ok + b"Content-Length: 2\r\n\r\nhiJUNK\r\n\r\n", None))
    R.append(("status-999", G, b"HTTP/1.1 999 Max\r\nContent-Length: 2\r\n\r\nhi", None))
    R.append(("bad-status", G, b"HTTP/1.1 abc OK\r\nContent-Length: 2\r\n\r\nhi", None))
    return R


VALID_TAGS = ('none', 'head', 'status-204', 'interim-100', 'interim-103', 'chunk-ext', 'trailers', 'close-delimited', 'conn-close')


def iter_cases(tier, seed):
    rng = random.Random((seed << 8) ^ 0xC24)
    idx = 0
    thorough = (tier == "thorough")
    for name, reqs, data, end in catalogue():
        c = ho.Case(idx, 'C', data, "-", end=end, requests=reqs, tags=["cat:" + name])
        c.segs = gen.segmentations(rng, data, thorough=thorough)
        yield c
        idx += 1
    valid_pool = []
    nt = 0
    nmain = 0
    every = max(1, SIZES[tier] // TRUNC[tier])
    while nmain < SIZES[tier] or nt < TRUNC[tier]:
        if nmain < SIZES[tier]:
            g = gen.gen_response_case(rng)
            c = ho.Case(idx, 'C', g["data"], "-", end=g["end"], requests=g["requests"], tags=g["tags"])
            c.segs = gen.segmentations(rng, c.data, thorough=thorough)
            yield c
            idx += 1
            nmain += 1
            if all(t in VALID_TAGS for t in g["tags"]) and len(g["data"]) >= 2:
                valid_pool.append(g)
                if len(valid_pool) > 500:
                    valid_pool.pop(rng.randrange(len(valid_pool)))
        # truncation family: the peer closes at byte i of an otherwise valid stream
        if valid_pool and nt < TRUNC[tier] and (nmain % every == 0 or nmain >= SIZES[tier]):
            g = rng.choice(valid_pool)
            cut = rng.randrange(0, len(g["data"]) + 1)
            c = ho.Case(idx, 'C', g["data"][:cut], "-", end=rng.choice(['X', 'X', 'F']), requests=g["requests"], tags=["truncation"])
            k = rng.randrange(1, max(2, len(c.data)))
            c.segs = [('one', [c.data] if c.data else []), ('rand', gen.split_at(c.data, [k]) if c.data else [])]
            if thorough or rng.random() < 0.3:
                if len(c.data) <= 400:
                    c.segs.append(('byte', [c.data[i:i + 1] for i in range(len(c.data))]))
                else:
                    c.segs.append(('struct', gen.split_at(c.data, gen.structural_cuts(c.data))))
            yield c
            idx += 1
            nt += 1
        elif not valid_pool and nmain >= SIZES[tier]:
            break


def build_cases(tier, seed):
    return list(iter_cases(tier, seed))


def judge_case(c, res):
    viol = []
    stats = {}
    seen = set()
    for name, _ in c.segs:
        r = c.results.get(name)
        if r is None:
            continue
        for k, t in ho.judge_client_result(PROP, c, r, stats if name == 'one' else {}):
            if k not in seen:
                seen.add(k)
                viol.append((k, "[segmentation %s] %s" % (name, t)))
    ho.judge_metamorphic(PROP, c, lambda r: ho.client_signature(r, len(c.requests)), viol, res)
    for k, v in stats.items():
        res.add_stat(k, v)
    return viol


def account(c, res):
    closed = c.end in ('X', 'F')
    m0 = ref.parse_response(c.data, 0, c.requests[0], closed)
    if m0.verdict in ('accept', 'either', 'reject') or (m0.verdict == 'incomplete' and closed):
        res.hashes.add(ho.stream_hash(c))
    for t in set(c.tags):
        res.add_stat("gen_" + t.replace(":", "_"), 1)
    r1 = c.results.get('one')
    obs = ho.client_observed(r1, len(c.requests))
    for o in obs:
        res.add_stat("request_" + o["kind"], 1)
        if o["kind"] == 'delivered':
            res.add_stat("delivered_%dxx" % (o["code"] // 100), 1)
    res.add_stat("peer_end_%s" % (c.end or "open"), 1)
    res.add_stat("reconnects_seen", r1.get("reconn", 0))
    res.add_stat("scripts", 1)
    res.add_stat("segmentations_run", len(c.results))
    if len(res.samples) < 5 and (c.idx % 131 == 7 or c.idx < 2):
        res.samples.append(dict(requests=[m.decode() for m in c.requests], stream=ho.short(c.data, 300), end=c.end, segmentations=[n for n, _ in c.segs],
                                observed=[ho.describe_obs(o) for o in obs]))


def run(tier, seed):
    res = vlib.Result(PROP)
    vlib.build(ho.FLAVOR, [ho.HARNESS])
    ho.run_batched(res, PROP, iter_cases(tier, seed), tier, BATCH, judge_case, account)
    return vlib.finish(res, tier, seed, RULE,
                       required=["scripts", "request_delivered", "request_failed", "request_pending", "ref_accept", "ref_reject", "ref_either", "ref_incomplete",
                                 "rejected_as_required", "delivered_judged", "gen_truncation", "peer_end_X", "peer_end_F", "peer_end_open", "delivered_2xx"],
                       assumptions=["RFC 9112/9110 MUST-level rules only; MAY/SHOULD accept either outcome", "loopback TCP, virtual clock, first connection only"])


def replay(info):
    return ho.generic_replay(info, judge_case)
