"""C23 evhttp server request framing/parsing vs an RFC 9112 reference parser (DESIGN §3 C23).

Streams: a directed catalogue (one stream per rule of ref/http9112.py) + grammar-generated pipelines
(gen/httpgen.py).  Every stream is delivered under >=4 segmentations (one-shot, byte-at-a-time, at every
structural boundary, random cuts; thorough adds two more) to a fresh evhttp through a raw loopback socket
(harness/h_http.c).  Oracles: (1) the list of requests handed to the generic callback equals the reference
parse up to the first message the RFC requires to reject (tri-state: MAY/SHOULD => either outcome),
(2) all segmentations of one stream give identical requests, responses and close behaviour."""
import os, random
import vlib
from ref import http9112 as ref
from ref import httporacle as ho
from gen import httpgen as gen

PROP = "C23"
RULE = ("request streams (directed catalogue + grammar pipelines of 1-4 messages with at most one deviation each + byte mutations), each "
        "executed under 4 (quick) / 6 (thorough) segmentations against a fresh evhttp; non-trivial = the reference parser finds at least one "
        "complete message or a must-reject message in the stream; distinct = hash of (options, stream bytes)")
SIZES = dict(quick=1100, thorough=55000)
# VERIF_THOROUGH_DIV=n divides the thorough case counts (to try the thorough command on a loaded machine); default 1
_DIV = max(1, int(os.environ.get("VERIF_THOROUGH_DIV", "1") or "1"))
SIZES["thorough"] = max(SIZES["quick"], SIZES["thorough"] // _DIV)
BATCH = 4000

REG = dict(category="exploration",
           text="Runtime differential monitor: generated valid/adversarial HTTP/1.x request pipelines are sent over loopback to the real evhttp "
                "(ASan+UBSan build) under 4-6 segmentations each; every request object handed to the callback (method, raw target, version, "
                "fields in order, body) is compared with an independent RFC 9112 reference parser (tri-state must-accept / must-reject / either), "
                "and all segmentations must agree. Held-on-observed over the generated streams, not a proof.",
           note="trusts lib/ref/http9112.py (RFC text, MUST-level rules only) and the harness' quiescence detection; targets restricted to RFC 3986 "
                "characters for must-accept; genuine deviations of the tree are listed in known_findings.d/C23.json with one key per rule",
           technique="differential oracle (own RFC 9112 parser) + metamorphic segmentation-independence over grammar-generated streams, sanitizers live")


def catalogue():
    """Directed streams: one or more per rule, so that every run witnesses every rule regardless of the seed."""
    R = []
    post = b"POST /p HTTP/1.1\r\nHost: h\r\n"
    nxt = b"GET /next HTTP/1.1\r\nHost: h\r\n\r\n"
    R.append(("plain-get", b"GET / HTTP/1.1\r\nHost: h\r\n\r\n"))
    R.append(("pipeline", b"GET /1 HTTP/1.1\r\n\r\n" + post + b"Content-Length: 3\r\n\r\nabc" + nxt))
    R.append(("cl-conflict", post + b"Content-Length: 3\r\nContent-Length: 5\r\n\r\nabcde" + nxt))
    R.append(("cl-conflict-rev", post + b"Content-Length: 5\r\nContent-Length: 3\r\n\r\nabcde" + nxt))
    R.append(("cl-list-diff", post + b"Content-Length: 3, 5\r\n\r\nabcde" + nxt))
    R.append(("cl-dup-same", post + b"Content-Length: 5\r\nContent-Length: 5\r\n\r\nabcde" + nxt))
    R.append(("cl-plus", post + b"Content-Length: +5\r\n\r\nabcde" + nxt))
    R.append(("cl-minus-zero", post + b"Content-Length: -0\r\n\r\n" + nxt))
    R.append(("cl-minus", post + b"Content-Length: -5\r\n\r\nabcde"))
    R.append(("cl-junk", post + b"Content-Length: 5x\r\n\r\nabcde"))
    R.append(("cl-second-bad", post + b"Content-Length: 5\r\nContent-Length: abc\r\n\r\nabcde" + nxt))
    R.append(("cl-nul", post + b"Content-Length: 5\x00junk\r\n\r\nabcde" + nxt))
    R.append(("cl-tab", post + b"Content-Length:\t5\r\n\r\nabcde" + nxt))
    R.append(("cl-fold", post + b"Content-Length: 5\r\n 1\r\n\r\nabcde" + nxt))
    R.append(("ws-colon-cl", post + b"Content-Length : 5\r\n\r\nabcde" + nxt))
    R.append(("ws-colon-te", post + b"Transfer-Encoding : chunked\r\n\r\n5\r\nabcde\r\n0\r\n\r\n" + nxt))
    R.append(("ws-colon-x", b"GET / HTTP/1.1\r\nX-A : v\r\n\r\n"))
    R.append(("tab-colon-x", b"GET / HTTP/1.1\r\nX-A\t: v\r\n\r\n"))
    R.append(("te-gzip-chunked", post + b"Transfer-Encoding: gzip, chunked\r\n\r\n5\r\nabcde\r\n0\r\n\r\n" + nxt))
    R.append(("te-two-hdrs", post + b"Transfer-Encoding: gzip\r\nTransfer-Encoding: chunked\r\n\r\n5\r\nabcde\r\n0\r\n\r\n" + nxt))
    R.append(("te-chunked-gzip", post + b"Transfer-Encoding: chunked, gzip\r\n\r\n5\r\nabcde\r\n0\r\n\r\n" + nxt))
    R.append(("te-gzip", post + b"Transfer-Encoding: gzip\r\n\r\nabcde"))
    R.append(("te-gzip-cl", post + b"Transfer-Encoding: gzip\r\nContent-Length: 5\r\n\r\nabcde" + nxt))
    R.append(("te-tab", post + b"Transfer-Encoding:\tchunked\r\n\r\n5\r\nabcde\r\n0\r\n\r\n" + nxt))
    R.append(("te-case", post + b"transfer-encoding: CHUNKED\r\n\r\n5\r\nabcde\r\n0\r\n\r\n" + nxt))
    R.append(("te-and-cl", post + b"Content-Length: 3\r\nTransfer-Encoding: chunked\r\n\r\n5\r\nabcde\r\n0\r\n\r\n" + nxt))
    R.append(("chunk-ext", post + b"Transfer-Encoding: chunked\r\n\r\n5;ext=1\r\nabcde\r\n0\r\n\r\n" + nxt))
    R.append(("chunk-ext-q", post + b"Transfer-Encoding: chunked\r\n\r\n5;a=\"b c\";d\r\nabcde\r\n0;last\r\n\r\n" + nxt))
    R.append(("chunk-ext-bws", post + b"Transfer-Encoding: chunked\r\n\r\n5 ;a=b\r\nabcde\r\n0\r\n\r\n" + nxt))
    R.append(("chunk-upper-zero", post + b"Transfer-Encoding: chunked\r\n\r\n00A\r\n0123456789\r\n1\r\nx\r\n000\r\n\r\n" + nxt))
    R.append(("chunk-trailers", post + b"Transfer-Encoding: chunked\r\n\r\n5\r\nabcde\r\n0\r\nX-T: 1\r\nX-U: 2\r\n\r\n" + nxt))
    R.append(("chunk-trailer-cl", post + b"Transfer-Encoding: chunked\r\n\r\n5\r\nabcde\r\n0\r\nContent-Length: 100\r\n\r\n" + nxt))
    R.append(("chunk-bad-size", post + b"Transfer-Encoding: chunked\r\n\r\nxyz\r\nabcde\r\n0\r\n\r\n"))
    R.append(("chunk-plus-size", post + b"Transfer-Encoding: chunked\r\n\r\n+5\r\nabcde\r\n0\r\n\r\n"))
    R.append(("chunk-0x-size", post + b"Transfer-Encoding: chunked\r\n\r\n0x5\r\nabcde\r\n0\r\n\r\n"))
    R.append(("chunk-huge-size", post + b"Transfer-Encoding: chunked\r\n\r\n10000000000000005\r\nabcde\r\n0\r\n\r\n" + nxt))
    R.append(("chunk-huge-size2", post + b"Transfer-Encoding: chunked\r\n\r\nffffffffffffffff\r\nabcde\r\n0\r\n\r\n" + nxt))
    R.append(("head-cl", b"HEAD /h HTTP/1.1\r\nContent-Length: 5\r\n\r\nabcde" + nxt))
    R.append(("trace-cl", b"TRACE /t HTTP/1.1\r\nContent-Length: 5\r\n\r\nabcde" + nxt))
    R.append(("get-cl", b"GET /g HTTP/1.1\r\nContent-Length: 5\r\n\r\nabcde" + nxt))
    R.append(("get-chunked", b"GET /g HTTP/1.1\r\nTransfer-Encoding: chunked\r\n\r\n5\r\nabcde\r\n0\r\n\r\n" + nxt))
    R.append(("obs-fold", b"GET / HTTP/1.1\r\nX-A: one\r\n two\r\n\tthree\r\nX-B: b\r\n\r\n" + nxt))
    R.append(("leading-fold", b"GET / HTTP/1.1\r\n X-A: one\r\nX-B: b\r\n\r\n"))
    R.append(("htab-value", b"GET / HTTP/1.1\r\nX-A:\tv\r\nX-B: \t w \t\r\n\r\n" + nxt))
    R.append(("nul-value", b"GET / HTTP/1.1\r\nX-A: a\x00b\r\n\r\n" + nxt))
    R.append(("bare-cr-value", b"GET / HTTP/1.1\r\nX-A: a\r b\r\n\r\n" + nxt))
    R.append(("bare-lf", b"GET /lf HTTP/1.1\nHost: h\n\n" + nxt))
    R.append(("leading-crlf", b"\r\nGET /lead HTTP/1.1\r\n\r\n"))
    R.append(("http10", b"GET /old HTTP/1.0\r\n\r\n" + nxt))
    R.append(("http10-ka", b"GET /old HTTP/1.0\r\nConnection: keep-alive\r\n\r\n" + nxt))
    R.append(("conn-close", b"GET /c HTTP/1.1\r\nConnection: close\r\n\r\n" + nxt))
    R.append(("expect-100", post + b"Expect: 100-continue\r\nContent-Length: 5\r\n\r\nabcde" + nxt))
    R.append(("expect-other", post + b"Expect: x\r\nContent-Length: 5\r\n\r\nabcde" + nxt))
    R.append(("ext-method", b"PURGE /x HTTP/1.1\r\nContent-Length: 5\r\n\r\nabcde" + nxt))
    R.append(("connect", b"CONNECT example.com:443 HTTP/1.1\r\nHost: example.com:443\r\n\r\n"))
    R.append(("options-star", b"OPTIONS * HTTP/1.1\r\nHost: h\r\n\r\n" + nxt))
    R.append(("absolute-form", b"GET http://example.com/a?b=c HTTP/1.1\r\nHost: example.com\r\n\r\n" + nxt))
    R.append(("empty-value", b"GET / HTTP/1.1\r\nX-Empty:\r\nX-Sp:   \r\nX-Last: z\r\n\r\n" + nxt))
    R.append(("dup-fields", b"GET / HTTP/1.1\r\nX-A: 1\r\nx-a: 2\r\nX-A: 3\r\n\r\n"))
    R.append(("eight-bit", b"GET / HTTP/1.1\r\nX-A: caf\xe9 \xff\r\n\r\n" + nxt))
    R.append(("incomplete-cl", post + b"Content-Length: 10\r\n\r\nabc"))
    R.append(("incomplete-chunk", post + b"Transfer-Encoding: chunked\r\n\r\n5\r\nabc"))
    R.append(("incomplete-headers", b"GET / HTTP/1.1\r\nHost: h\r\n"))
    R.append(("all-methods", b"".join(m + b" /m HTTP/1.1\r\n\r\n" for m in [b"GET", b"PUT", b"DELETE", b"OPTIONS", b"PATCH", b"PROPFIND", b"PROPPATCH", b"MKCOL", b"LOCK", b"UNLOCK", b"COPY", b"MOVE"])))
    return R


def iter_cases(tier, seed):
    rng = random.Random((seed << 8) ^ 0xC23)
    n = SIZES[tier]
    thorough = (tier == "thorough")
    idx = 0
    for name, data in catalogue():
        for ext in (0, 1):
            c = ho.Case(idx, 'S', data, "ext=%d" % ext, tags=["cat:" + name], cfg=dict(ext=ext))
            c.segs = gen.segmentations(rng, c.data, thorough=thorough)
            yield c
            idx += 1
    while idx < n:
        data, tags = gen.gen_request_stream(rng)
        ext = 1 if rng.random() < 0.5 else 0
        c = ho.Case(idx, 'S', data, "ext=%d" % ext, tags=tags, cfg=dict(ext=ext))
        c.segs = gen.segmentations(rng, c.data, thorough=thorough)
        yield c
        idx += 1


def build_cases(tier, seed):
    return list(iter_cases(tier, seed))


def judge_case(c, res):
    viol = []
    stats = {}
    seen = set()
    for name, _ in c.segs:
        r = c.results.get(name)
        if r is None:
            continue
        for k, t in ho.judge_server_result(PROP, c.data, r, c.cfg.get("ext", 0), stats if name == 'one' else {}):
            if k not in seen:
                seen.add(k)
                viol.append((k, "[segmentation %s] %s" % (name, t)))
    ho.judge_metamorphic(PROP, c, ho.server_signature, viol, res)
    for k, v in stats.items():
        res.add_stat(k, v)
    return viol


def account(c, res):
    msgs = ref.parse_request_stream(c.data)
    if any(m.verdict in ('accept', 'either', 'reject') for m in msgs):
        res.hashes.add(ho.stream_hash(c))
    for t in set(c.tags):
        res.add_stat("gen_" + t.replace(":", "_"), 1)
    r1 = c.results.get('one')
    res.add_stat("requests_delivered", len(r1["reqs"]))
    res.add_stat("server_closed_before_fin", 1 if r1["closed_before_fin"] else 0)
    for s in ho.out_statuses(r1["out"]):
        res.add_stat("status_%s" % (s if s in (100, 200, 400, 413, 417, 501) else "other"), 1)
    res.add_stat("streams", 1)
    res.add_stat("segmentations_run", len(c.results))
    if len(res.samples) < 5 and (c.idx % 97 == 5 or c.idx < 2):
        res.samples.append(dict(stream=ho.short(c.data, 300), opts=c.opts, segmentations=[n for n, _ in c.segs],
                                delivered=[ho.describe_req(q) for q in r1["reqs"]], statuses=ho.out_statuses(r1["out"])))


def run(tier, seed):
    res = vlib.Result(PROP)
    vlib.build(ho.FLAVOR, [ho.HARNESS])
    ho.run_batched(res, PROP, iter_cases(tier, seed), tier, BATCH, judge_case, account)
    return vlib.finish(res, tier, seed, RULE,
                       required=["streams", "requests_delivered", "ref_accept", "ref_reject", "ref_either", "ref_incomplete", "rejected_as_required",
                                 "delivered_judged", "server_closed_before_fin", "status_400", "status_200"],
                       assumptions=["RFC 9112/9110 MUST-level rules only; MAY/SHOULD accept either outcome", "loopback TCP, virtual clock, one connection per stream"])


def replay(info):
    return ho.generic_replay(info, judge_case)
