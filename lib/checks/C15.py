"""C15 references, buffer references and file segments: bytes delivered exactly, cleanup exactly once and not early,
referenced memory never modified (DESIGN §3 C15).  Generator, model and oracle are in harness/h_evbufio.c (--mode refs)."""
from checks import generic

RULE = ("random histories (8-70 ops quick, 8-120 thorough) over 4 evbuffers mixing add_reference(_with_offset), add_buffer_reference, "
        "file segments in sendfile/mmap/read modes with every EVBUF_FS_* flag, evbuffer_add_file, moves, partial drains, pullups, "
        "copyout/remove/peek, evbuffer_write to a socketpair/pipe and frees in random order, against a per-byte model "
        "(expected value + zero-copy chain instance); a case counts as non-trivial when it created at least 2 reference/segment "
        "objects and finished without aborting; distinct = hash of the executed op trace (op codes + parameters)")

STEPS = [
    dict(flavor="asan", harness="h_evbufio", args=["--mode", "refs", "--n1", "0"], cases=dict(quick=1100, thorough=22000)),
    dict(flavor="asan", harness="h_evbufio", args=["--mode", "refs", "--n1", "1"], cases=dict(quick=400, thorough=8000), seed_off=101),
]
REQUIRED = ["op_add_reference", "op_add_reference_with_offset", "op_add_buffer_reference", "reference_chain_multicast",
            "op_add_file_segment", "op_add_file", "segs_sendfile_capable", "segs_mmap", "segs_read", "segs_close_on_free",
            "segs_disable_locking", "segs_len_minus1", "segment_added_more_than_once", "sendfile_chains_added",
            "zero_copy_bytes_sent_sendfile", "zero_copy_bytes_sent_iovec", "zero_copy_chain_pulled_up",
            "zero_copy_chain_partially_drained", "zero_copy_chain_moved", "zero_copy_chain_cut_by_move",
            "op_copyout", "op_remove", "op_pullup", "op_peek", "op_write", "op_free_nonempty_buffer",
            "cleanups_ref", "cleanups_seg", "cleanups_addfile", "refs_cleaned_exactly_once", "segs_cleaned_exactly_once",
            "refs_readonly_mapped", "pullup_on_shared_chains", "content_checks"]

REG = dict(
    category="exploration",
    text="Runtime model check: ~1500 (quick) / ~30000 (thorough) random histories of reference / buffer-reference / file-segment "
         "operations on 4 evbuffers under ASan+UBSan+LSan; after every call each readable buffer is copied out and compared with a "
         "per-byte model, every buffer's chain invariants are walked, reference blocks are compared with a pristine copy (a quarter are "
         "read-only mappings ending at a guard page), cleanup callbacks / fd closes are counted and must not run while the model still "
         "holds a dependent byte in a live buffer; blocks are poisoned and freed inside the cleanup callback. Sampling, not a proof.",
    note="trusts the per-byte model in harness/h_evbufio.c; memory read paths are only applied where the docs define them (not on "
         "DRAINS_TO_FD buffers, sendfile-capable segments or evbuffer_add_file data, which are verified through evbuffer_write only); "
         "buffers holding buffer-reference chains are never the source of a move (docs); zero-length file ranges are not exercised; "
         "lock anomalies seen with lockmon are only counted",
    technique="model-based runtime oracle + sanitizers over generated op histories")


def run(tier, seed):
    return generic.run_spec("C15", tier, seed, STEPS, RULE, required=REQUIRED,
                            assumptions=["histories are sampled, not enumerated", "single-threaded; the locking variant only checks that locked buffers/segments behave the same"])
