"""Shared driver code for /verif/bin/vcheck: builds, shard running, result
parsing, sanitizer-report keys, known-findings matching, evidence writing."""
import json, os, re, struct, subprocess, sys, time, hashlib, shutil, fnmatch
from concurrent.futures import ThreadPoolExecutor

VERIF = os.path.dirname(os.path.dirname(os.path.abspath(__file__)))
REPO = os.environ.get("VERIF_REPO", "/repo")
BUILD = os.environ.get("VERIF_BUILD") or os.path.join(VERIF, ".build")
EVIDENCE_DIR = os.environ.get("VERIF_EVIDENCE_DIR") or os.path.join(VERIF, "evidence")
NCPU = int(os.environ.get("VERIF_JOBS", "16"))


def log(*a):
    print(*a, file=sys.stderr, flush=True)


# ----------------------------------------------------------------- builds
def ensure_cfg():
    inc = os.path.join(BUILD, "cfg", "include")
    if os.path.exists(os.path.join(inc, "event2", "event-config.h")) and \
       os.path.exists(os.path.join(inc, "evconfig-private.h")):
        return
    os.makedirs(os.path.join(BUILD, "cfg"), exist_ok=True)
    cmd = ["cmake", "-G", "Ninja", REPO, "-DEVENT__DISABLE_TESTS=ON", "-DEVENT__DISABLE_SAMPLES=ON",
           "-DEVENT__DISABLE_BENCHMARK=ON", "-DEVENT__DISABLE_REGRESS=ON", "-DEVENT__LIBRARY_TYPE=STATIC"]
    r = subprocess.run(cmd, cwd=os.path.join(BUILD, "cfg"), stdout=subprocess.PIPE, stderr=subprocess.STDOUT, text=True)
    if r.returncode != 0:
        alt = os.path.join(REPO, "_build", "include")
        if os.path.exists(os.path.join(alt, "event2", "event-config.h")):
            log("vlib: cmake configure failed; using headers from", alt)
            shutil.copytree(alt, inc, dirs_exist_ok=True)
            return
        log(r.stdout[-3000:])
        raise SystemExit(2)


def build(flavor, harnesses):
    ensure_cfg()
    t0 = time.time()
    cmd = ["make", "-C", os.path.join(VERIF, "mk"), "-j%d" % NCPU, "FLAVOR=" + flavor, "REPO=" + REPO,
           "VERIF=" + VERIF, "BUILDROOT=" + BUILD] + list(harnesses)
    import fcntl
    os.makedirs(BUILD, exist_ok=True)
    with open(os.path.join(BUILD, ".lock-" + flavor), "w") as lk:
        fcntl.flock(lk, fcntl.LOCK_EX)   # concurrent checks share the library objects
        r = subprocess.run(cmd, stdout=subprocess.PIPE, stderr=subprocess.STDOUT, text=True)
    if r.returncode != 0:
        log(r.stdout[-6000:])
        log("vlib: BUILD FAILED flavor=%s targets=%s" % (flavor, harnesses))
        raise SystemExit(2)
    log("vlib: build %s %s ok (%.1fs)" % (flavor, " ".join(harnesses), time.time() - t0))
    return [os.path.join(BUILD, flavor, h) for h in harnesses]


# ----------------------------------------------------------------- findings
class Findings:
    def __init__(self):
        import glob
        self.entries = []
        for p in [os.path.join(VERIF, "known_findings.json")] + sorted(glob.glob(os.path.join(VERIF, "known_findings.d", "*.json"))):
            if os.path.exists(p):
                self.entries += json.load(open(p)).get("findings", [])

    def match(self, prop, key):
        """returns the `known` entry matching this violation key, else None.
        `fixed` entries never suppress anything."""
        for e in self.entries:
            if e.get("property") != prop or e.get("status") != "known":
                continue
            if key == e["key"] or fnmatch.fnmatchcase(key, e["key"]):
                return e
        return None


# ----------------------------------------------------------------- sanitizer report keys
# ASan/UBSan: "#0 0xADDR in func file:line"; gcc TSan: "#0 func file:line (module+0xOFF)"
_FRAME = re.compile(r"^\s*#(\d+)\s+(?:0x[0-9a-f]+\s+in\s+)?(\S+)\s+(\S+)")


def _repo_frames(lines, limit=3):
    out = []
    for ln in lines:
        m = _FRAME.match(ln)
        if not m:
            if out and not ln.strip():
                break
            continue
        fn, loc = m.group(2), m.group(3)
        if loc.startswith(REPO + "/") or "/repo/" in loc:
            f = os.path.basename(loc.split(":")[0])
            out.append("%s@%s" % (fn, f))
            if len(out) >= limit:
                break
    return out


def sanitizer_keys(stderr_text):
    """Extract stable keys for sanitizer / assertion / crash reports."""
    keys = []
    lines = stderr_text.splitlines()
    for i, ln in enumerate(lines):
        m = re.search(r"ERROR: AddressSanitizer: (\S+)", ln)
        if m:
            fr = _repo_frames(lines[i + 1:i + 60])
            keys.append(("asan:%s:%s" % (m.group(1), ",".join(fr) or "?"), "\n".join(lines[i:i + 40])))
            continue
        m = re.search(r"ERROR: LeakSanitizer: detected memory leaks", ln)
        if m:
            # one key per leak block (first repo frames of each)
            j = i + 1
            seen = set()
            while j < len(lines):
                if re.match(r"^(Direct|Indirect) leak of", lines[j]):
                    fr = _repo_frames(lines[j + 1:j + 40], 2)
                    k = "lsan:%s" % (",".join(fr) or "?")
                    if k not in seen and lines[j].startswith("Direct"):
                        seen.add(k)
                        keys.append((k, "\n".join(lines[j:j + 14])))
                j += 1
            if not seen:
                # only indirect leaks (the lost objects reference each other): key them by the first block's allocation site
                j = i + 1
                while j < len(lines) and not seen:
                    if re.match(r"^Indirect leak of", lines[j]):
                        fr = _repo_frames(lines[j + 1:j + 40], 2)
                        if fr:
                            k = "lsan:%s" % ",".join(fr)
                            seen.add(k)
                            keys.append((k, "\n".join(lines[j:j + 14])))
                    j += 1
            if not seen:
                keys.append(("lsan:?", "\n".join(lines[i:i + 30])))
            continue
        m = re.search(r"([\w\-\.]+\.[ch]):(\d+):(\d+): runtime error: (.*)", ln)
        if m:
            msg = re.sub(r"0x[0-9a-f]+|-?\d+", "N", m.group(4))[:80]
            keys.append(("ubsan:%s:%s" % (m.group(1), msg.replace(" ", "_")), ln))
            continue
        m = re.search(r"WARNING: ThreadSanitizer: (.+?) \(pid", ln)
        if m:
            kind = m.group(1).replace(" ", "-")
            # two stacks: collect repo frames of the first two stack blocks
            blk = lines[i + 1:i + 80]
            st = []
            cur = []
            for b in blk:
                fm = _FRAME.match(b)
                if fm:
                    loc = fm.group(3)
                    if "/repo/" in loc or loc.startswith(REPO):
                        cur.append(fm.group(2))
                elif cur:
                    st.append(cur[0]); cur = []
                    if len(st) >= 2:
                        break
                if b.startswith("SUMMARY"):
                    break
            if cur and len(st) < 2:
                st.append(cur[0])
            keys.append(("tsan:%s:%s" % (kind, "+".join(sorted(st)) or "?"), "\n".join(lines[i:i + 50])))
            continue
        m = re.search(r"\[err\] (\S+?):(\d+): Assertion (.*) failed in (\S+)", ln)
        if m:
            cond = re.sub(r"\s+", "", m.group(3))[:60]
            keys.append(("assert:%s:%s:%s" % (os.path.basename(m.group(1)), m.group(4), cond), ln))
            continue
    return keys


# ----------------------------------------------------------------- shard running
class Result:
    def __init__(self, prop):
        self.prop = prop
        self.stats = {}
        self.samples = []
        self.viol = []        # dicts: key, text, replay (dict)
        self.inconclusive = []
        self.hashes = set()
        self.hash_capped = False
        self.evaluations = 0
        self.flavors = set()
        self.t0 = time.time()
        self.extra = {}

    def add_stat(self, k, v):
        self.stats[k] = self.stats.get(k, 0) + v

    def add_viol(self, key, text, replay):
        self.viol.append(dict(key=key, text=text, replay=replay))


def sanitizer_env(flavor, logbase=None):
    env = dict(os.environ)
    env["ASAN_OPTIONS"] = "abort_on_error=1:detect_leaks=1:allocator_may_return_null=1:handle_abort=0:detect_stack_use_after_return=0:malloc_context_size=12"
    env["UBSAN_OPTIONS"] = "print_stacktrace=1:halt_on_error=1:abort_on_error=1"
    env["LSAN_OPTIONS"] = "exitcode=23"
    env["TSAN_OPTIONS"] = "halt_on_error=0:exitcode=66:second_deadlock_stack=1:history_size=4"
    return env


def _run_one(cmd, env, timeout, outdir, tag):
    so = os.path.join(outdir, tag + ".out")
    se = os.path.join(outdir, tag + ".err")
    t0 = time.time()
    with open(so, "wb") as fo, open(se, "wb") as fe:
        try:
            p = subprocess.run(cmd, stdout=fo, stderr=fe, env=env, timeout=timeout, cwd=outdir)
            rc = p.returncode
        except subprocess.TimeoutExpired:
            rc = "timeout"
    return dict(cmd=cmd, rc=rc, out=so, err=se, wall=time.time() - t0, tag=tag)


def run_harness(res, flavor, harness, args, cases, seed, nshards=None, timeout=900, env_extra=None,
                case_arg="--cases", retry_inconclusive=True):
    """Run `cases` cases of one harness mode split over shards; merge into res."""
    exe = os.path.join(BUILD, flavor, harness)
    outdir = workdir(res.prop)
    if nshards is None:
        nshards = min(NCPU, max(1, cases))
    per = (cases + nshards - 1) // nshards
    env = sanitizer_env(flavor)
    if env_extra:
        env.update(env_extra)
    jobs = []
    first = 0
    tagbase = "%s-%s-%s" % (harness, flavor, hashlib.md5(" ".join(map(str, args)).encode()).hexdigest()[:6])
    for s in range(nshards):
        n = min(per, cases - first)
        if n <= 0:
            break
        tag = "%s-%d" % (tagbase, s)
        hf = os.path.join(outdir, tag + ".hash")
        cmd = [exe, "--seed", str(seed), "--first", str(first), case_arg, str(n), "--hashfile", hf] + [str(a) for a in args]
        jobs.append((cmd, tag, hf, first, n))
        first += n
    res.flavors.add(flavor)
    with ThreadPoolExecutor(max_workers=NCPU) as ex:
        outs = list(ex.map(lambda j: _run_one(j[0], env, timeout, outdir, j[1]), jobs))
    for (cmd, tag, hf, first, n), o in zip(jobs, outs):
        if o["rc"] == "timeout" and retry_inconclusive:
            log("vlib: shard %s timed out; re-running once" % tag)
            o = _run_one(cmd, env, timeout * 2, outdir, tag + "-retry")
        _merge(res, flavor, harness, args, seed, o, hf, n)
    return res


def _merge(res, flavor, harness, args, seed, o, hf, ncases):
    out = open(o["out"], "r", errors="replace").read()
    err = open(o["err"], "r", errors="replace").read()
    done = False
    base = dict(flavor=flavor, harness=harness, args=[str(a) for a in args], seed=seed)
    for ln in out.splitlines():
        if ln.startswith("STAT "):
            _, k, v = ln.split(" ", 2)
            try:
                res.add_stat(k, int(v))
            except ValueError:
                pass
        elif ln.startswith("SAMPLE "):
            if len(res.samples) < 6:
                s = ln[7:]
                try:
                    s = json.loads(s)
                except Exception:
                    pass
                res.samples.append(s)
        elif ln.startswith("VIOL "):
            parts = ln.split(" ", 3)
            key = parts[1]
            case = parts[2].split("=", 1)[1] if len(parts) > 2 and "=" in parts[2] else "-1"
            text = parts[3] if len(parts) > 3 else ""
            res.add_viol(key, text, dict(base, only=int(case)))
        elif ln.startswith("EVALS "):
            pass
        elif ln == "DONE":
            done = True
    if os.path.exists(hf):
        data = open(hf, "rb").read()
        n = len(data) // 8
        if n:
            res.hashes.update(struct.unpack("<%dQ" % n, data[:n * 8]))
        if n >= 250000:
            res.hash_capped = True
        os.unlink(hf)
    atcase = -1
    m = re.findall(r"ATCASE (-?\d+)", err)
    if m:
        atcase = int(m[-1])
    keys = sanitizer_keys(err)
    for k, txt in keys:
        res.add_viol(k, txt[:1500], dict(base, only=atcase))
    if o["rc"] == "timeout":
        res.inconclusive.append("timeout: %s" % " ".join(o["cmd"]))
    elif not done and not keys:
        # died without a recognisable report
        if isinstance(o["rc"], int) and o["rc"] < 0:
            res.add_viol("crash:signal%d" % (-o["rc"]), err[-1500:], dict(base, only=atcase))
        else:
            res.inconclusive.append("harness exit %s without DONE: %s\n%s" % (o["rc"], " ".join(o["cmd"]), err[-800:]))
    elif done and isinstance(o["rc"], int) and o["rc"] != 0 and not keys:
        res.inconclusive.append("harness exit %s after DONE: %s\n%s" % (o["rc"], " ".join(o["cmd"]), err[-800:]))


# ----------------------------------------------------------------- verdict + evidence
def finish(res, tier, seed, rule, required=(), level="exploration", assumptions=(), exhaustive=False,
           evaluations_stat="cases", extra=None):
    """Apply known-findings, write evidence, print verdict lines, return exit code."""
    prop = res.prop
    # the evidence level is the category the check registers in MANIFEST.json (REG in its module)
    try:
        import importlib
        level = importlib.import_module("checks." + prop).REG.get("category", level)
    except Exception:
        pass
    fnd = Findings()
    os.makedirs(os.path.join(VERIF, "replay"), exist_ok=True)
    unknown = {}
    known = {}
    for v in res.viol:
        e = fnd.match(prop, v["key"])
        if e is not None:
            known.setdefault(v["key"], (e, v))
        else:
            unknown.setdefault(v["key"], v)
    for key, (e, v) in sorted(known.items()):
        print("KNOWN-FINDING: property=%s %s [%s]" % (prop, e.get("what", key), key))
    rc = 0
    for key, v in sorted(unknown.items()):
        safe = re.sub(r"[^A-Za-z0-9_.:-]+", "_", key)[:100]
        path = os.path.join(VERIF, "replay", "%s-%s.json" % (prop, safe))
        json.dump(dict(property=prop, key=key, text=v["text"], replay=v["replay"]), open(path, "w"), indent=1)
        print("VIOLATION property=%s replay=%s" % (prop, path))
        print("  key=%s" % key)
        print("  " + v["text"][:600].replace("\n", "\n  "))
        rc = 1
    evaluations = res.evaluations or res.stats.get(evaluations_stat, 0)
    missing = [r for r in required if res.stats.get(r, 0) <= 0]
    if rc == 0 and (res.inconclusive or missing or evaluations <= 0):
        for m in res.inconclusive[:5]:
            print("INCONCLUSIVE: " + m[:1500])
        if missing:
            print("INCONCLUSIVE: required event kinds never observed: %s" % ",".join(missing))
        rc = 2
    if rc == 2:
        KEEP_RUN[0] = True      # keep scripts / shard outputs of an inconclusive run for diagnosis
    cov = dict(evaluations=int(evaluations), distinct_nontrivial=len(res.hashes), rule=rule,
               samples=res.samples[:6] or ["(no sample emitted)"], events=dict(sorted(res.stats.items())),
               flavors=sorted(res.flavors), known_findings_seen=sorted(known.keys()),
               unlisted_violation_keys=sorted(unknown.keys()), inconclusive=len(res.inconclusive),
               distinct_capped=res.hash_capped)
    if exhaustive:
        cov["exhaustive"] = True
    if extra:
        cov.update(extra)
    cov.update(res.extra)
    ev = dict(property_id=prop, tier=tier, seed=int(seed), level=level, coverage=cov,
              assumptions=list(assumptions), wall_s=round(time.time() - res.t0, 2), violations=len(unknown))
    os.makedirs(EVIDENCE_DIR, exist_ok=True)
    json.dump(ev, open(os.path.join(EVIDENCE_DIR, prop + ".json"), "w"), indent=1, sort_keys=True)
    print("%s %s tier=%s seed=%s evaluations=%d distinct_nontrivial=%d known=%d unlisted=%d inconclusive=%d wall=%.1fs" % (
        prop, {0: "HELD", 1: "VIOLATED", 2: "INCONCLUSIVE"}[rc], tier, seed, evaluations, len(res.hashes),
        len(known), len(unknown), len(res.inconclusive), time.time() - res.t0))
    return rc


# ----------------------------------------------------------------- scripted jobs (python-side generators/oracles)
def run_jobs(res, flavor, harness, jobs, timeout=900, env_extra=None, workers=None):
    """Run the harness once per job (job = dict(args=[...], tag=str, plus anything the caller wants back)).
    Returns [dict(job=job, rc=..., out=<stdout path>, err=<stderr path>, keys=[sanitizer keys])].
    Sanitizer reports, assertion aborts and crashes are added to `res` as violations (replay carries the
    job's args and any job['replay'] payload); timeouts are re-run once, then recorded as inconclusive.
    STAT/SAMPLE/VIOL lines printed by the harness are merged as in run_harness; all other stdout lines are
    left for the caller's oracle (read o['out'])."""
    exe = os.path.join(BUILD, flavor, harness)
    outdir = workdir(res.prop)
    env = sanitizer_env(flavor)
    if env_extra:
        env.update(env_extra)
    res.flavors.add(flavor)

    def one(j):
        cmd = [exe] + [str(a) for a in j["args"]]
        o = _run_one(cmd, env, timeout, outdir, j["tag"])
        if o["rc"] == "timeout":
            log("vlib: job %s timed out; re-running once" % j["tag"])
            o = _run_one(cmd, env, timeout * 2, outdir, j["tag"] + "-retry")
        return o
    with ThreadPoolExecutor(max_workers=workers or NCPU) as ex:
        outs = list(ex.map(one, jobs))
    ret = []
    for j, o in zip(jobs, outs):
        hf = os.path.join(outdir, j["tag"] + ".hash")
        before = len(res.viol)
        _merge(res, flavor, harness, j["args"], 0, o, hf, 0)
        for v in res.viol[before:]:
            if "replay" in j:
                v["replay"] = dict(v["replay"], payload=j["replay"])
        o["job"] = j
        o["keys"] = [v["key"] for v in res.viol[before:]]
        ret.append(o)
    return ret


def trace_lines(path, prefix):
    """yield the remainder of every stdout line starting with `prefix `"""
    with open(path, "r", errors="replace") as f:
        for ln in f:
            if ln.startswith(prefix + " "):
                yield ln[len(prefix) + 1:].rstrip("\n")


_WORKDIRS = {}
KEEP_RUN = [bool(os.environ.get("VERIF_KEEP_RUN"))]


def workdir(prop):
    """scratch directory of this invocation (scripts, shard outputs): private to the process, so that a quick and a
    thorough run of the same check (or two seeds) can run side by side; removed at exit unless the run was not clean"""
    d = _WORKDIRS.get(prop)
    if d is None:
        d = os.path.join(BUILD, "run", "%s.%d" % (prop, os.getpid()))
        os.makedirs(d, exist_ok=True)
        _WORKDIRS[prop] = d
        if len(_WORKDIRS) == 1:
            import atexit
            atexit.register(_cleanup_workdirs)
    return d


def _cleanup_workdirs():
    if KEEP_RUN[0]:
        return
    for d in _WORKDIRS.values():
        shutil.rmtree(d, ignore_errors=True)
