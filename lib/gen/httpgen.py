"""Grammar-based generator of HTTP/1.x request and response streams (valid and
adversarial) and of segmentations, for C23/C24/C25.  Pure functions of a
random.Random; no knowledge of libevent."""
import random

METHODS_BODY = [b"POST", b"PUT", b"PATCH", b"DELETE", b"OPTIONS", b"GET", b"PROPFIND", b"PROPPATCH", b"MKCOL",
                b"LOCK", b"UNLOCK", b"COPY", b"MOVE"]
METHODS_ALL = METHODS_BODY + [b"HEAD", b"TRACE"]
EXT_METHODS = [b"PURGE", b"M-SEARCH", b"REPORT", b"X", b"get", b"Post", b"BREW!", b"A.B_C~"]
KNOWN_TYPES = {b"GET": 1, b"POST": 2, b"HEAD": 4, b"PUT": 8, b"DELETE": 16, b"OPTIONS": 32, b"TRACE": 64, b"CONNECT": 128,
               b"PATCH": 256, b"PROPFIND": 512, b"PROPPATCH": 1024, b"MKCOL": 2048, b"LOCK": 4096, b"UNLOCK": 8192,
               b"COPY": 16384, b"MOVE": 32768}
EXT_TYPE = 0x10000

ORIGIN_TARGETS = [b"/", b"/a", b"/a/b/c", b"/index.html", b"/a%20b", b"/x?y=z", b"/x?y=z&w=%41", b"/p;v=1/q", b"/~u/-._", b"/a/?",
                  b"/search?q=a+b", b"/a:b@c", b"/a//b", b"/%7Euser", b"/a?b?c/d"]
ABS_TARGETS = [b"http://example.com/", b"http://example.com/a/b?c=d", b"http://h:8080/p", b"http://127.0.0.1/x", b"https://h/a"]
BAD_TARGETS = [b"/a b", b"/\xe9t\xe9", b"/a#frag", b"a/b", b"/a\"b", b"/a<b>", b"/%zz", b"//", b"http://", b"/a\\b", b"/{x}", b"/a|b", b"/a^b", b"/%"]
HDR_NAMES = [b"Host", b"User-Agent", b"Accept", b"X-A", b"X-B", b"Cookie", b"Accept-Encoding", b"x-lower", b"X_under", b"If-None-Match",
             b"Cache-Control", b"X.Dot", b"X!#$%&'*+-.^_`|~9"]
HDR_VALUES = [b"example.com", b"a", b"", b"a b  c", b"a\tb", b"text/html, */*;q=0.8", b"\"quoted, value\"", b"caf\xe9", b"x=1; y=2",
              b"W/\"etag\"", b"0", b"-1", b"a:b:c", b"gzip, deflate", b"\xff\xfe", b"v" * 60]
SMUGGLE = [b"GET /smuggled HTTP/1.1\r\nHost: s\r\n\r\n", b"POST /sm2 HTTP/1.1\r\nContent-Length: 0\r\n\r\n", b"0\r\n\r\n", b"\r\n\r\n", b"\n"]


def _body(rng, n=None):
    k = rng.random()
    if n is None:
        n = rng.choice([0, 1, 2, 3, 5, 7, 10, 16, 17, 31, 64, 100, 255, 300])
    if k < 0.25:
        s = rng.choice(SMUGGLE)
        return (s * (n // len(s) + 1))[:n] if n else b""
    if k < 0.65:
        return bytes(rng.choice(b"abcdefghijklmnopqrstuvwxyz0123456789 ") for _ in range(n))
    return bytes(rng.choice([0, 10, 13, 32, 48, 58, 59, 65, 255, rng.randrange(256)]) for _ in range(n))


def _ows(rng, allow_tab=True):
    r = rng.random()
    if r < 0.6:
        return b" "
    if r < 0.7:
        return b""
    if r < 0.8:
        return b"  "
    if allow_tab and r < 0.9:
        return b"\t"
    if allow_tab:
        return b" \t "
    return b" "


class Builder(object):
    """Accumulates one message; `eol` may be switched to bare LF."""

    def __init__(self, rng):
        self.rng = rng
        self.parts = []
        self.tags = []
        self.eol = b"\r\n"

    def line(self, b):
        self.parts.append(b + self.eol)

    def raw(self, b):
        self.parts.append(b)

    def bytes(self):
        return b"".join(self.parts)


def chunked_encode(rng, b, body, fault=None):
    """Encode body with the chunked coding; fault selects one adversarial deviation."""
    pieces = []
    pos = 0
    nchunks = 0 if not body else rng.choice([1, 1, 2, 3, 4])
    cuts = sorted(rng.sample(range(1, len(body)), min(nchunks - 1, max(0, len(body) - 1)))) if nchunks > 1 else []
    cuts = [0] + cuts + [len(body)]
    for i in range(len(cuts) - 1):
        pieces.append(body[cuts[i]:cuts[i + 1]])
    pieces = [p for p in pieces if p]
    fault_at = rng.randrange(len(pieces)) if pieces else -1
    for i, p in enumerate(pieces):
        sz = ("%x" % len(p)).encode()
        r = rng.random()
        if r < 0.15:
            sz = sz.upper()
        elif r < 0.3:
            sz = b"0" * rng.choice([1, 2, 7]) + sz
            b.tags.append("chunk-leading-zero")
        ext = b""
        if fault == 'chunk-ext' and i == fault_at:
            ext = rng.choice([b";ext=1", b";a", b";a=b;c=d", b";q=\"x y\"", b" ;a=b", b"; a = b", b";a=\"\\\"\""])
            b.tags.append("chunk-ext")
        if i == fault_at and fault == 'chunk-size-bad':
            sz = rng.choice([b"g", b"-" + sz, b"+" + sz, b"0x" + sz, b"", b" " + sz, b"x" + sz, b"\t" + sz, b";x", b";ext=1", b";"])   # the last three: an extension but no size digit
            b.tags.append("chunk-size-bad")
        if i == fault_at and fault == 'chunk-size-junk':
            sz = sz + rng.choice([b" x", b"x", b";", b";=", b" ", b"\t", b";a=", b"zz"])
            b.tags.append("chunk-size-junk")
        if i == fault_at and fault == 'chunk-size-huge':
            sz = rng.choice([b"1" + b"0" * 16 + sz, b"f" * 16, b"8" + b"0" * 15, b"1" + b"0" * 15 + sz, b"7" + b"f" * 15])
            b.tags.append("chunk-size-huge")
        if i == fault_at and fault == 'chunk-size-over':
            sz = ("%x" % (len(p) + rng.choice([1, 2, 10]))).encode()
            b.tags.append("chunk-size-over")
        if i == fault_at and fault == 'chunk-size-under' and len(p) > 1:
            sz = ("%x" % (len(p) - 1)).encode()
            b.tags.append("chunk-size-under")
        b.line(sz + ext)
        b.raw(p)
        if i == fault_at and fault == 'chunk-no-crlf':
            b.tags.append("chunk-no-crlf")
        elif i == fault_at and fault == 'chunk-extra-crlf':
            b.raw(b"\r\n\r\n")
            b.tags.append("chunk-extra-crlf")
        else:
            b.raw(b.eol)
    last = rng.choice([b"0", b"0", b"0", b"00", b"0000000"])
    if fault == 'chunk-ext' and (fault_at < 0 or rng.random() < 0.3):
        last += rng.choice([b";last=1", b";x"])
        b.tags.append("chunk-ext")
    if fault == 'chunk-size-bad' and (fault_at < 0 or rng.random() < 0.35):
        # the terminating chunk itself has no size digit: only an implementation that takes "no digits" for zero
        # finds a complete message here
        last = rng.choice([b";x", b";last=1", b";"])
        b.tags.append("chunk-size-bad")
    if fault == 'no-last-chunk':
        b.tags.append("no-last-chunk")
        return
    b.line(last)
    if fault == 'trailers' or (fault is None and rng.random() < 0.2):
        for _ in range(rng.choice([1, 1, 2])):
            b.line(rng.choice([b"X-Trailer", b"X-Checksum", b"Content-MD5"]) + b":" + _ows(rng, False) + rng.choice([b"t1", b"abc", b""]))
        b.tags.append("trailers")
    if fault == 'trailer-smuggle':
        b.line(rng.choice([b"Content-Length: 100", b"Host: evil", b"Transfer-Encoding: chunked", b"X-Admin: 1"]))
        b.tags.append("trailers")
    if fault == 'trailer-bad':
        b.line(rng.choice([b"X-T : 1", b"nocolon", b": v", b" fold"]))
        b.tags.append("trailer-bad")
    b.line(b"")


REQ_FAULTS = [
    # (name, weight)
    ('none', 40),
    ('cl-conflict', 3), ('cl-dup-same', 2), ('cl-list-same', 2), ('cl-list-diff', 2), ('cl-plus', 3), ('cl-minus', 2), ('cl-minus-zero', 2),
    ('cl-hex', 1), ('cl-junk', 2), ('cl-empty', 1), ('cl-huge', 1), ('cl-leading-zero', 1), ('cl-tab', 2), ('cl-second-bad', 2),
    ('ws-colon-cl', 3), ('ws-colon-te', 2), ('ws-colon-other', 2), ('tab-colon', 1),
    ('te-gzip-chunked', 3), ('te-chunked-gzip', 3), ('te-gzip', 2), ('te-identity', 1), ('te-two-headers', 2), ('te-case', 2),
    ('te-tab', 2), ('te-and-cl', 3), ('te-gzip-and-cl', 2), ('te-empty', 1), ('te-params', 1), ('te-chunked-chunked', 1), ('te-http10', 3),
    ('chunk-ext', 4), ('chunk-size-bad', 3), ('chunk-size-junk', 2), ('chunk-size-huge', 2), ('chunk-size-over', 1), ('chunk-size-under', 1),
    ('chunk-no-crlf', 1), ('chunk-extra-crlf', 1), ('no-last-chunk', 1), ('trailers', 3), ('trailer-smuggle', 2), ('trailer-bad', 1),
    ('obs-fold', 3), ('obs-fold-cl', 1), ('leading-fold', 1), ('no-colon', 1), ('empty-name', 1), ('bad-name', 1), ('nul-value', 2),
    ('nul-cl', 1), ('bare-cr-value', 2), ('ctl-value', 1), ('htab-value', 2),
    ('bare-lf-all', 3), ('bare-lf-one', 2), ('leading-crlf', 2), ('bad-version', 3), ('bad-target', 3), ('ext-method', 3), ('bad-method', 1),
    ('double-space', 1), ('trailing-space-line', 1), ('http10', 3), ('http10-keepalive', 1), ('conn-close', 2), ('expect-100', 3), ('expect-other', 1),
    ('head-with-body', 3), ('trace-with-body', 1), ('get-with-body', 2), ('connect', 2), ('options-star', 1), ('absolute-form', 2),
    ('truncate', 2), ('mutate', 4),
]


def _wchoice(rng, table):
    tot = sum(w for _, w in table)
    x = rng.randrange(tot)
    for n, w in table:
        if x < w:
            return n
        x -= w
    return table[-1][0]


def gen_request(rng, fault=None, last=False):
    """-> (bytes, tags).  One request message carrying at most one deliberate deviation."""
    b = Builder(rng)
    if fault is None:
        fault = _wchoice(rng, REQ_FAULTS)
    b.tags.append(fault)
    if fault == 'bare-lf-all':
        b.eol = b"\n"
    method = rng.choice(METHODS_BODY)
    target = rng.choice(ORIGIN_TARGETS)
    version = b"HTTP/1.1"
    want_body = rng.random() < 0.6
    if fault == 'head-with-body':
        method, want_body = b"HEAD", True
    elif fault == 'trace-with-body':
        method, want_body = b"TRACE", True
    elif fault == 'get-with-body':
        method, want_body = b"GET", True
    elif fault == 'connect':
        method, target = b"CONNECT", rng.choice([b"example.com:443", b"10.0.0.1:80", b"h:1"])
        want_body = rng.random() < 0.3
    elif fault == 'options-star':
        method, target, want_body = b"OPTIONS", b"*", False
    elif fault == 'absolute-form':
        target = rng.choice(ABS_TARGETS)
    elif fault == 'ext-method':
        method = rng.choice(EXT_METHODS)
    elif fault == 'bad-method':
        method = rng.choice([b"G<T", b"GE\x00T", b"G\xe9T", b"(GET)", b"GET,"])
    elif fault == 'bad-target':
        target = rng.choice(BAD_TARGETS)
    elif fault == 'bad-version':
        version = rng.choice([b"HTTP/1.2", b"HTTP/1.9", b"HTTP/0.9", b"HTTP/2.0", b"HTTP/1.1x", b"http/1.1", b"HTTP/11", b"HTTP/1.", b"HTTP/1.10",
                              b"HTTP/01.1", b"HTTP/3.0", b"HTTP/1,1", b"HTTP 1.1", b"", b"HTTP/0.0"])
    elif fault in ('http10', 'te-http10'):
        version = b"HTTP/1.0"
    elif fault == 'http10-keepalive':
        version = b"HTTP/1.0"
    if fault not in ('head-with-body', 'trace-with-body', 'connect', 'options-star', 'ext-method', 'bad-method') and rng.random() < 0.15:
        method = rng.choice([b"HEAD", b"TRACE", b"GET"])
        want_body = False
    if fault.startswith(('cl-', 'te-', 'chunk-', 'trailer', 'ws-colon-cl', 'ws-colon-te', 'no-last', 'obs-fold-cl', 'nul-cl', 'expect')):
        want_body = True
        if method in (b"HEAD", b"TRACE"):
            method = b"POST"
    if fault == 'leading-crlf':
        b.raw(rng.choice([b"\r\n", b"\r\n\r\n", b"\n"]))
    if fault == 'double-space':
        b.line(method + rng.choice([b"  ", b" "]) + target + rng.choice([b"  ", b" \t"]) + version)
    elif fault == 'trailing-space-line':
        b.line(method + b" " + target + b" " + version + rng.choice([b" ", b"  ", b"\t"]))
    else:
        b.line(method + b" " + target + b" " + version)

    body = _body(rng) if want_body else b""
    framing = None
    if want_body:
        framing = rng.choice(['cl', 'cl', 'chunked'])
    if fault.startswith('cl-') or fault in ('ws-colon-cl', 'obs-fold-cl', 'nul-cl'):
        framing = 'cl'
    if fault.startswith(('te-', 'chunk-', 'trailer')) or fault in ('ws-colon-te', 'no-last-chunk', 'trailers'):
        framing = 'chunked'
    hdrs = []
    for _ in range(rng.choice([0, 1, 1, 2, 3, 5])):
        hdrs.append(rng.choice(HDR_NAMES) + b":" + _ows(rng, False) + rng.choice(HDR_VALUES) + rng.choice([b"", b"", b" ", b"\t", b" \t"]))
    if rng.random() < 0.7:
        hdrs.insert(0, b"Host: example.com")
    frame_lines = []
    n = len(body)
    dn = (b"%d" % n)
    if framing == 'cl':
        if fault == 'cl-conflict':
            other = b"%d" % rng.choice([max(0, n - 2), n + 3, 0, n + 1])
            if other == dn:
                other = b"%d" % (n + 1)
            frame_lines = [b"Content-Length: " + dn, b"Content-Length: " + other]
            if rng.random() < 0.5:
                frame_lines.reverse()
        elif fault == 'cl-dup-same':
            frame_lines = [b"Content-Length: " + dn, b"Content-Length: " + dn]
        elif fault == 'cl-list-same':
            frame_lines = [b"Content-Length: " + dn + b", " + dn]
        elif fault == 'cl-list-diff':
            frame_lines = [b"Content-Length: " + dn + b", " + (b"%d" % (n + 1))]
        elif fault == 'cl-plus':
            frame_lines = [b"Content-Length: +" + dn]
        elif fault == 'cl-minus':
            frame_lines = [b"Content-Length: -" + (b"%d" % max(1, n))]
        elif fault == 'cl-minus-zero':
            body = b"" if rng.random() < 0.5 else body
            frame_lines = [b"Content-Length: -0"]
        elif fault == 'cl-hex':
            frame_lines = [b"Content-Length: 0x" + (b"%x" % n)]
        elif fault == 'cl-junk':
            frame_lines = [b"Content-Length: " + dn + rng.choice([b"x", b" x", b".0", b"e0", b";", b" 0", b"\x0b"])]
        elif fault == 'cl-empty':
            frame_lines = [b"Content-Length:" + rng.choice([b"", b" ", b"  "])]
        elif fault == 'cl-huge':
            frame_lines = [b"Content-Length: " + rng.choice([b"18446744073709551616", b"9223372036854775808", b"18446744073709551621", b"99999999999999999999999"])]
        elif fault == 'cl-leading-zero':
            frame_lines = [b"Content-Length: 00" + dn]
        elif fault == 'cl-tab':
            frame_lines = [b"Content-Length:\t" + dn]
        elif fault == 'cl-second-bad':
            frame_lines = [b"Content-Length: " + dn, b"Content-Length: " + rng.choice([b"abc", b"", b"+" + dn, b"-1"])]
        elif fault == 'ws-colon-cl':
            frame_lines = [b"Content-Length" + rng.choice([b" ", b"  ", b"\t"]) + b": " + dn]
        elif fault == 'obs-fold-cl':
            frame_lines = [b"Content-Length: " + dn + b"\r\n " + rng.choice([b"1", b"", b"x"])]
        elif fault == 'nul-cl':
            frame_lines = [b"Content-Length: " + dn + b"\x00" + rng.choice([b"1", b"", b"junk"])]
        else:
            frame_lines = [rng.choice([b"Content-Length", b"content-length", b"CONTENT-LENGTH"]) + b":" + _ows(rng, False) + dn + rng.choice([b"", b" ", b"\t"])]
    elif framing == 'chunked':
        te = b"Transfer-Encoding: chunked"
        if fault == 'te-gzip-chunked':
            te = b"Transfer-Encoding: " + rng.choice([b"gzip, chunked", b"gzip,chunked", b"deflate , chunked", b"x-foo, chunked", b", chunked"])
        elif fault == 'te-chunked-gzip':
            te = b"Transfer-Encoding: " + rng.choice([b"chunked, gzip", b"chunked,identity", b"chunked, x"])
        elif fault == 'te-gzip':
            te = b"Transfer-Encoding: " + rng.choice([b"gzip", b"deflate", b"xchunked", b"chunkedx", b"chunke"])
        elif fault == 'te-identity':
            te = b"Transfer-Encoding: identity"
        elif fault == 'te-two-headers':
            te = rng.choice([b"Transfer-Encoding: gzip\r\nTransfer-Encoding: chunked", b"Transfer-Encoding: chunked\r\nTransfer-Encoding: gzip",
                             b"Transfer-Encoding: chunked\r\nTransfer-Encoding: chunked"])
        elif fault == 'te-case':
            te = rng.choice([b"Transfer-Encoding: Chunked", b"transfer-encoding: CHUNKED", b"TRANSFER-ENCODING: chunKed", b"Transfer-Encoding:chunked",
                             b"Transfer-Encoding: chunked \t"])
        elif fault == 'te-tab':
            te = b"Transfer-Encoding:" + rng.choice([b"\t", b" \t", b"\t "]) + b"chunked"
        elif fault == 'te-and-cl':
            te = rng.choice([b"Transfer-Encoding: chunked\r\nContent-Length: %d" % rng.choice([n, 0, 3, n + 5]),
                             b"Content-Length: %d\r\nTransfer-Encoding: chunked" % rng.choice([n, 0, 3, n + 5])])
        elif fault == 'te-gzip-and-cl':
            te = b"Transfer-Encoding: " + rng.choice([b"gzip", b"identity", b"chunked, gzip"]) + b"\r\nContent-Length: %d" % n
        elif fault == 'te-empty':
            te = b"Transfer-Encoding:" + rng.choice([b"", b" ", b" ,"])
        elif fault == 'te-params':
            te = b"Transfer-Encoding: chunked;q=1"
        elif fault == 'te-chunked-chunked':
            te = b"Transfer-Encoding: chunked, chunked"
        elif fault == 'ws-colon-te':
            te = b"Transfer-Encoding" + rng.choice([b" ", b"\t"]) + b": chunked"
        frame_lines = [te]
    if fault == 'expect-100':
        frame_lines.append(b"Expect: " + rng.choice([b"100-continue", b"100-Continue"]))
    elif fault == 'expect-other':
        frame_lines.append(b"Expect: " + rng.choice([b"200-ok", b"100-continue, foo"]))
    if fault == 'http10-keepalive':
        frame_lines.append(b"Connection: " + rng.choice([b"keep-alive", b"Keep-Alive"]))
    if fault == 'conn-close' or (last and rng.random() < 0.15):
        frame_lines.append(b"Connection: " + rng.choice([b"close", b"Close", b"keep-alive, close", b"close, TE"]))
    # one header-level deviation
    if fault == 'ws-colon-other':
        hdrs.append(rng.choice(HDR_NAMES) + rng.choice([b" ", b"\t", b"  "]) + b": v")
    elif fault == 'tab-colon':
        hdrs.append(b"X-Tab\t:v")
    elif fault == 'obs-fold':
        hdrs.append(rng.choice(HDR_NAMES) + b": first" + rng.choice([b"", b" ", b"\t"]) + b"\r\n" + rng.choice([b" ", b"\t", b"   ", b" \t"]) + rng.choice([b"second", b"sec ond ", b"", b"x\r\n\tthird"]))
    elif fault == 'leading-fold':
        hdrs.insert(0, rng.choice([b" X-Lead: 1", b"\tfolded-first", b" "]))
    elif fault == 'no-colon':
        hdrs.append(rng.choice([b"NoColonHere", b"X-A", b"GET / HTTP/1.1"]))
    elif fault == 'empty-name':
        hdrs.append(rng.choice([b": v", b":", b":v:w"]))
    elif fault == 'bad-name':
        hdrs.append(rng.choice([b"X A: v", b"X(A): v", b"X\xe9: v", b"X\x00Y: v", b"\"X\": v", b"X@Y: v"]))
    elif fault == 'nul-value':
        hdrs.append(rng.choice(HDR_NAMES) + b": a\x00b")
    elif fault == 'bare-cr-value':
        hdrs.append(rng.choice(HDR_NAMES) + b": a" + rng.choice([b"\r b", b"\rb", b"\r\tb", b"\r"]))
    elif fault == 'ctl-value':
        hdrs.append(rng.choice(HDR_NAMES) + b": a" + rng.choice([b"\x01", b"\x7f", b"\x0b", b"\x1f"]) + b"b")
    elif fault == 'htab-value':
        hdrs.append(rng.choice(HDR_NAMES) + b":" + rng.choice([b"\t", b"\t ", b" \t", b"\t\t"]) + rng.choice([b"v", b"two words"]))
    pos = rng.randrange(len(hdrs) + 1)
    lines = hdrs[:pos] + frame_lines + hdrs[pos:]
    if fault == 'leading-fold':
        # the whitespace-preceded line must come first
        lines = [l for l in lines if l[:1] in (b" ", b"\t")] + [l for l in lines if l[:1] not in (b" ", b"\t")]
    for i, l in enumerate(lines):
        if fault == 'bare-lf-one' and i == len(lines) // 2:
            b.raw(l + b"\n")
        else:
            b.line(l)
    if fault == 'bare-lf-one' and not lines:
        b.raw(b"\n")
    else:
        b.line(b"")
    if framing == 'cl':
        b.raw(body)
    elif framing == 'chunked':
        cf = fault if fault.startswith(('chunk-', 'trailer', 'no-last')) or fault == 'trailers' else None
        if fault in ('te-gzip', 'te-identity', 'te-gzip-and-cl', 'te-empty') and rng.random() < 0.5:
            b.raw(body)                      # the body is not chunked at all
        else:
            chunked_encode(rng, b, body, cf)
    data = b.bytes()
    if fault == 'truncate' and len(data) > 2:
        data = data[:rng.randrange(1, len(data))]
    if fault == 'mutate' and len(data) > 4:
        data = mutate(rng, data)
    return data, b.tags


def mutate(rng, data):
    data = bytearray(data)
    for _ in range(rng.choice([1, 1, 2, 3])):
        i = rng.randrange(len(data))
        op = rng.randrange(5)
        if op == 0:
            data[i] = rng.choice([0, 9, 10, 13, 32, 58, 59, 43, 45, 48, 255, rng.randrange(256)])
        elif op == 1:
            del data[i]
        elif op == 2:
            data.insert(i, rng.choice([0, 9, 10, 13, 32, 58, 59, 44, 48, rng.randrange(256)]))
        elif op == 3:
            j = min(len(data), i + rng.randrange(1, 8))
            data[i:j] = data[i:j] * 2
        else:
            j = min(len(data), i + rng.randrange(1, 8))
            del data[i:j]
        if not data:
            data = bytearray(b"\n")
    return bytes(data)


def gen_request_stream(rng, nmax=4, fault=None):
    """-> (bytes, tags): a pipeline of 1..nmax requests; deviations are rarer in earlier positions so that
    later messages are reached."""
    n = rng.choice([1, 1, 2, 2, 3, nmax])
    out = []
    tags = []
    for i in range(n):
        f = fault if (fault and i == n - 1) else None
        if f is None and i < n - 1 and rng.random() < 0.5:
            f = 'none'
        d, t = gen_request(rng, f, last=(i == n - 1))
        out.append(d)
        tags += t
    return b"".join(out), tags


# ---------------------------------------------------------------- responses
RESP_FAULTS = [
    ('none', 40), ('head', 5), ('status-204', 3), ('status-304', 3), ('interim-100', 4), ('interim-103', 3), ('interim-102', 1), ('interim-two', 2),
    ('interim-100-headers', 2), ('status-101', 1), ('connect-2xx', 2), ('connect-4xx', 2),
    ('close-delimited', 6), ('close-delimited-keepalive', 3), ('http10', 3), ('http10-keepalive', 2), ('conn-close', 4),
    ('cl-conflict', 3), ('cl-dup-same', 2), ('cl-list-same', 1), ('cl-plus', 2), ('cl-minus', 1), ('cl-junk', 2), ('cl-empty', 1), ('cl-tab', 1),
    ('cl-huge', 1), ('ws-colon-cl', 2), ('ws-colon-te', 1), ('ws-colon-other', 1),
    ('te-gzip-chunked', 3), ('te-chunked-gzip', 2), ('te-gzip', 2), ('te-case', 2), ('te-tab', 1), ('te-and-cl', 3), ('te-http10', 1), ('te-two-headers', 1),
    ('chunk-ext', 4), ('chunk-size-bad', 3), ('chunk-size-junk', 1), ('chunk-size-huge', 1), ('chunk-size-over', 1), ('chunk-no-crlf', 1), ('no-last-chunk', 2),
    ('trailers', 3), ('trailer-smuggle', 1), ('trailer-bad', 1),
    ('obs-fold', 3), ('leading-fold', 1), ('no-colon', 1), ('empty-name', 1), ('bad-name', 1), ('nul-value', 1), ('bare-cr-value', 1), ('htab-value', 2),
    ('bare-lf-all', 3), ('bare-lf-one', 1), ('bad-status-line', 4), ('no-reason', 2), ('no-reason-no-sp', 2), ('reason-odd', 2),
    ('junk-after', 4), ('truncate', 4), ('mutate', 4),
]
REQ_METHODS_CLIENT = [b"GET", b"GET", b"GET", b"POST", b"PUT", b"DELETE", b"HEAD", b"OPTIONS", b"PATCH"]
STATUS = [(200, b"OK"), (200, b"OK"), (201, b"Created"), (202, b"Accepted"), (206, b"Partial Content"), (301, b"Moved Permanently"), (302, b"Found"),
          (400, b"Bad Request"), (404, b"Not Found"), (418, b"I'm a teapot"), (500, b"Internal Server Error"), (503, b"Service Unavailable"), (299, b"Odd"),
          (599, b"Last"), (600, b"Beyond"), (999, b"Max")]


def gen_response(rng, method, fault=None):
    """-> (bytes, tags, needs_close): one final response (possibly preceded by interim ones) for `method`."""
    b = Builder(rng)
    if fault is None:
        fault = _wchoice(rng, RESP_FAULTS)
    b.tags.append(fault)
    if fault == 'bare-lf-all':
        b.eol = b"\n"
    code, reason = rng.choice(STATUS)
    version = b"HTTP/1.1"
    needs_close = False
    if fault == 'status-204':
        code, reason = 204, b"No Content"
    elif fault == 'status-304':
        code, reason = 304, b"Not Modified"
    elif fault == 'status-101':
        code, reason = 101, b"Switching Protocols"
    elif fault in ('http10', 'http10-keepalive', 'te-http10'):
        version = b"HTTP/1.0"
    elif fault == 'connect-2xx':
        code, reason = rng.choice([(200, b"Connection established"), (204, b"No Content")])
    elif fault == 'connect-4xx':
        code, reason = rng.choice([(403, b"Forbidden"), (407, b"Proxy Authentication Required"), (502, b"Bad Gateway")])
    if fault.startswith('interim'):
        ic = {'interim-100': [100], 'interim-103': [103], 'interim-102': [102], 'interim-two': rng.choice([[100, 103], [103, 103], [102, 100]]),
              'interim-100-headers': [100]}[fault]
        for c in ic:
            b.line(b"HTTP/1.1 %d %s" % (c, {100: b"Continue", 102: b"Processing", 103: b"Early Hints"}[c]))
            if c == 103 or fault == 'interim-100-headers' or rng.random() < 0.2:
                b.line(rng.choice([b"Link: </style.css>; rel=preload", b"X-Interim: 1"]))
            b.line(b"")
    if fault == 'bad-status-line':
        b.line(rng.choice([b"HTTP/1.1  200 OK", b"HTTP/1.1 20 OK", b"HTTP/1.1 2000 OK", b"HTTP/1.1 abc OK", b"HTTP/1.1 +200 OK", b"HTTP/1.1 -200 OK",
                           b"HTTP/1.1 200OK", b"http/1.1 200 OK", b"HTTP/2.0 200 OK", b"HTTP/1.12 200 OK", b"ICY 200 OK", b"HTTP/1.1", b"200 OK",
                           b"HTTP/1.1 000 Zero", b"HTTP/1.1 099 Low", b"HTTP/0.9 200 OK", b"HTTP/1.1\t200 OK", b" HTTP/1.1 200 OK", b"HTTP/1.1 2e2 OK"]))
    elif fault == 'no-reason':
        b.line(version + b" %d " % code)
    elif fault == 'no-reason-no-sp':
        b.line(version + b" %d" % code)
    elif fault == 'reason-odd':
        b.line(version + b" %d " % code + rng.choice([b"Multi Word  Reason", b"caf\xe9", b"With\ttab", b" leading", b"trailing ", b"200 400"]))
    else:
        b.line(version + b" %d " % code + reason)
    nobody = (method == b"HEAD" or code in (204, 304) or fault == 'connect-2xx')
    body = _body(rng)
    framing = rng.choice(['cl', 'cl', 'cl', 'chunked', 'chunked'])
    if fault in ('close-delimited', 'close-delimited-keepalive', 'http10'):
        framing = 'close'
    if fault.startswith('cl-') or fault == 'ws-colon-cl':
        framing = 'cl'
    if fault.startswith(('te-', 'chunk-', 'trailer')) or fault in ('ws-colon-te', 'no-last-chunk', 'trailers'):
        framing = 'chunked'
    hdrs = []
    for _ in range(rng.choice([0, 1, 1, 2, 3])):
        hdrs.append(rng.choice([b"Server", b"Date", b"X-A", b"Set-Cookie", b"Content-Type", b"ETag", b"x-lower", b"Vary"]) + b":" + _ows(rng, False)
                    + rng.choice(HDR_VALUES) + rng.choice([b"", b"", b" ", b"\t"]))
    frame_lines = []
    n = len(body)
    dn = b"%d" % n
    if framing == 'cl':
        if fault == 'cl-conflict':
            other = b"%d" % rng.choice([max(0, n - 2), n + 3, 0, n + 1])
            if other == dn:
                other = b"%d" % (n + 1)
            frame_lines = [b"Content-Length: " + dn, b"Content-Length: " + other]
            if rng.random() < 0.5:
                frame_lines.reverse()
        elif fault == 'cl-dup-same':
            frame_lines = [b"Content-Length: " + dn, b"Content-Length: " + dn]
        elif fault == 'cl-list-same':
            frame_lines = [b"Content-Length: " + dn + b", " + dn]
        elif fault == 'cl-plus':
            frame_lines = [b"Content-Length: +" + dn]
        elif fault == 'cl-minus':
            frame_lines = [b"Content-Length: -" + rng.choice([b"0", b"1", dn])]
        elif fault == 'cl-junk':
            frame_lines = [b"Content-Length: " + dn + rng.choice([b"x", b" x", b".0", b";", b" 0"])]
        elif fault == 'cl-empty':
            frame_lines = [b"Content-Length:" + rng.choice([b"", b" "])]
        elif fault == 'cl-tab':
            frame_lines = [b"Content-Length:\t" + dn]
        elif fault == 'cl-huge':
            frame_lines = [b"Content-Length: " + rng.choice([b"18446744073709551616", b"9223372036854775808", b"18446744073709551621"])]
        elif fault == 'ws-colon-cl':
            frame_lines = [b"Content-Length" + rng.choice([b" ", b"\t"]) + b": " + dn]
        else:
            frame_lines = [rng.choice([b"Content-Length", b"content-length"]) + b":" + _ows(rng, False) + dn + rng.choice([b"", b" "])]
    elif framing == 'chunked':
        te = b"Transfer-Encoding: chunked"
        if fault == 'te-gzip-chunked':
            te = b"Transfer-Encoding: " + rng.choice([b"gzip, chunked", b"gzip,chunked", b"x-foo, chunked"])
        elif fault == 'te-chunked-gzip':
            te = b"Transfer-Encoding: " + rng.choice([b"chunked, gzip", b"chunked,identity"])
            needs_close = True
        elif fault == 'te-gzip':
            te = b"Transfer-Encoding: " + rng.choice([b"gzip", b"deflate", b"identity"])
            needs_close = True
        elif fault == 'te-case':
            te = rng.choice([b"Transfer-Encoding: Chunked", b"transfer-encoding: CHUNKED", b"Transfer-Encoding:chunked", b"Transfer-Encoding: chunked \t"])
        elif fault == 'te-tab':
            te = b"Transfer-Encoding:\tchunked"
        elif fault == 'te-and-cl':
            te = rng.choice([b"Transfer-Encoding: chunked\r\nContent-Length: %d" % rng.choice([n, 0, 3, n + 5]),
                             b"Content-Length: %d\r\nTransfer-Encoding: chunked" % rng.choice([n, 0, 3, n + 5])])
        elif fault == 'te-two-headers':
            te = rng.choice([b"Transfer-Encoding: gzip\r\nTransfer-Encoding: chunked", b"Transfer-Encoding: chunked\r\nTransfer-Encoding: chunked"])
        elif fault == 'ws-colon-te':
            te = b"Transfer-Encoding" + rng.choice([b" ", b"\t"]) + b": chunked"
        frame_lines = [te]
    else:
        needs_close = True
        if fault == 'close-delimited-keepalive':
            frame_lines = [b"Connection: " + rng.choice([b"keep-alive", b"Keep-Alive", b"TE"])]
    if fault == 'http10-keepalive':
        frame_lines.append(b"Connection: keep-alive")
    if fault == 'conn-close':
        frame_lines.append(b"Connection: " + rng.choice([b"close", b"Close", b"close, x"]))
    if fault == 'ws-colon-other':
        hdrs.append(b"X-Ws" + rng.choice([b" ", b"\t"]) + b": v")
    elif fault == 'obs-fold':
        hdrs.append(rng.choice([b"X-Fold", b"Set-Cookie"]) + b": first" + rng.choice([b"", b" "]) + b"\r\n" + rng.choice([b" ", b"\t", b"   "]) + rng.choice([b"second", b"sec ond ", b""]))
    elif fault == 'leading-fold':
        hdrs.insert(0, rng.choice([b" X-Lead: 1", b"\tfolded-first"]))
    elif fault == 'no-colon':
        hdrs.append(rng.choice([b"NoColonHere", b"HTTP/1.1 200 OK"]))
    elif fault == 'empty-name':
        hdrs.append(rng.choice([b": v", b":"]))
    elif fault == 'bad-name':
        hdrs.append(rng.choice([b"X A: v", b"X(A): v", b"X\xe9: v", b"X\x00Y: v"]))
    elif fault == 'nul-value':
        hdrs.append(b"X-Nul: a\x00b")
    elif fault == 'bare-cr-value':
        hdrs.append(b"X-Cr: a" + rng.choice([b"\r b", b"\rb"]))
    elif fault == 'htab-value':
        hdrs.append(b"X-Tab:" + rng.choice([b"\t", b"\t ", b" \t"]) + b"v")
    pos = rng.randrange(len(hdrs) + 1)
    lines = hdrs[:pos] + frame_lines + hdrs[pos:]
    if fault == 'leading-fold':
        lines = [l for l in lines if l[:1] in (b" ", b"\t")] + [l for l in lines if l[:1] not in (b" ", b"\t")]
    for i, l in enumerate(lines):
        if fault == 'bare-lf-one' and i == len(lines) // 2:
            b.raw(l + b"\n")
        else:
            b.line(l)
    b.line(b"")
    if nobody and rng.random() < 0.8:
        pass
    elif framing in ('cl', 'close'):
        b.raw(body)
    else:
        cf = fault if fault.startswith(('chunk-', 'trailer', 'no-last')) or fault == 'trailers' else None
        if fault in ('te-gzip',) and rng.random() < 0.5:
            b.raw(body)
        else:
            chunked_encode(rng, b, body, cf)
    data = b.bytes()
    if fault == 'junk-after':
        data += rng.choice([b"junk", b"\r\n", b"HTTP/1.1 500 Smuggled\r\nContent-Length: 0\r\n\r\n", b"\x00\x00", b"0\r\n\r\n"])
    if fault == 'truncate' and len(data) > 2:
        data = data[:rng.randrange(1, len(data))]
        needs_close = True
    if fault == 'mutate' and len(data) > 4:
        data = mutate(rng, data)
    return data, b.tags, needs_close


def gen_response_case(rng, fault=None):
    """-> dict(requests=[method...], data=bytes, end='X'|'F'|None, tags=[...])."""
    n = rng.choice([1, 1, 1, 2, 2, 3])
    methods = []
    out = []
    tags = []
    must_close = False
    for i in range(n):
        m = rng.choice(REQ_METHODS_CLIENT)
        f = fault if (fault and i == n - 1) else None
        if f is None and i < n - 1 and rng.random() < 0.6:
            f = 'none'
        if f is None:
            f = _wchoice(rng, RESP_FAULTS)
        if f == 'head':
            m, f = b"HEAD", 'none'
        if f in ('connect-2xx', 'connect-4xx'):
            m = b"CONNECT"
        d, t, nc = gen_response(rng, m, f)
        methods.append(m)
        out.append(d)
        tags += t
        must_close = must_close or nc
    r = rng.random()
    if must_close:
        end = 'X' if r < 0.85 else None
    else:
        end = 'X' if r < 0.45 else ('F' if r < 0.55 else None)
    return dict(requests=methods, data=b"".join(out), end=end, tags=tags)


# ---------------------------------------------------------------- segmentations
def structural_cuts(data, cap=120):
    cuts = set()
    for i, c in enumerate(data):
        if c in (0x0a, 0x0d, 0x3a, 0x20, 0x3b, 0x2c):
            cuts.add(i + 1)
            if c == 0x0a:
                cuts.add(i)
    cuts.discard(0)
    cuts.discard(len(data))
    cuts = sorted(cuts)
    if len(cuts) > cap:
        # keep the cuts around line ends preferentially
        pri = [c for c in cuts if data[c - 1] in (0x0a, 0x0d)]
        rest = [c for c in cuts if data[c - 1] not in (0x0a, 0x0d)]
        cuts = sorted((pri + rest)[:cap])
    return cuts


def split_at(data, cuts):
    out = []
    prev = 0
    for c in cuts:
        if c <= prev or c >= len(data):
            continue
        out.append(data[prev:c])
        prev = c
    out.append(data[prev:])
    return [s for s in out if s]


def segmentations(rng, data, thorough=False, byte_cap=500):
    """-> list of (name, [segments]) : one-shot, byte-at-a-time, structural, random (+2 more in thorough)."""
    segs = [('one', [data] if data else [])]
    if len(data) <= byte_cap:
        segs.append(('byte', [data[i:i + 1] for i in range(len(data))]))
    else:
        # byte-at-a-time over a window (the header region) and coarse elsewhere
        head = data[:byte_cap]
        tail = data[byte_cap:]
        segs.append(('byte', [head[i:i + 1] for i in range(len(head))] + split_at(tail, sorted(rng.sample(range(1, max(2, len(tail))), min(3, max(0, len(tail) - 1)))))))
    segs.append(('struct', split_at(data, structural_cuts(data))))
    k = rng.choice([1, 2, 3, 5, 8])
    pts = sorted(rng.sample(range(1, len(data)), min(k, len(data) - 1))) if len(data) > 1 else []
    segs.append(('rand', split_at(data, pts)))
    if thorough:
        k = rng.choice([1, 2, 4, 12, 30])
        pts = sorted(rng.sample(range(1, len(data)), min(k, len(data) - 1))) if len(data) > 1 else []
        segs.append(('rand2', split_at(data, pts)))
        if len(data) <= 2 * byte_cap:
            off = rng.randrange(2)
            segs.append(('pairs', split_at(data, list(range(1 + off, len(data), 2)))))
        else:
            segs.append(('pairs', split_at(data, list(range(4096, len(data), 4096)))))
    return segs


# ---------------------------------------------------------------- size-limit cases (C25)
READ_QUANTUM = 16384


def _fill(rng, n):
    return bytes(rng.choice(b"abcdefghijklmnopqrstuvwxyz0123456789") for _ in range(min(n, 64))) * (n // 64 + 1)


def _limit_request(rng, thorough):
    """One valid request with a chosen header-section shape and body; -> bytes"""
    shape = rng.choice(['normal', 'normal', 'one-long-header', 'many-short-headers', 'long-target', 'folded-header'])
    big = [200, 1000, 3000, 5000, 9000] + ([20000, 40000] if thorough else [])
    method = rng.choice([b"POST", b"PUT", b"PATCH"])
    target = b"/t"
    lines = [b"Host: h"]
    if shape == 'one-long-header':
        lines.append(b"X-Long: " + _fill(rng, rng.choice(big))[:rng.choice(big)])
    elif shape == 'many-short-headers':
        for i in range(rng.choice([10, 50, 200, 400])):
            lines.append(b"X-%d: v%d" % (i, i))
    elif shape == 'folded-header':
        # obs-fold: every physical line is short, the continuation lines add up (seeded defect C25-2: they were not counted)
        lines.append(b"X-Fold: start")
        for i in range(rng.choice([3, 20, 100, 300])):
            lines.append(rng.choice([b" ", b"\t"]) + _fill(rng, 30)[:rng.choice([1, 10, 30])])
    elif shape == 'long-target':
        target = b"/" + _fill(rng, rng.choice(big))[:rng.choice(big)]
    else:
        for _ in range(rng.randrange(0, 4)):
            lines.append(rng.choice(HDR_NAMES) + b": " + rng.choice([b"v", b"value with words", b""]))
    bk = rng.choice(['none', 'cl', 'cl', 'chunked', 'chunked'])
    n = rng.choice([0, 1, 2, 10, 100, 1000, 4096, 5000] + ([20000, 70000] if thorough else [9000]))
    body = _fill(rng, n)[:n]
    tail = b""
    if bk == 'cl':
        lines.append(b"Content-Length: %d" % n)
        tail = body
    elif bk == 'chunked':
        lines.append(b"Transfer-Encoding: chunked")
        k = rng.choice([1, 1, 2, 5])
        cuts = sorted(set([0, n] + [rng.randrange(0, n + 1) for _ in range(k - 1)]))
        for a, b_ in zip(cuts, cuts[1:]):
            if b_ > a:
                tail += b"%x\r\n" % (b_ - a) + body[a:b_] + b"\r\n"
        tail += b"0\r\n"
        if rng.random() < 0.25:
            tail += b"X-Trailer: " + _fill(rng, 40)[:rng.choice([1, 10, 40])] + b"\r\n"
        tail += b"\r\n"
    if rng.random() < 0.1 and bk != 'none':
        lines.append(b"Expect: 100-continue")
    return method + b" " + target + b" HTTP/1.1\r\n" + b"\r\n".join(lines) + b"\r\n\r\n" + tail


def _limit_response(rng, thorough):
    shape = rng.choice(['normal', 'normal', 'one-long-header', 'many-short-headers', 'long-reason', 'folded-header'])
    big = [200, 1000, 3000, 5000, 9000] + ([20000, 40000] if thorough else [])
    reason = b"OK"
    lines = [b"Server: s"]
    if shape == 'one-long-header':
        lines.append(b"X-Long: " + _fill(rng, rng.choice(big))[:rng.choice(big)])
    elif shape == 'many-short-headers':
        for i in range(rng.choice([10, 50, 200, 400])):
            lines.append(b"X-%d: v%d" % (i, i))
    elif shape == 'folded-header':
        lines.append(b"X-Fold: start")
        for i in range(rng.choice([3, 20, 100, 300])):
            lines.append(rng.choice([b" ", b"\t"]) + _fill(rng, 30)[:rng.choice([1, 10, 30])])
    elif shape == 'long-reason':
        reason = _fill(rng, rng.choice(big))[:rng.choice(big)]
    bk = rng.choice(['cl', 'cl', 'chunked', 'chunked', 'close'])
    n = rng.choice([0, 1, 2, 10, 100, 1000, 4096, 5000] + ([20000, 70000] if thorough else [9000]))
    body = _fill(rng, n)[:n]
    tail = b""
    if bk == 'cl':
        lines.append(b"Content-Length: %d" % n)
        tail = body
    elif bk == 'chunked':
        lines.append(b"Transfer-Encoding: chunked")
        k = rng.choice([1, 1, 2, 5])
        cuts = sorted(set([0, n] + [rng.randrange(0, n + 1) for _ in range(k - 1)]))
        for a, b_ in zip(cuts, cuts[1:]):
            if b_ > a:
                tail += b"%x\r\n" % (b_ - a) + body[a:b_] + b"\r\n"
        tail += b"0\r\n\r\n"
    else:
        tail = body
    return b"HTTP/1.1 200 " + reason + b"\r\n" + b"\r\n".join(lines) + b"\r\n\r\n" + tail, bk


def _pick_limit(rng, exact_values):
    """limit value from {unlimited, 0, 1, around the actual sizes, generous}"""
    r = rng.random()
    if r < 0.12:
        return -1
    if r < 0.17:
        return 0
    if r < 0.22:
        return 1
    if r < 0.35:
        return max(exact_values) * 2 + 100
    v = rng.choice(exact_values) + rng.choice([-2, -1, 0, 0, 1, 2])
    return max(0, v)


def gen_limit_case(rng, measure, thorough=False):
    """-> dict(mode, data, opts, requests, end, tags, cfg).  `measure(kind, data)` returns the reference's
    (hdr_content, hdr_wire, body_len) of the first message so that limits can be placed around the actual sizes."""
    client = rng.random() < 0.3
    r = rng.random()
    if r < 0.28:
        return _gen_limit_probe(rng, client, thorough)
    if not client:
        main = _limit_request(rng, thorough)
        hc, hw, bl = measure('request', main)
        mh = _pick_limit(rng, [hc, hw])
        mb = _pick_limit(rng, [bl])
        pre = b"GET /pre HTTP/1.1\r\nHost: h\r\n\r\n" if rng.random() < 0.2 else b""
        post = rng.choice([b"", b"", b"GET /post HTTP/1.1\r\nHost: h\r\n\r\n", b"POST /post HTTP/1.1\r\nContent-Length: 3\r\n\r\nabc"])
        ling = 1 if rng.random() < 0.4 else 0
        opts = "mh=%d,mb=%d,ling=%d,hwcb=1" % (mh, mb, ling)
        return dict(mode='S', data=pre + main + post, opts=opts, requests=[], end=None, tags=['limits-server', 'ling%d' % ling],
                    cfg=dict(mh=mh, mb=mb, ling=ling))
    main, bk = _limit_response(rng, thorough)
    hc, hw, bl = measure('response', main)
    mh = _pick_limit(rng, [hc, hw])
    mb = _pick_limit(rng, [bl])
    reqs = [b"GET"]
    data = main
    end = 'X' if (bk == 'close' or rng.random() < 0.4) else None
    if bk != 'close' and rng.random() < 0.4:
        reqs.append(b"GET")
        data += b"HTTP/1.1 200 OK\r\nContent-Length: 2\r\n\r\nhi"
    opts = "mh=%d,mb=%d,hwcb=1" % (mh, mb)
    return dict(mode='C', data=data, opts=opts, requests=reqs, end=end, tags=['limits-client', 'body-' + bk], cfg=dict(mh=mh, mb=mb, ling=0))


def _gen_limit_probe(rng, client, thorough):
    """Streams whose oversized element is never terminated (or far beyond the limits): buffering must stay bounded."""
    mh = rng.choice([0, 16, 64, 300, 1000])
    mb = rng.choice([0, 16, 64, 300, 1000])
    bound = mh + mb + 2 * READ_QUANTUM + 256
    L = rng.choice([bound + 3000, bound + 9000, 2 * bound] + ([3 * bound, 8 * bound] if thorough else []))
    fill = _fill(rng, L)[:L]
    if not client:
        kind = rng.choice(['request-line', 'header-line', 'many-headers', 'chunk-size-line', 'chunk-ext', 'trailer-line', 'body-cl', 'body-chunk',
                           'body-cl-expect'])
        ling = 1 if (kind.startswith('body-cl') and rng.random() < 0.6) else 0
        head = b"POST /p HTTP/1.1\r\nHost: h\r\n"
        if kind == 'request-line':
            data = b"GET /" + fill
        elif kind == 'header-line':
            data = head + b"X-Big: " + fill
        elif kind == 'many-headers':
            data = head + b"".join(b"X-%d: vvvvvvvv\r\n" % i for i in range(L // 16))
        elif kind == 'chunk-size-line':
            data = head + b"Transfer-Encoding: chunked\r\n\r\n" + rng.choice([b"0", b"00a", b"1"]) + rng.choice([b"0", b"1", b"a"]) * L
        elif kind == 'chunk-ext':
            data = head + b"Transfer-Encoding: chunked\r\n\r\n5 ;" + fill
        elif kind == 'trailer-line':
            data = head + b"Transfer-Encoding: chunked\r\n\r\n" + (b"1\r\nx\r\n" if mb >= 1 else b"") + b"0\r\nX-Trailer: " + fill
        elif kind == 'body-cl':
            data = head + b"Content-Length: %d\r\n\r\n" % L + fill + rng.choice([b"", b"GET /post HTTP/1.1\r\nHost: h\r\n\r\n"])
        elif kind == 'body-cl-expect':
            data = head + b"Expect: 100-continue\r\nContent-Length: %d\r\n\r\n" % L + fill + rng.choice([b"", b"GET /post HTTP/1.1\r\nHost: h\r\n\r\n"])
        else:
            data = head + b"Transfer-Encoding: chunked\r\n\r\n%x\r\n" % L + fill + b"\r\n0\r\n\r\n"
        opts = "mh=%d,mb=%d,ling=%d,hwcb=1" % (mh, mb, ling)
        return dict(mode='S', data=data, opts=opts, requests=[], end=None, tags=['probe-server', 'probe-' + kind, 'ling%d' % ling], cfg=dict(mh=mh, mb=mb, ling=ling))
    kind = rng.choice(['status-line', 'header-line', 'many-headers', 'chunk-size-line', 'body-cl', 'body-chunk', 'body-close'])
    head = b"HTTP/1.1 200 OK\r\nServer: s\r\n"
    end = rng.choice([None, 'X'])
    if kind == 'status-line':
        data = b"HTTP/1.1 200 " + fill
    elif kind == 'header-line':
        data = head + b"X-Big: " + fill
    elif kind == 'many-headers':
        data = head + b"".join(b"X-%d: vvvvvvvv\r\n" % i for i in range(L // 16))
    elif kind == 'chunk-size-line':
        data = head + b"Transfer-Encoding: chunked\r\n\r\n" + b"0" * L
    elif kind == 'body-cl':
        data = head + b"Content-Length: %d\r\n\r\n" % L + fill
    elif kind == 'body-chunk':
        data = head + b"Transfer-Encoding: chunked\r\n\r\n%x\r\n" % L + fill + b"\r\n0\r\n\r\n"
    else:
        data = head + b"\r\n" + fill
    opts = "mh=%d,mb=%d,hwcb=1" % (mh, mb)
    return dict(mode='C', data=data, opts=opts, requests=[b"GET"], end=end, tags=['probe-client', 'probe-' + kind], cfg=dict(mh=mh, mb=mb, ling=0))


def segmentations_big(rng, data, thorough=False):
    """Segmentations for possibly large streams: one-shot, byte-at-a-time over the first bytes + coarse rest,
    structural cuts (capped), random cuts; thorough adds 4096-byte blocks and another random one."""
    return segmentations(rng, data, thorough=thorough, byte_cap=200)
