"""Workload generators for harness/h_httpmsg.c (C26, C27, C30).

A *case* is a list of script lines plus a JSON-serialisable `meta` dict that
the oracle of the property needs (bytes are stored as hex strings).  Cases are
independent; a job is one script file holding many cases.
"""
import random


def hx(b):
    if b is None:
        return "-"
    if isinstance(b, str):
        b = b.encode("latin1")
    return b.hex() if b else "."


def unhx(s):
    if s == "-" or s is None:
        return None
    if s == ".":
        return b""
    return bytes.fromhex(s)


class Case(object):
    def __init__(self, cid):
        self.id = cid
        self.lines = ["case %d" % cid]
        self.meta = {"id": cid}

    def c(self, *a):
        self.lines.append(" ".join(str(x) for x in a))

    def text(self):
        return "\n".join(self.lines + ["end"]) + "\n"


# --------------------------------------------------------------------------
# trace reading
def read_trace(path):
    """-> {case id: [token lists]} for the 'T <case> ...' lines of a harness stdout file"""
    out = {}
    with open(path, "r", errors="replace") as f:
        for ln in f:
            if not ln.startswith("T "):
                continue
            p = ln.split()
            try:
                cid = int(p[1])
            except (ValueError, IndexError):
                continue
            out.setdefault(cid, []).append(p[2:])
    return out


def peer_bytes(ev):
    """per peer id: (bytes received, eof flag, error flag) from a case's events"""
    rx = {}
    for e in ev:
        if e[0] == "prx":
            d = rx.setdefault(int(e[1]), [bytearray(), False, False])
            d[0] += unhx(e[2])
        elif e[0] == "prxq":
            d = rx.setdefault(int(e[1]), [bytearray(), False, False])
            d[0] += b"?" * int(e[2])
        elif e[0] == "peof":
            rx.setdefault(int(e[1]), [bytearray(), False, False])[1] = True
        elif e[0] == "perr":
            rx.setdefault(int(e[1]), [bytearray(), False, False])[2] = True
    return {k: (bytes(v[0]), v[1], v[2]) for k, v in rx.items()}


# ==========================================================================
# C26
# ==========================================================================
STD_METHODS = [(1, b"GET"), (2, b"POST"), (4, b"HEAD"), (8, b"PUT"), (16, b"DELETE"), (32, b"OPTIONS"), (64, b"TRACE"),
               (256, b"PATCH"), (512, b"PROPFIND"), (1024, b"PROPPATCH"), (2048, b"MKCOL"), (4096, b"LOCK"),
               (8192, b"UNLOCK"), (16384, b"COPY"), (32768, b"MOVE")]
EXT_METHODS = [(0x10000, b"REPORT", 1), (0x20000, b"PURGE", 0)]
NOBODY_METHODS = (4, 64)          # HEAD, TRACE: the library adds no Content-Length for them
TOKEN_NAMES = [b"X-Foo", b"Accept", b"x-a1", b"X-Request-Id", b"Cache-Control", b"ETag", b"X_under", b"X.dot",
               b"!#$%&'*+-.^_`|~09Az", b"A", b"Server", b"Set-Cookie", b"Location", b"WWW-Authenticate"]


def _benign_value(r, long_ok=True):
    k = r.randrange(12)
    if k == 0:
        return b""
    if k == 1:
        return b"v"
    if k == 2:
        return bytes(r.choice(b"abcXYZ019 ,;=/\"'()<>@[]{}?\\:%") for _ in range(r.randrange(1, 40))).strip(b" ") or b"x"
    if k == 3:
        return bytes(r.randrange(0x80, 0x100) for _ in range(r.randrange(1, 12)))
    if k == 4:
        return b"a\tb  c"
    if k == 5:
        return b"%s%n%d%x%%"
    if k == 6:
        return bytes(r.choice([1, 2, 7, 8, 0x0b, 0x0c, 0x1b, 0x7f]) for _ in range(r.randrange(1, 4))) + b"z"
    if k == 7 and long_ok:
        return bytes(r.choice(b"abcdefghij0123456789-") for _ in range(r.choice([255, 256, 1023, 1024, 4095, 4096, 4097, 9000])))
    if k == 8:
        return b"text/plain; charset=utf-8"
    if k == 9:
        return b"key: value: more"
    if k == 10:
        return b"  lead and trail \t"
    return b"W/\"abc\", \"def\""


INJ_TAILS = [b"X-Injected: 1", b"Set-Cookie: a=b", b"Content-Length: 0", b"Transfer-Encoding: chunked"]


def _crlf_injection(r):
    nl = r.choice([b"\r\n", b"\n", b"\r\n", b"\n\r", b"\r\r\n"])
    k = r.randrange(6)
    t = r.choice(INJ_TAILS)
    if k == 0:
        return b"a" + nl + t
    if k == 1:
        return nl + t
    if k == 2:
        return b"a" + nl + nl + b"<html>split</html>"
    if k == 3:
        return b"a" + nl + t + nl + nl + b"HTTP/1.1 200 OK\r\nContent-Length: 1\r\n\r\nX"
    if k == 4:
        return b"a" + nl
    return b"a" + nl + b"b"


def _fold_value(r):
    return r.choice([b"a\r\n b", b"a\n\tb", b"a\r\n \r\n b", b"a\r\n\t \tb c", b"a\r b", b"a\n b\n c"])


def _blankline_value(r):
    return r.choice([b"a\r\n\r\n b", b"a\n\n b", b"a\r\n\n\tb", b"a\r\n\r\n <html>x</html>", b"a\r\r\n\n b",
                     b"a\r\n\r\n\tHTTP/1.1 200 OK\r\n\r\n", b"\r\n\r\n x"])


NONTOKEN_NAMES = [b"A B", b"A:B", b"A\tB", b"\xc4x", b"A(B)", b" lead", b"trail ", b"@x", b"X-A: 1", b"a,b", b"a\x7f", b"a\x01b", b":x"]


def _body(r, big=False):
    k = r.randrange(10)
    if k == 0:
        return b""
    if k == 1:
        return b"x"
    if k == 2:
        return b"0\r\n\r\n"
    if k == 3:
        return b"\r\n\r\nHTTP/1.1 200 OK\r\nContent-Length: 0\r\n\r\n"
    if k == 4:
        return bytes(r.randrange(256) for _ in range(r.randrange(1, 300)))
    if k == 5:
        return b"GET /smuggled HTTP/1.1\r\nHost: x\r\n\r\n"
    if k == 6 and big:
        n = r.choice([4095, 4096, 4097, 16384, 70000])
        return bytes((i * 7 + 3) & 0xff for i in range(n))
    if k == 7:
        return b"5\r\nhello\r\n0\r\n\r\n"
    return bytes(r.choice(b"abcdefghijklmnopqrstuvwxyz \r\n") for _ in range(r.randrange(1, 120)))


def _reason(r):
    return r.choice([b"OK", b"", b"Not Found", b"I'm a teapot", b"Custom Reason: with colon", b"8bit \xe9\xff", b"%s%n",
                     b"x" * 300, b" lead", b"trail ", b"a\tb"])


def gen_c26(r, cid, thorough):
    c = Case(cid)
    m = c.meta
    if r.random() < 0.58:
        _c26_server(r, c, thorough)
    else:
        _c26_client(r, c, thorough)
    m["prop"] = "C26"
    return c


def _user_headers(r, tag, n):
    """-> list of [name, value, attack_flag]"""
    hs = []
    for _ in range(n):
        hs.append([r.choice(TOKEN_NAMES), _benign_value(r), 0])
    atk = None
    if tag == "header-value-crlf-injection":
        atk = [r.choice(TOKEN_NAMES), _crlf_injection(r), 1]
    elif tag == "header-value-fold":
        atk = [r.choice(TOKEN_NAMES), _fold_value(r), 1]
    elif tag == "header-value-blank-line-injection":
        atk = [r.choice(TOKEN_NAMES), _blankline_value(r), 1]
    elif tag == "header-name-crlf-injection":
        atk = [r.choice([b"X\r\nInj", b"X\nInj: 1", b"\r\nX", b"X\r\n", b"X: 1\r\nY", b"X\r\n\r\nZ"]), b"v", 1]
    elif tag == "header-name-non-token-accepted":
        atk = [r.choice(NONTOKEN_NAMES), r.choice([b"v", b"a b", b""]), 1]
    elif tag == "header-name-empty":
        atk = [b"", b"v", 1]
    if atk:
        hs.insert(r.randrange(len(hs) + 1), atk)
    return hs


SRV_TAGS = ["reason-crlf-injection", "header-value-crlf-injection", "header-value-fold", "header-value-blank-line-injection",
            "header-name-crlf-injection", "header-name-non-token-accepted", "header-name-empty",
            "body-sent-on-bodiless-response", "chunked-reply-http10-keepalive", "default-content-type-crlf"]


def _c26_server(r, c, thorough):
    m = c.meta
    m["dir"] = "srv"
    tag = "benign" if r.random() < 0.45 else r.choice(SRV_TAGS)
    nreq = 1
    ver = b"1.1" if r.random() < 0.7 else b"1.0"
    conn = r.choice([None, None, b"keep-alive", b"close"])
    if tag == "chunked-reply-http10-keepalive":
        ver, conn = b"1.0", r.choice([b"keep-alive", b"Keep-Alive"])
    if tag == "benign" and ver == b"1.1" and conn != b"close" and r.random() < 0.3:
        nreq = 2
    ctype = "default"
    k = r.random()
    if tag == "default-content-type-crlf":
        ctype = hx(b"text/x\r\nX-Injected: 1")
    elif k < 0.15:
        ctype = "-"
    elif k < 0.3:
        ctype = hx(r.choice([b"application/json", b"text/plain; charset=utf-8", b"x/y \xe9"]))
    c.c("srv 0")
    if ctype != "default":
        c.c("srvopt 0 ctype", ctype)
    m["ctype"] = ctype
    m["tag"] = tag
    m["reqs"] = []
    wire = b""
    for i in range(nreq):
        meth = r.choice([b"GET", b"GET", b"GET", b"HEAD", b"POST", b"PUT", b"DELETE"])
        mode = r.choice(["reply", "reply", "chunked", "error"])
        if tag == "chunked-reply-http10-keepalive":
            mode = "chunked"
            meth = r.choice([b"GET", b"POST"])
        if nreq == 2 and mode == "error":
            mode = "reply"               # error pages close the connection
        if tag != "chunked-reply-http10-keepalive" and mode == "chunked" and ver == b"1.0" and conn == b"keep-alive":
            mode = "reply"               # that combination is its own attack class
        if tag == "body-sent-on-bodiless-response":
            kk = r.randrange(3)
            if kk == 0:
                meth = b"HEAD"
        code = r.choice([200, 200, 200, 201, 202, 206, 301, 302, 400, 403, 404, 418, 500, 503, 599])
        if mode == "error":
            code = r.choice([400, 401, 403, 404, 405, 413, 500, 501, 503, 599])
        body = _body(r, big=thorough or r.random() < 0.1)
        if tag == "body-sent-on-bodiless-response":
            if meth != b"HEAD":
                code = r.choice([204, 304])
            if mode != "error":
                body = body or b"BODY"
        elif meth != b"HEAD" and mode == "reply" and r.random() < 0.06:
            code = r.choice([204, 304])
            body = b""                   # benign: no body for a bodiless status
        elif meth == b"HEAD" and mode != "error":
            body = b""                   # benign HEAD: handler sends headers only
        elif meth == b"HEAD":
            mode = "reply"               # (error pages for HEAD are the bodiless attack class)
            body = b""
        reason = _reason(r) if r.random() < 0.7 else None
        if tag == "reason-crlf-injection":
            reason = r.choice([b"OK", b""]) + _crlf_injection(r)[1:]
        nh = r.randrange(0, 4)
        hs = _user_headers(r, tag, nh)
        # consistent caller-supplied framing/auto headers (must not be duplicated)
        if tag == "benign" and mode == "reply" and r.random() < 0.12:
            hs.append([b"Content-Type", b"application/x-custom", 0])
        if tag == "benign" and mode == "reply" and r.random() < 0.08 and code not in (204, 304) and meth != b"HEAD":
            hs.append([b"Content-Length", str(len(body)).encode(), 0])
        if tag == "benign" and r.random() < 0.06:
            hs.append([b"Date", b"Thu, 01 Jan 1970 00:00:00 GMT", 0])
        path = b"/p%d" % i
        rb = b""
        if meth in (b"POST", b"PUT"):
            rb = b"req-body-%d" % i
        req = meth + b" " + path + b" HTTP/" + ver + b"\r\nHost: t\r\n"
        if conn:
            req += b"Connection: " + conn + b"\r\n"
        chunked_req = bool(rb) and ver == b"1.1" and r.random() < 0.4   # request body sent chunked (seeded defect C26-1)
        if rb and chunked_req:
            req += b"Transfer-Encoding: chunked\r\n\r\n%x\r\n" % len(rb) + rb + b"\r\n0\r\n\r\n"
        else:
            if rb:
                req += b"Content-Length: %d\r\n" % len(rb)
            req += b"\r\n" + rb
        wire += req
        c.c("cb 0 %d %s" % (i, hx(path)))
        for n_, v_, _a in hs:
            c.c("rp %d hdr %s %s" % (i, hx(n_), hx(v_)))
        chunks = None
        if mode == "reply":
            nullbuf = (body == b"" and r.random() < 0.3)
            c.c("rp %d reply %d %s %s" % (i, code, hx(reason), "-" if nullbuf else hx(body)))
        elif mode == "error":
            c.c("rp %d error %d %s" % (i, code, hx(reason)))
        else:
            chunks = []
            for _ in range(r.randrange(0, 5)):
                chunks.append(_body(r) if r.random() < 0.8 else b"")
            if tag == "body-sent-on-bodiless-response" and not any(chunks):
                chunks.append(b"BODY")
            if tag == "chunked-reply-http10-keepalive" and not any(chunks):
                chunks.append(b"data")
            if meth == b"HEAD" and tag != "body-sent-on-bodiless-response":
                chunks = []
            if tag == "benign" and any(chunks) and code not in (204, 304) and meth != b"HEAD" and r.random() < 0.25:
                # streamed reply whose length the caller announces itself: the library must then not chunk-encode it
                c.c("rp %d hdr %s %s" % (i, hx(b"Content-Length"), hx(str(len(b"".join(chunks))).encode())))
                hs.append([b"Content-Length", str(len(b"".join(chunks))).encode(), 0])
            c.c("rp %d start %d %s" % (i, code, hx(reason)))
            for ch in chunks:
                c.c("rp %d chunk %s" % (i, hx(ch)))
            c.c("rp %d end" % i)
            body = b"".join(chunks)
        m["reqs"].append(dict(method=meth.decode(), ver=ver.decode(), conn=conn.decode() if conn else None, mode=mode, code=code,
                              reason=hx(reason), body=hx(body), hdrs=[[hx(a), hx(b), f] for a, b, f in hs]))
    c.c("pc 1 0")
    seg = r.random()
    if seg < 0.75 or len(wire) < 4:
        c.c("psend 1", hx(wire))
        c.c("step")
    else:
        cut = r.randrange(1, len(wire))
        c.c("psend 1", hx(wire[:cut]))
        c.c("step")
        c.c("psend 1", hx(wire[cut:]))
        c.c("step")
    return c


CLI_TAGS = ["request-uri-crlf-injection", "header-value-crlf-injection", "header-value-fold", "header-value-blank-line-injection",
            "header-name-crlf-injection", "header-name-non-token-accepted", "header-name-empty",
            "request-body-on-bodiless-method"]


def _uri(r):
    k = r.randrange(10)
    if k == 0:
        return b"/"
    if k == 1:
        return b"/a/b/c?x=1&y=2"
    if k == 2:
        return b"http://example.com:8080/abs/path?q"
    if k == 3:
        return b"/with space/and\ttab"
    if k == 4:
        return b"/8bit/\xe9\xff\x80"
    if k == 5:
        return b"/" + bytes(r.choice(b"abcdefgh/") for _ in range(r.choice([255, 1024, 4096, 8000])))
    if k == 6:
        return b"/%25%00%0d%0a/%s%n"
    if k == 7:
        return b"*"
    if k == 8:
        return b"/ctl\x01\x7f\x0b"
    return b"/" + bytes(r.choice(b"abc/?&=%+-._~:@!$'()*,;") for _ in range(r.randrange(1, 30)))


def _c26_client(r, c, thorough):
    m = c.meta
    m["dir"] = "cli"
    tag = "benign" if r.random() < 0.5 else r.choice(CLI_TAGS)
    m["tag"] = tag
    for t, n, hb in EXT_METHODS:
        c.c("extm", "0x%x" % t, n.decode(), hb)
    kk = r.random()
    if kk < 0.8:
        typ, name = r.choice(STD_METHODS)
        hasbody = typ not in NOBODY_METHODS
    else:
        typ, name, hb = r.choice(EXT_METHODS)
        hasbody = bool(hb)
    body = _body(r, big=thorough or r.random() < 0.1) if r.random() < 0.6 else b""
    if tag == "request-body-on-bodiless-method":
        typ, name = r.choice([(4, b"HEAD"), (64, b"TRACE")])
        hasbody = False
        body = body or b"GET /smuggled HTTP/1.1\r\n\r\n"
    elif not hasbody:
        body = b""
    uri = _uri(r)
    if tag == "request-uri-crlf-injection":
        nl = r.choice([b"\r\n", b"\n"])
        uri = r.choice([b"/a" + nl + b"X-Injected: 1", b"/a HTTP/1.1" + nl + b"Host: evil" + nl + nl + b"GET /b",
                        b"/a" + nl + nl + b"GET /b HTTP/1.1" + nl + nl, nl + b"/a", b"/a" + nl])
    hs = _user_headers(r, tag, r.randrange(0, 4))
    if r.random() < 0.7:
        hs.insert(0, [b"Host", b"example.com", 0])
    if tag == "benign" and body and hasbody and r.random() < 0.1:
        hs.append([b"Content-Length", str(len(body)).encode(), 0])
    reuse = tag == "benign" and r.random() < 0.06
    c.c("lsn 0")
    if reuse:
        # the request under test is the SECOND one on this evhttp_connection: the first, with a body far larger than the
        # socket takes, goes to a peer that never reads and is cancelled while only partly written; nothing of it may
        # reach the connection the second request is sent on (seed C26-3)
        c.c("lprog 0 0:z")
        c.c("lprog 0 0:n")
        c.c("con 0 0")
        c.c("rq 1 errcb")
        c.c("rqbz 1 8388608")
        c.c("mk 1 0 0x2 %s" % hx(b"/first"))
        c.c("step")
        c.c("cancel 1")
        c.c("step")
    else:
        c.c("lprog 0 0:n")
        c.c("con 0 0")
    c.c("rq 0 errcb")
    for n_, v_, _a in hs:
        c.c("rqh 0", hx(n_), hx(v_))
    if body:
        c.c("rqb 0", hx(body))
    c.c("mk 0 0 0x%x %s" % (typ, hx(uri)))
    c.c("step")
    m.update(method=name.decode(), typ=typ, hasbody=hasbody, uri=hx(uri), body=hx(body), hdrs=[[hx(a), hx(b), f] for a, b, f in hs], reuse=int(reuse))
    return c


# ==========================================================================
# C30
# ==========================================================================
LABELS = ["a", "b", "foo", "www", "example", "com", "org", "x1"]
PATH_POOL = [b"/", b"/a", b"/ab", b"/a/b", b"/admin", b"/a b", b"/a%62", b"/a?b", b"/a+b", b"/\xe9", b"/A", b"/a/", b"/a//b",
             b"*", b"/admin/x", b"/a%", b"/index.html", b"/a;p", b"/%2F", b"/a#b"]


def _hostname(r):
    n = r.randrange(1, 4)
    return ".".join(r.choice(LABELS) for _ in range(n))


def _pattern(r):
    k = r.randrange(10)
    h = _hostname(r)
    if k < 3:
        return h
    if k < 5:
        return "*." + h
    if k == 5:
        return h + ".*"
    if k == 6:
        return "*"
    if k == 7:
        parts = h.split(".")
        parts[r.randrange(len(parts))] = r.choice(["*", "w*", "*o", "f*o", "*a*"])
        return ".".join(parts)
    if k == 8:
        return "*.*"
    return h.upper()


def _flipcase(r, s):
    return "".join(ch.upper() if r.random() < 0.4 else ch.lower() for ch in s)


def _pct(r, b):
    return b"%" + (b"%02X" % b if r.random() < 0.5 else b"%02x" % b)


def _encode_variant(r, path):
    """request-target bytes whose single percent-decoding is (mostly) `path`, with adversarial twists"""
    out = bytearray()
    for i, ch in enumerate(path):
        must = ch in b" ?#%" or ch >= 0x80 or ch < 0x21
        if i == 0 and ch == 0x2f:
            out.append(ch)               # origin-form / absolute-form paths start with a literal slash
        elif must or r.random() < 0.25:
            out += _pct(r, ch)
        else:
            out.append(ch)
    return bytes(out)


def gen_c30(r, cid, thorough):
    c = Case(cid)
    m = c.meta
    m["prop"] = "C30"
    for t, n, hb in EXT_METHODS:
        c.c("extm", "0x%x" % t, n.decode(), hb)
    c.c("srv 0")
    # ---- configuration tree
    servers = {0: dict(parent=None, pattern=None, aliases=[], cbs=[], gencb=None, children=[])}
    nv = r.choice([0, 0, 1, 2, 3, 4])
    nextcb = 0
    for i in range(1, nv + 1):
        par = r.choice([0, 0] + [k for k in servers if k != 0 and servers[k]["parent"] == 0])
        pat = _pattern(r)
        servers[i] = dict(parent=par, pattern=pat, aliases=[], cbs=[], gencb=None, children=[])
        servers[par]["children"].append(i)
        c.c("vhost %d %d %s" % (par, i, hx(pat)))
    for s in servers:
        for _ in range(r.choice([0, 0, 0, 1, 2])):
            al = _hostname(r)
            if r.random() < 0.3:
                al = al.upper()
            servers[s]["aliases"].append(al)
            c.c("alias %d %s" % (s, hx(al)))
    for s in servers:
        pool = r.sample(PATH_POOL, r.randrange(0, 6))
        if r.random() < 0.5 and b"/admin" not in pool:
            pool.append(b"/admin")
        for p in pool:
            servers[s]["cbs"].append([hx(p), nextcb])
            c.c("cb %d %d %s" % (s, nextcb, hx(p)))
            nextcb += 1
        if r.random() < 0.6:
            servers[s]["gencb"] = nextcb
            c.c("gencb %d %d" % (s, nextcb))
            nextcb += 1
    # allowed methods
    mask = None
    if r.random() < 0.5:
        mask = 0
        for t, _n in STD_METHODS:
            if r.random() < 0.5:
                mask |= t
        for t, _n, _hb in EXT_METHODS:
            if r.random() < 0.5:
                mask |= t
        if r.random() < 0.8:
            mask |= 1
        c.c("srvopt 0 allowed 0x%x" % mask)
    m["servers"] = {str(k): v for k, v in servers.items()}
    m["mask"] = mask
    # ---- requests
    allpaths = [unhx(p) for s in servers.values() for p, _ in s["cbs"]] or [b"/a"]
    hostpool = []
    for s in servers.values():
        hostpool += s["aliases"]
        if s["pattern"]:
            pat = s["pattern"]
            hostpool.append(pat.replace("*", r.choice(LABELS)))
            hostpool.append(pat.replace("*", ""))
            hostpool.append(pat.replace("*", "x.y"))
    reqs = []
    nreq = r.randrange(3, 9)
    for i in range(nreq):
        base = r.choice(allpaths) if r.random() < 0.85 else r.choice(PATH_POOL)
        k = r.randrange(16)
        tgt_path = _encode_variant(r, base)
        if k == 0:
            tgt_path += r.choice([b"%00", b"%00zzz", b"%00/../x"])
        elif k == 1:
            tgt_path = _encode_variant(r, base[:-1]) + b"%25" + (b"%02x" % base[-1])   # double encoding
        elif k == 2:
            tgt_path += r.choice([b"/", b"x", b"%2F", b"%2f", b"%20"])
        elif k == 3 and len(base) > 1:
            tgt_path = _encode_variant(r, base[:r.randrange(1, len(base))])
        elif k == 4:
            tgt_path += r.choice([b"%zz", b"%4", b"%", b"%%41", b"%4g"])
        elif k == 5:
            tgt_path = _encode_variant(r, base.swapcase())
        elif k == 6:
            tgt_path = _encode_variant(r, base[:1] + base[1:].replace(b"/", b"\x00"))  # %00 instead of inner slashes
        elif k == 7 and b"/" in base[1:]:
            tgt_path = bytes(base[:1]) + base[1:].replace(b"/", b"%2F")
        if tgt_path.startswith(b"//") or tgt_path == b"":
            tgt_path = b"/" + tgt_path.lstrip(b"/")
        query = r.choice([b"", b"", b"?x=1", b"?", b"?a=/admin&b=%00", b"?/a/b"])
        if base == b"*" or not tgt_path.startswith(b"/"):
            tgt_path, query = b"*", b""   # asterisk-form is exactly "*"
        host = None
        hk = r.random()
        if hk < 0.55 and hostpool:
            host = r.choice(hostpool)
        elif hk < 0.85:
            host = _hostname(r)
        if host is not None and r.random() < 0.35:
            host = _flipcase(r, host)
        hosthdr = None
        form = "origin"
        if host is not None:
            port = r.choice(["", "", ":80", ":8080", ":", ":0"])
            if host and r.random() < 0.2 and not tgt_path.startswith(b"*"):
                form = "absolute"
                port = r.choice(["", ":80", ":8080"])
            hosthdr = host + port
        # method
        mk = r.random()
        if mk < 0.6:
            meth = b"GET"
        elif mk < 0.9:
            meth = r.choice(STD_METHODS)[1]
        elif mk < 0.95:
            meth = r.choice(EXT_METHODS)[1]
        else:
            meth = r.choice([b"FOO", b"get", b"GETX", b"PROPFINDX", b"M-SEARCH"])
        if meth == b"CONNECT":
            meth = b"GET"
        ver = b"1.1" if r.random() < 0.85 else b"1.0"
        if form == "absolute":
            other = _hostname(r) if r.random() < 0.5 else hosthdr
            target = b"http://" + hosthdr.encode() + tgt_path + query
            hdrs = b"Host: " + other.encode() + b"\r\n"
        else:
            target = tgt_path + query
            hn = r.choice([b"Host", b"Host", b"host", b"HOST", b"hOsT"])
            hdrs = (hn + b": " + hosthdr.encode() + b"\r\n") if hosthdr is not None else b""
        wire = meth + b" " + target + b" HTTP/" + ver + b"\r\n" + hdrs + b"Connection: close\r\n\r\n"
        pid = i + 1
        c.c("pc %d 0" % pid)
        c.c("psend %d %s" % (pid, hx(wire)))
        c.c("step")
        reqs.append(dict(pid=pid, method=meth.decode(), path=hx(tgt_path), query=hx(query), host=hosthdr, form=form, ver=ver.decode(), wire=hx(wire)))
    m["reqs"] = reqs
    return c


# ==========================================================================
# C27
# ==========================================================================
def _resp(style, tag=b""):
    body = b"hello" + tag
    if style == "cl":
        return b"HTTP/1.1 200 OK\r\nContent-Length: %d\r\n\r\n" % len(body) + body, False
    if style == "chunked":
        return b"HTTP/1.1 200 OK\r\nTransfer-Encoding: chunked\r\n\r\n3\r\nhel\r\n%x\r\n" % (len(body) - 3) + body[3:] + b"\r\n0\r\n\r\n", False
    if style == "close":          # close-delimited: the peer must close afterwards
        return b"HTTP/1.1 200 OK\r\n\r\n" + body, True
    if style == "connclose":
        return b"HTTP/1.1 200 OK\r\nConnection: close\r\nContent-Length: %d\r\n\r\n" % len(body) + body, True
    if style == "204":
        return b"HTTP/1.1 204 No Content\r\n\r\n", False
    if style == "http10":
        return b"HTTP/1.0 200 OK\r\nContent-Length: %d\r\n\r\n" % len(body) + body, False
    if style == "100":
        return b"HTTP/1.1 100 Continue\r\n\r\nHTTP/1.1 200 OK\r\nContent-Length: %d\r\n\r\n" % len(body) + body, False
    if style == "junk":
        return b"HTP/9 what\r\n\r\n", True
    raise ValueError(style)


RESP_STYLES = ["cl", "cl", "cl", "chunked", "close", "connclose", "204", "http10", "100"]


def c27_request_wire(post):
    """(per-request uri for index i, wire length) - every request of a case has the same length"""
    if post:
        return lambda i: b"/r%02d" % i, len(b"POST /r00 HTTP/1.1\r\nHost: h\r\nContent-Length: 4\r\n\r\nbody")
    return lambda i: b"/r%02d" % i, len(b"GET /r00 HTTP/1.1\r\nHost: h\r\n\r\n")


def _good_prog(L, n, style="cl"):
    steps = []
    for i in range(n):
        resp, closes = _resp(style)
        steps.append("%d:s%s" % (L, hx(resp)))
        if closes:
            steps.append("0:c")
            break
    return ",".join(steps)


def c27_dims(post, style):
    """(request wire length, response length) for the enumeration of fault points"""
    return c27_request_wire(post)[1], len(_resp(style)[0])


def gen_c27_client(r, cid, thorough, fault=None, fixed=None):
    """one client-side exchange with one fault point (and possibly a user action); `fixed` pins
    dimensions for the exhaustive enumeration (nreq, post, retries, style, j, how, i, k, plain)"""
    fixed = fixed or {}
    c = Case(cid)
    m = c.meta
    m["prop"] = "C27"
    m["kind"] = "client"
    nreq = fixed.get("nreq") or r.choice([1, 1, 2, 2, 3, 4, 5])
    post = fixed["post"] if "post" in fixed else r.random() < 0.3
    urif, L = c27_request_wire(post)
    retries = fixed["retries"] if "retries" in fixed else r.choice([0, 0, 1, 2, 3])
    timeout = r.choice([None, None, 2, 7, 60])
    style = fixed.get("style") or r.choice(RESP_STYLES)
    resp, resp_closes = _resp(style)
    M = len(resp)
    retry_then_fail = False
    if fault is None:
        fault = r.choice(["none", "refuse", "refuse-then-listen", "accept-close", "req-cut", "req-cut", "resp-cut", "resp-cut", "resp-cut",
                          "resp-then-close", "stall", "sysfault", "junk", "double-response", "refuse-then-listen"])
        # targeted history (seeded defect C27-1): connect refused -> retry connects -> the only request fails before its
        # response completes -> a new request is made later on the same connection object
        if fault == "refuse-then-listen" and not fixed and r.random() < 0.5:
            retry_then_fail = True
            nreq = 1
            retries = r.choice([1, 2, 3])
    j = fixed["j"] if "j" in fixed else r.randrange(nreq)   # request index (on its connection) at which the fault strikes
    how = fixed.get("how") or r.choice(["c", "r", "w"])
    plain = bool(fixed.get("plain"))
    progs = []
    refuse = False
    listen_after = None
    extra = []
    fdesc = dict(type=fault, j=j, how=how)
    good_before = ["%d:s%s" % (L, hx(resp))] * j if not resp_closes else []
    if resp_closes:
        j = 0
        fdesc["j"] = 0
    if fault == "none":
        pass
    elif fault == "refuse":
        refuse = True
    elif fault == "refuse-then-listen":
        refuse = True
        listen_after = r.randrange(0, retries) if retry_then_fail else r.randrange(0, 4)   # retry_then_fail: listening before the retries run out
        fdesc["listen_after"] = listen_after
    elif fault == "accept-close":
        progs.append("0:" + r.choice(["c", "r", "w"]))
        if r.random() < 0.4:
            progs.append("0:" + r.choice(["c", "r"]))
    elif fault == "req-cut":
        i = fixed["i"] if "i" in fixed else r.randrange(1, L + 1)
        fdesc["i"] = i
        progs.append(",".join(good_before + ["%d:%s" % (i, how)]))
    elif fault == "resp-cut":
        k = fixed["k"] if "k" in fixed else r.randrange(0, M + 1)
        fdesc["k"] = k
        st = good_before + ["%d:s%s" % (L, hx(resp[:k]))] if k else good_before + ["%d:s." % L]
        progs.append(",".join(st + ["0:" + (fixed.get("how") or r.choice(["c", "r", "w", "n"]))]))
    elif fault == "resp-then-close":
        progs.append(",".join(good_before + ["%d:s%s" % (L, hx(resp)), "0:" + r.choice(["c", "r", "w"])]))
    elif fault == "stall":
        progs.append(",".join(good_before + ["%d:n" % L]))
        if timeout is None and r.random() < 0.7:
            timeout = r.choice([1, 3, 10])
    elif fault == "sysfault":
        sym = r.choice(["writev", "readv"])
        nth = r.randrange(1, 2 * nreq + 2)
        errno_ = r.choice([104, 32, 110, 5])      # ECONNRESET EPIPE ETIMEDOUT EIO
        extra.append("sferr %s %d %d" % (sym, nth, errno_))
        fdesc.update(sym=sym, nth=nth, errno=errno_)
    elif fault == "junk":
        jr, _ = _resp("junk")
        progs.append(",".join(good_before + ["%d:s%s" % (L, hx(jr))]))
    elif fault == "double-response":
        progs.append(",".join(good_before + ["%d:s%s" % (L, hx(resp + resp))]))
    # connections after the faulty one: good (sometimes a second fault)
    if retry_then_fail:
        progs.append(r.choice(["%d:%s" % (r.randrange(1, L + 1), r.choice(["c", "r"])), "%d:s%s,0:%s" % (L, hx(resp[:max(1, M // 2)]), r.choice(["c", "r"]))]))
    elif r.random() < 0.15 and fault not in ("none", "refuse") and not plain:
        progs.append("%d:%s" % (r.randrange(0, L + 1), r.choice(["c", "r"])))
    progs.append(_good_prog(L, 6, style if r.random() < 0.5 else "cl"))
    short = None
    if r.random() < 0.3 and not (plain and r.random() < 0.5):
        short = (r.choice(["writev", "readv"]), r.choice([1, 1, 2, 7]))
        extra.append("sfshort %s %d" % short)
    for t, n, hb in EXT_METHODS:
        pass
    c.c("lsn 0" + (" refuse" if refuse else ""))
    for p in progs:
        c.c("lprog 0", p)
    for e in extra:
        c.c(e)
    autofree = r.random() < 0.12 and not plain
    conargs = "retries %d" % retries
    if timeout is not None:
        conargs += " timeout %d" % timeout
    if r.random() < 0.2:
        conargs += " retrytv %d" % r.choice([1, 100, 1500])
    rowe = False
    if r.random() < 0.15:
        conargs += " flags 0x10"      # EVHTTP_CON_READ_ON_WRITE_ERROR
        rowe = True
    if autofree:
        conargs += " autofree 1"
    c.c("con 0 0", conargs)
    # user actions
    acts = []
    if r.random() < 0.45 and not plain and not retry_then_fail:
        for _ in range(r.choice([1, 1, 2])):
            src = r.randrange(nreq)
            when = r.choice(["c", "c", "e", "k", "h"])
            what = r.choice(["cancel", "cancel", "freecon", "stop", "mk"])
            if what == "freecon" and when in ("k", "h"):
                what = "cancel"
            if what == "freecon" and autofree:
                what = "cancel"
            if what == "freecon" and fault.startswith("refuse") and r.random() < 0.7:
                what = "cancel"          # (connection free in a connect-failure callback aborts under ASan: keep it rare)
            tgt = 0
            if what == "cancel":
                tgt = r.randrange(nreq)
                if tgt == src and when != "k":
                    tgt = (src + 1) % nreq if nreq > 1 else None
                if tgt is None:
                    continue
            elif what == "mk":
                tgt = nreq + len([a for a in acts if a[2] == "mk"])
            acts.append((src, when, what, tgt))
    nextra = len([a for a in acts if a[2] == "mk"])
    # a further request made on the same connection object after everything has settled (seeded defect C27-1: the
    # connection must still be usable after connect retries and a failed exchange)
    npost = 1 if (not autofree and not plain and not any(a[2] == "freecon" for a in acts) and (retry_then_fail or r.random() < 0.35)) else 0
    opts = []
    for i in range(nreq + nextra + npost):
        o = ["errcb"]
        if r.random() < 0.4 or any(a[0] == i and a[1] == "k" for a in acts):
            o.append("chunkcb")
        if any(a[0] == i and a[1] == "h" for a in acts) or r.random() < 0.15:
            o.append("hdrcb")
        elif r.random() < 0.04:
            o.append("hdrfail")
        opts.append(o)
        c.c("rq %d %s" % (i, " ".join(o)))
        c.c("rqh %d %s %s" % (i, hx(b"Host"), hx(b"h")))
        if post:
            c.c("rqb %d %s" % (i, hx(b"body")))
    for src, when, what, tgt in acts:
        c.c("oncb %d %s %s %d" % (src, when, what, tgt))
    typ = 2 if post else 1
    for i in range(nreq, nreq + nextra):
        c.c("mk %d 0 %d %s later" % (i, typ, hx(urif(i))))
    # script-level actions between steps
    mids = []
    split_at = r.randrange(0, nreq + 1) if r.random() < 0.3 else nreq
    for i in range(nreq):
        if i == split_at and i > 0:
            c.c("step")
        c.c("mk %d 0 %d %s" % (i, typ, hx(urif(i))))
    if r.random() < 0.25 and not plain and not retry_then_fail:
        what = r.choice(["cancel", "cancel", "freecon"])
        if what == "freecon" and autofree:
            what = "cancel"
        pre = r.choice(["", "step", "tick"])
        if pre:
            c.c(pre)
        if what == "cancel":
            t = r.randrange(nreq)
            c.c("cancel %d" % t)
            mids.append(("cancel", t, pre))
        else:
            c.c("freecon 0")
            mids.append(("freecon", 0, pre))
    if listen_after is not None:
        for _ in range(listen_after):
            c.c("tick")
        c.c("lsnlisten 0")
    c.c("drain 40")
    if npost and not any(x[0] == "freecon" for x in mids):
        c.c("mk %d 0 %d %s" % (nreq + nextra, typ, hx(urif(nreq + nextra))))
        c.c("drain 40")
    m["risky"] = fault.startswith("refuse") and any(a[2] == "freecon" for a in acts)
    m.update(nreq=nreq, nextra=nextra, post=post, retries=retries, timeout=timeout, style=style, fault=fdesc, L=L,
             acts=[list(a) for a in acts], mids=[list(x) for x in mids], autofree=autofree, short=list(short) if short else None,
             opts=opts, rowe=rowe)
    return c


def gen_c27_server(r, cid, thorough):
    """clients vanishing mid-request / mid-response against an evhttp server; held and chunked replies"""
    c = Case(cid)
    m = c.meta
    m["prop"] = "C27"
    m["kind"] = "server"
    c.c("srv 0")
    if r.random() < 0.4:
        c.c("srvopt 0 timeout %d" % r.choice([1, 5, 30]))
    big = r.random() < 0.35
    if big:
        c.c("quietrx 1")
    bodytok = "@%dx42" % r.choice([200000, 600000, 1500000]) if big else hx(b"response-body")
    mode = r.choice(["reply", "reply", "hold-reply", "chunked", "chunked-hold", "error"])
    # the handler is registered for its path or as the generic callback: the two dispatch branches of
    # evhttp_handle_request hand the request over separately (seed C27-4 forgot one of them)
    reg = "cb 0 0 %s" % hx(b"/x") if r.random() < 0.5 else "gencb 0 0"
    if mode == "reply":
        c.c(reg)
        c.c("rp 0 reply 200 %s %s" % (hx(b"OK"), bodytok))
    elif mode == "hold-reply":
        c.c(reg)
        c.c("rp 0 hold")
        c.c("rp 0 reply 200 %s %s" % (hx(b"OK"), bodytok))
    elif mode == "chunked":
        c.c(reg)
        c.c("rp 0 start 200 %s" % hx(b"OK"))
        c.c("rp 0 chunk %s" % bodytok)
        c.c("rp 0 chunk %s" % hx(b"tail"))
        c.c("rp 0 end")
    elif mode == "chunked-hold":
        c.c(reg)
        c.c("rp 0 start 200 %s" % hx(b"OK"))
        c.c("rp 0 chunk %s" % bodytok)
        c.c("rp 0 hold")
        c.c("rp 0 chunk %s" % hx(b"tail"))
        c.c("rp 0 hold")
        c.c("rp 0 end")
    else:
        c.c(reg)
        c.c("rp 0 error 503 -")
    m["mode"] = mode
    m["generic"] = int(reg.startswith("gencb"))
    m["big"] = big
    npeers = r.choice([1, 1, 2, 3])
    peers = []
    ver = r.choice([b"1.1", b"1.1", b"1.0"])
    meth = r.choice([b"GET", b"GET", b"POST"])
    rb = b"0123456789" if meth == b"POST" else b""
    for p in range(1, npeers + 1):
        req = meth + b" /x?p=%d HTTP/" % p + ver + b"\r\nHost: h\r\n" + (b"Content-Length: %d\r\n" % len(rb) if rb else b"") + b"\r\n" + rb
        beh = r.choice(["complete", "complete", "cut-request", "cut-request", "vanish-before-reply", "vanish-mid-response",
                        "pipeline2", "keepalive2", "shut-after-request", "garbage"])
        how = r.choice(["pclose", "prst", "pshut"])
        d = dict(pid=p, beh=beh, how=how, sent_complete=0)
        c.c("pc %d 0" % p)
        if beh == "complete":
            c.c("psend %d %s" % (p, hx(req)))
            d["sent_complete"] = 1
            c.c("step")
        elif beh == "cut-request":
            i = r.randrange(0, len(req))
            d["i"] = i
            if i:
                c.c("psend %d %s" % (p, hx(req[:i])))
            if r.random() < 0.5:
                c.c("step")
            c.c("%s %d" % (how, p))
            c.c("step")
        elif beh == "vanish-before-reply":
            c.c("psend %d %s" % (p, hx(req)))
            d["sent_complete"] = 1
            if r.random() < 0.5:
                c.c("step")
                c.c("%s %d" % (how, p))
            else:
                c.c("%s %d" % (how, p))
                c.c("step")
            c.c("step")
        elif beh == "vanish-mid-response":
            # a program on the client peer: reset/close after k bytes of the response were read
            k = r.choice([1, 10, 17, 100, 5000, 70000]) if big else r.randrange(1, 40)
            d["k"] = k
            c.c("pprog %d %d:%s" % (p, k, r.choice(["r", "c", "w"])))
            c.c("psend %d %s" % (p, hx(req)))
            d["sent_complete"] = 1
            c.c("step")
        elif beh == "pipeline2":
            c.c("psend %d %s" % (p, hx(req + req)))
            d["sent_complete"] = 2
            c.c("step")
        elif beh == "keepalive2":
            c.c("psend %d %s" % (p, hx(req)))
            c.c("step")
            c.c("resume all")
            c.c("step")
            c.c("resume all")
            c.c("step")
            c.c("psend %d %s" % (p, hx(req)))
            d["sent_complete"] = 2
            c.c("step")
        elif beh == "shut-after-request":
            c.c("psend %d %s" % (p, hx(req)))
            d["sent_complete"] = 1
            c.c("pshut %d" % p)
            c.c("step")
        else:
            c.c("psend %d %s" % (p, hx(r.choice([b"\r\n\r\n", b"GET\r\n\r\n", b"\x00\x01\x02\r\n\r\n", b"GET / HTTP/9.9\r\n\r\n",
                                                     b"GET /x HTTP/1.1\r\nContent-Length: zz\r\n\r\n"]))))
            c.c("step")
        peers.append(d)
    # release holds, interleaved with steps / ticks
    for _ in range(3):
        c.c(r.choice(["resume all", "resume all", "step", "tick"]))
        c.c("step")
    for _ in range(5):                 # up to 2 holds per request, 2 requests per connection
        c.c("resume all")
        c.c("step")
    if r.random() < 0.5:
        c.c("tick")
    m.update(peers=peers, ver=ver.decode(), method=meth.decode())
    return c


def gen_c27_maxconn(r, cid, thorough):
    c = Case(cid)
    m = c.meta
    m["prop"] = "C27"
    m["kind"] = "maxconn"
    mx = r.choice([1, 1, 2, 3])
    extra = r.choice([1, 2, 3])
    c.c("srv 0")
    c.c("srvopt 0 maxconn %d" % mx)
    c.c("cb 0 0 %s" % hx(b"/x"))
    c.c("rp 0 hold")
    c.c("rp 0 reply 200 %s %s" % (hx(b"OK"), hx(b"served")))
    # HTTP/1.0: the server closes after the reply
    rounds = r.choice([1, 2])
    pid = 1
    plan = []
    for rd in range(rounds):
        ids = []
        for _ in range(mx + extra):
            c.c("pc %d 0" % pid)
            if r.random() < 0.5:
                c.c("step")
            c.c("psend %d %s" % (pid, hx(b"GET /x?p=%d HTTP/1.0\r\nHost: h\r\n\r\n" % pid)))
            if r.random() < 0.5:
                c.c("step")
            ids.append(pid)
            pid += 1
        c.c("step")
        c.c("resume all")
        c.c("step")
        plan.append(ids)
    m.update(max=mx, extra=extra, rounds=plan)
    return c


# ==========================================================================
# shared driver: batches of 16 script files, trace collection, replay
# ==========================================================================
NJOBS = 16


def case_hash(case):
    import hashlib
    return int.from_bytes(hashlib.blake2b(case.text().encode(), digest_size=8).digest(), "little")


def run_batch(res, prop, cases, batch_no, timeout=600, one_per_job=False):
    """write `cases` round-robin into NJOBS script files, run the harness on each, return
    {case id: [events]}.  When a process dies in a case (sanitizer abort = a violation that vlib records),
    the cases after it are re-run in a fresh process so that one crash does not hide the rest."""
    import os
    import vlib
    wd = vlib.workdir(prop)
    groups = [[] for _ in range(len(cases) if one_per_job else NJOBS)]
    for i, cs_ in enumerate(cases):
        groups[i % len(groups)].append(cs_)
    # cases known to be able to abort the process (listed sanitizer findings) go last in their shard,
    # so that a crash costs little re-running
    groups = [sorted(g, key=lambda c_: bool(c_.meta.get("risky"))) for g in groups if g]
    traces = {}
    rnd = 0
    while groups and rnd < 40:
        jobs = []
        for j, g in enumerate(groups):
            path = os.path.join(wd, "%s-b%d-r%d-%d.scr" % (prop, batch_no, rnd, j))
            text = "".join(cs_.text() for cs_ in g)
            with open(path, "w") as f:
                f.write(text)
            jobs.append(dict(args=["--arg", path], tag="%s-b%d-r%d-%d" % (prop, batch_no, rnd, j),
                             replay=dict(script=text[:4000000], whole_job=True), path=path, group=g))
        import time as _t
        _t0 = _t.time()
        outs = vlib.run_jobs(res, "asan", "h_httpmsg", jobs, timeout=timeout)
        if os.environ.get("VERIF_DEBUG"):
            vlib.log("run_batch %s b%d round %d: %d jobs %.1fs (slowest %.1fs)" % (prop, batch_no, rnd, len(jobs), _t.time() - _t0, max(o["wall"] for o in outs)))
        nxt = []
        for o in outs:
            tr = read_trace(o["out"])
            traces.update(tr)
            g = o["job"]["group"]
            unfinished = [k for k, cs_ in enumerate(g) if not tr.get(cs_.id) or tr[cs_.id][-1][0] != "end"]
            # libevent's own fatal errors (event_errx -> exit(1)) are violations, not harness trouble
            try:
                errtxt = open(o["err"], "r", errors="replace").read()
            except OSError:
                errtxt = ""
            import re as _re
            fm = _re.findall(r"^\[err\] (.*)$", errtxt, _re.M)
            if fm and unfinished and o["rc"] not in (0, "timeout"):
                msg = _re.sub(r"0x[0-9a-f]+|\d+", "N", fm[-1])[:100]
                bad = g[unfinished[0]]
                res.add_viol("libevent-fatal:" + _re.sub(r"[^A-Za-z0-9_:.-]+", "_", msg), "library called event_errx: %s | case %d" % (fm[-1][:300], bad.id),
                             dict(flavor="asan", harness="h_httpmsg", payload=dict(script=bad.text(), meta=bad.meta, expect_fatal=True)))
                res.inconclusive[:] = [x for x in res.inconclusive if o["job"]["path"] not in x]
            if unfinished and o["rc"] == -9:
                # SIGKILL never comes from the library or a sanitizer: something outside killed the shard.
                # Forget what this shard reported after the kill and run its unfinished cases again.
                res.viol[:] = [v for v in res.viol if not (o["job"]["path"] in " ".join(v["replay"].get("args", [])) and
                                                          (v["key"].startswith("crash:signal9") or v["key"].endswith(":?")))]
                nxt.append(g[unfinished[0]:])
            elif unfinished and o["rc"] != "timeout":
                rest = g[unfinished[0] + 1:]
                if rest:
                    nxt.append(rest)
            for k in ("out", "err"):
                try:
                    if not o["keys"] and o["rc"] == 0:
                        os.unlink(o[k])
                except OSError:
                    pass
            try:
                os.unlink(o["job"]["path"])
            except OSError:
                pass
        groups = nxt
        rnd += 1
    return traces


class Confirmer(object):
    """Oracle violations whose key is not a listed known finding are re-executed alone in a fresh
    process before they are reported (DESIGN 2.4: doubtful cases are re-run once).  Every case is a
    pure function of its script, so a real violation reproduces; an artefact of machine load (a
    loopback segment delivered after the harness decided the loop was idle) does not."""

    def __init__(self, res, prop, judge):
        import vlib
        self.res, self.prop, self.judge = res, prop, judge
        self.fnd = vlib.Findings()
        self.seen = {}
        self.unreproduced = 0

    def report(self, batch_no, found):
        """found: [(case, key, text)] of one batch"""
        direct, suspects = [], {}
        for cs_, key, text in found:
            if self.seen.get(key, 0) >= 3:
                continue
            if self.fnd.match(self.prop, key) is not None:
                direct.append((cs_, key, text))
            else:
                suspects.setdefault(cs_.id, (cs_, []))[1].append((key, text))
        if suspects:
            todo = [v[0] for v in list(suspects.values())[:64]]
            traces = run_batch(self.res, self.prop, todo, 100000 + batch_no, one_per_job=True)
            for cs_ in todo:
                again = dict(self.judge(cs_.meta, traces.get(cs_.id, []), {}))
                for key, text in suspects[cs_.id][1]:
                    if key in again:
                        direct.append((cs_, key, text))
                    else:
                        self.unreproduced += 1
        for cs_, key, text in direct:
            if self.seen.get(key, 0) < 3:
                self.seen[key] = self.seen.get(key, 0) + 1
                self.res.add_viol(key, text + " | case %d" % cs_.id,
                                  dict(flavor="asan", harness="h_httpmsg", payload=dict(script=cs_.text(), meta=cs_.meta)))


def replay_common(info, prop, judge):
    """re-execute the case recorded in a replay file; judge(meta, events) -> [(key, text)]"""
    import os
    import subprocess
    import sys
    import vlib
    exe = vlib.build("asan", ["h_httpmsg"])[0]
    rp = info["replay"]
    pl = rp.get("payload") or {}
    script = pl.get("script")
    if not script:
        print("replay: no script recorded")
        return 2
    path = os.path.join(vlib.workdir(prop), "replay.scr")
    with open(path, "w") as f:
        f.write(script)
    cmd = [exe, "--arg", path]
    if pl.get("whole_job") and rp.get("only", -1) is not None and int(rp.get("only", -1)) >= 0:
        cmd += ["--only", str(rp["only"])]
    print("replay:", " ".join(cmd))
    p = subprocess.run(cmd, env=vlib.sanitizer_env("asan"), stdout=subprocess.PIPE, stderr=subprocess.PIPE, text=True, errors="replace")
    out = os.path.join(vlib.workdir(prop), "replay.out")
    with open(out, "w") as f:
        f.write(p.stdout)
    sys.stdout.write(p.stdout[-6000:])
    sys.stderr.write(p.stderr[-6000:])
    bad = []
    for k, _t in vlib.sanitizer_keys(p.stderr):
        bad.append(k)
    for fm in __import__("re").findall(r"^\[err\] (.*)$", p.stderr, __import__("re").M):
        bad.append("libevent-fatal")
    if p.returncode != 0 and not bad:
        bad.append("exit-%s" % p.returncode)
    meta = pl.get("meta")
    if meta is not None:
        tr = read_trace(out)
        ev = tr.get(int(meta["id"]), [])
        for k, t in judge(meta, ev, {}):
            print("  %s: %s" % (k, t[:400]))
            bad.append(k)
    if bad:
        print("VIOLATION property=%s replay=(replayed) keys=%s" % (prop, ",".join(sorted(set(bad)))))
        return 1
    print("replay: no violation reproduced")
    return 0
