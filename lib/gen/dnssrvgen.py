"""Workload generators, script writer/reader and the shared runner for the evdns server checks (C35, C37).

A *case* is a dict: idx, klass, act=(mode, err, flags), recs=[rec...], ops=[op...], end=0|1
  rec = dict(api, section, name(bytes), type, cls, ttl, is_name, data = bytes | ('g', len, seed) | None)
  op  = ('U', bytes) | ('TN',) | ('T', bytes) | ('TS',)
The script text (see harness/h_dnssrv.c) is the single source of truth: the oracle re-reads the script
file, so a replay needs nothing but the script lines of one case."""
import hashlib, os, random, struct, sys, time
from concurrent.futures import ProcessPoolExecutor
from ref import dnswire_srv as W

# ----------------------------------------------------------------------------- script <-> case

def _h(b):
    return "h" + b.hex()


def script_lines(case):
    L = ["CASE %d %s" % (case["idx"], case.get("klass", "?")), "ACT %d %d %d" % tuple(case["act"])]
    for r in case["recs"]:
        d = r["data"]
        if d is None:
            ds = "-"
        elif isinstance(d, tuple):
            ds = "g%d:%d" % (d[1], d[2])
        else:
            ds = _h(d)
        L.append("R %s %d %s %d %d %d %d %s" % (r["api"], r["section"], _h(r["name"]), r["type"], r["cls"], r["ttl"], r["is_name"], ds))
    for op in case["ops"]:
        if op[0] in ("U", "T"):
            L.append("%s %s" % (op[0], _h(op[1])))
        else:
            L.append(op[0])
    L.append("END %d" % case["end"])
    return L


def parse_script(lines):
    """inverse of script_lines; yields cases"""
    cur = None
    for ln in lines:
        ln = ln.rstrip("\n")
        if not ln:
            continue
        t = ln.split(" ")
        if t[0] == "CASE":
            cur = dict(idx=int(t[1]), act=(0, 0, -1), recs=[], ops=[], end=1, klass=t[2] if len(t) > 2 else "?")
        elif cur is None:
            continue
        elif t[0] == "ACT":
            cur["act"] = (int(t[1]), int(t[2]), int(t[3]))
        elif t[0] == "R":
            ds = t[8]
            if ds == "-":
                d = None
            elif ds[0] == "g":
                a, b = ds[1:].split(":")
                d = ("g", int(a), int(b))
            else:
                d = bytes.fromhex(ds[1:])
            cur["recs"].append(dict(api=t[1], section=int(t[2]), name=bytes.fromhex(t[3][1:]), type=int(t[4]), cls=int(t[5]),
                                    ttl=int(t[6]), is_name=int(t[7]), data=d))
        elif t[0] in ("U", "T"):
            cur["ops"].append((t[0], bytes.fromhex(t[1][1:])))
        elif t[0] in ("TN", "TS"):
            cur["ops"].append((t[0],))
        elif t[0] == "END":
            cur["end"] = int(t[1])
            yield cur
            cur = None


def case_hash(lines):
    return int.from_bytes(hashlib.blake2b("\n".join(lines[1:]).encode(), digest_size=8).digest(), "little")


# ----------------------------------------------------------------------------- names
ALPH = b"abcdefghijklmnopqrstuvwxyz0123456789-_"


def rand_label(rng, maxlen=10):
    r = rng.random()
    if r < 0.02:
        n = 63
    elif r < 0.05:
        n = rng.randint(40, 63)
    else:
        n = rng.randint(1, maxlen)
    if rng.random() < 0.04:
        # arbitrary octets except NUL and '.' (those cannot travel through a dotted C string)
        return bytes(rng.choice([c for c in (rng.randrange(1, 256),) if c != 0x2e] or [0x41]) for _ in range(n))
    b = bytes(rng.choice(ALPH) for _ in range(n))
    if rng.random() < 0.1:
        b = b.upper()
    return b


def fit(labels):
    labels = list(labels)
    while labels and W.wire_len(labels) > 255:
        labels.pop(0)
    return tuple(labels)


class Names:
    """per-case name source: fresh names, names sharing a suffix with earlier ones, exact repeats, case variants"""

    def __init__(self, rng):
        self.rng = rng
        self.seen = []
        for _ in range(rng.randint(1, 3)):
            self.seen.append(tuple(rand_label(rng) for _ in range(rng.randint(1, 4))))

    def labels(self):
        rng = self.rng
        r = rng.random()
        if r < 0.45 and self.seen:
            base = rng.choice(self.seen)
            k = rng.randint(0, len(base)) if base else 0
            lab = tuple(rand_label(rng) for _ in range(rng.randint(0 if k < len(base) else 1, 3))) + base[k:]
        elif r < 0.60 and self.seen:
            lab = rng.choice(self.seen)
        elif r < 0.65 and self.seen:
            base = rng.choice(self.seen)
            lab = tuple(l.swapcase() if rng.random() < 0.5 else l for l in base)
        elif r < 0.69:
            lab = tuple(bytes([rng.choice(ALPH)]) for _ in range(rng.randint(20, 127)))
        elif r < 0.70:
            lab = ()
        else:
            lab = tuple(rand_label(rng) for _ in range(rng.randint(1, 6)))
        lab = fit(lab)
        self.seen.append(lab)
        return lab

    def fresh(self, nlabels=None, tag=b""):
        lab = tuple(rand_label(self.rng, 8) for _ in range(nlabels or self.rng.randint(2, 4)))
        if tag:
            lab = (tag,) + lab
        self.seen.append(lab)
        return lab

    def text(self, labels=None):
        lab = self.labels() if labels is None else labels
        t = b".".join(lab)
        if t and self.rng.random() < 0.03 and len(t) < 250:
            t += b"."
        return t


def enc_name(labels):
    return b"".join(bytes([len(l)]) + l for l in labels) + b"\0"


def build_query(qid, flags, questions, opt_size=None, extra_rrs=(), counts=None):
    """plain uncompressed query.  extra_rrs: list of (section 1|2|3, bytes of a whole RR)."""
    body = b""
    for (labels, t, c) in questions:
        body += enc_name(labels) + struct.pack(">HH", t, c)
    cnt = [len(questions), 0, 0, 0]
    secs = {1: b"", 2: b"", 3: b""}
    for (s, rr) in extra_rrs:
        secs[s] += rr
        cnt[s] += 1
    if opt_size is not None:
        secs[3] += b"\0" + struct.pack(">HHIH", 41, opt_size, 0, 0)
        cnt[3] += 1
    if counts:
        cnt = list(counts)
    return struct.pack(">HHHHHH", qid, flags, *cnt) + body + secs[1] + secs[2] + secs[3]


# ----------------------------------------------------------------------------- size estimate (workload targeting only, never used as an oracle)
class Sim:
    """estimates the size of the reply a greedy suffix-table compressor (128 entries, exact-match) would produce, so that
    generated record sets land on the size boundaries.  A wrong estimate only blurs the targeting."""

    def __init__(self):
        self.j = 12
        self.table = {}

    def _add(self, key):
        if len(self.table) < 128 and key not in self.table:
            self.table[key] = self.j

    def name(self, text):
        name = text
        while True:
            if name in self.table:
                self.j += 2
                return
            i = name.find(b".")
            if i < 0:
                self._add(name)
                self.j += 1 + len(name)
                if len(name) > 0:
                    self.j += 1
                return
            self._add(name)
            self.j += 1 + i
            name = name[i + 1:]

    def question(self, text):
        self.name(text)
        self.j += 4

    def record(self, r):
        e = W.expected_record(r)
        self.name(b".".join(e["labels"]) if r["api"] == "P" else r["name"])
        self.j += 10
        if e["is_name"]:
            self.name(W.cstr(W.rec_data_bytes(r)))
        else:
            self.j += len(e["rdata"])


def sim_total(qtexts, recs, has_opt):
    s = Sim()
    for q in qtexts:
        s.question(q)
    for sec in (0, 1, 2):
        if sec == 2 and has_opt:
            s.name(b"")
            s.j += 10
        for r in recs:
            rs = 0 if r["api"] != "r" else r["section"]
            if rs == sec:
                s.record(r)
    return s


# ----------------------------------------------------------------------------- records
OPT_SIZES = [0, 1, 511, 512, 513, 600, 1232, 1400, 1452, 4096, 8192, 16383, 16384, 16385, 20000, 32768, 40000, 65000, 65507, 65535]
TTLS = [0, 1, 60, 300, 86400, 0x7fffffff, -1, -2147483648]


def gen_record(rng, names, bigdata=False):
    r = rng.random()
    ttl = rng.choice(TTLS) if rng.random() < 0.3 else rng.randint(0, 100000)
    if r < 0.25:
        n = rng.choice([1, 1, 1, 2, 3, 4, 8])
        return dict(api="a", section=0, name=names.text(), type=1, cls=1, ttl=ttl, is_name=0, data=bytes(rng.randrange(256) for _ in range(4 * n)))
    if r < 0.35:
        n = rng.choice([1, 1, 2, 3])
        return dict(api="6", section=0, name=names.text(), type=28, cls=1, ttl=ttl, is_name=0, data=bytes(rng.randrange(256) for _ in range(16 * n)))
    if r < 0.45:
        return dict(api="c", section=0, name=names.text(), type=5, cls=1, ttl=ttl, is_name=1, data=names.text())
    if r < 0.52:
        return dict(api="p", section=0, name=names.text(), type=12, cls=1, ttl=ttl, is_name=1, data=names.text())
    if r < 0.56:
        return dict(api="P", section=0, name=bytes(rng.randrange(256) for _ in range(4)), type=12, cls=1, ttl=ttl, is_name=1, data=names.text())
    sec = rng.choice([0, 1, 1, 2, 2])
    if rng.random() < 0.35:
        return dict(api="r", section=sec, name=names.text(), type=rng.choice([2, 5, 12, 39, 2, rng.randrange(1, 65536)]),
                    cls=rng.choice([1, 1, 1, 3, 255, rng.randrange(65536)]), ttl=ttl, is_name=1, data=names.text())
    q = rng.random()
    if q < 0.12:
        data = None
    elif q < 0.7:
        data = bytes(rng.randrange(256) for _ in range(rng.randint(1, 40)))
    elif q < 0.9 or not bigdata:
        data = ("g", rng.randint(41, 400), rng.randrange(256))
    else:
        data = ("g", rng.randint(400, 5000), rng.randrange(256))
    t = rng.choice([1, 16, 16, 99, 255, 0, 65535, rng.randrange(65536)])
    if t == 41:
        t = 16
    return dict(api="r", section=sec, name=names.text(), type=t, cls=rng.choice([1, 1, 1, 0, 65535, rng.randrange(65536)]),
                ttl=ttl, is_name=0, data=data)


def filler(rng, names, nbytes, section=None, name=None):
    """raw record(s) adding exactly nbytes to the message when the owner name is written uncompressed as `name`"""
    return dict(api="r", section=rng.choice([0, 1, 2]) if section is None else section, name=name, type=16, cls=1,
                ttl=rng.randint(0, 9999), is_name=0, data=("g", nbytes, rng.randrange(256)))


def pad_to(rng, names, qtexts, recs, has_opt, target, section=2):
    """append raw filler records so that the estimated total becomes exactly `target` (if reachable)"""
    for _ in range(4):
        cur = sim_total(qtexts, recs, has_opt).j
        need = target - cur
        if need <= 0:
            return
        owner = names.text(names.fresh(2))
        # cost of the owner: estimate by adding a zero-length filler
        probe = recs + [filler(rng, names, 0, section, owner)]
        base = sim_total(qtexts, probe, has_opt).j
        room = target - base
        if room < 0:
            # cannot fit another record header: give up on exactness
            return
        n = min(room, 65535)
        recs.append(filler(rng, names, n, section, owner))
        if n == room:
            return


# ----------------------------------------------------------------------------- C35 cases
def gen_case_c35(rng, idx, thorough, force=None):
    names = Names(rng)
    # the 64k classes can abort the process on the unchanged tree (known findings): they run in small jobs of their own
    klass = force or rng.choices(["small", "labels", "limit", "16k", "badname"], [40, 11, 33, 13, 3])[0]
    transport = rng.choices(["udp", "edns", "tcp"], [30, 35, 35])[0]
    if klass == "limit-hi":
        # size limits near 64 KiB: kept out of the big script files for the same reason as the 64k classes
        klass = "limit"
        transport = rng.choice(["tcp", "tcp", "edns-hi"])
    elif klass == "limit" and transport == "tcp":
        transport = rng.choice(["udp", "edns"])
    if klass in ("16k", "64k", "64k-edge", "64k-tcp-exact"):
        transport = rng.choices(["edns", "tcp", "udp"], [35, 55, 10])[0]
    if klass == "64k-tcp-exact":
        transport = "tcp"
    opt = None
    if transport == "edns-hi":
        transport = "edns"
        opt = rng.choice([65000, 65507, 65535, 65534, 60000])
    elif transport == "edns":
        opt = rng.choice(OPT_SIZES) if rng.random() < 0.7 else rng.randrange(65536)
        if klass == "limit" and force is None and opt > 50000:
            opt = rng.choice([512, 1232, 4096, 8192, 16384, 20000, 40000])
        if klass in ("16k", "64k") and rng.random() < 0.8:
            opt = rng.choice([20000, 32768, 40000, 65000, 65507, 65535])
    elif transport == "tcp" and rng.random() < 0.2:
        opt = rng.choice(OPT_SIZES)
    limit = 65535 if transport == "tcp" else (512 if opt is None else max(512, opt))

    nmsg = 1 if rng.random() < 0.85 or klass in ("64k", "64k-edge", "64k-tcp-exact", "16k") else 2
    msgs = []
    for mi in range(nmsg):
        nq = 1 if rng.random() < 0.9 else rng.randint(2, 4)
        # question section alone above the client's limit (seeded defect C35-2 was missed without it): several questions whose
        # long names share no suffix, on transports with a small limit
        bigq = klass == "small" and transport in ("udp", "edns") and limit <= 1300 and rng.random() < 0.25
        if bigq:
            nq = rng.randint(3, 6)
        qs = []
        for qi in range(nq):
            if bigq:
                lab = [bytes(rng.choice(b"abcdefghijklmnopqrstuvwxyz0123456789") for _ in range(rng.randint(50, 62))) for _ in range(4)]
                qs.append((lab, rng.choice([1, 28, 16]), 1))
                continue
            lab = names.labels() if rng.random() < 0.7 else names.fresh(tag=b"m%dq%d" % (mi, qi))
            qs.append((lab, rng.choice([1, 28, 12, 5, 16, 255, 2, 6, rng.randrange(65536)]), rng.choice([1, 1, 1, 3, 255, rng.randrange(65536)])))
        flags = (0x0100 if rng.random() < 0.7 else 0) | (0x0010 if rng.random() < 0.1 else 0) | (0x0020 if rng.random() < 0.05 else 0)
        msgs.append(dict(id=rng.randrange(65536), flags=flags, qs=qs))
    qtexts = [b".".join(l) for (l, _t, _c) in msgs[0]["qs"]]
    has_opt = opt is not None

    recs = []
    if klass == "small":
        for _ in range(rng.choice([0, 1, 1, 2, 2, 3, 4, 6, 9])):
            recs.append(gen_record(rng, names))
    elif klass == "labels":
        for _ in range(rng.randint(30, 160 if thorough else 110)):
            recs.append(gen_record(rng, names))
    elif klass == "badname":
        for _ in range(rng.randint(0, 3)):
            recs.append(gen_record(rng, names))
        bad = rng.choice(["label64", "label200", "name300"])
        if bad == "label64":
            nm = b"x" * 64 + b".example.com"
        elif bad == "label200":
            nm = b"www." + b"y" * 200 + b".org"
        elif bad == "name300":
            nm = b".".join([b"abcdefghi"] * 30)
        else:
            nm = b"a..b.example"
        if rng.random() < 0.5:
            recs.append(dict(api="a", section=0, name=nm, type=1, cls=1, ttl=5, is_name=0, data=b"\x01\x02\x03\x04"))
        else:
            recs.append(dict(api="c", section=0, name=names.text(), type=5, cls=1, ttl=5, is_name=1, data=nm))
        for _ in range(rng.randint(0, 2)):
            recs.append(gen_record(rng, names))
    elif klass == "limit":
        for _ in range(rng.choice([0, 1, 2, 3, 5, 8])):
            recs.append(gen_record(rng, names))
        delta = rng.choice([-2, -1, 0, 0, 1, 2, 3]) if rng.random() < 0.6 else rng.randint(-40, 60)
        tgt = limit + delta
        if rng.random() < 0.15:
            tgt = rng.choice([512, 513]) + rng.randint(-3, 3)
        if sim_total(qtexts, recs, has_opt).j < tgt - 14:
            pad_to(rng, names, qtexts, recs, has_opt, tgt)
        if rng.random() < 0.3:
            for _ in range(rng.randint(1, 3)):
                recs.append(gen_record(rng, names))
    elif klass == "16k":
        # push the write position past 0x4000, then introduce *new* names there and re-use their suffixes
        for _ in range(rng.choice([0, 1, 2, 4])):
            recs.append(gen_record(rng, names))
        first = rng.choice([16384 - 60, 16384 - 20, 16384 - 12, 16384, 16500, 20000, 33000]) + rng.randint(-6, 6)
        pad_to(rng, names, qtexts, recs, has_opt, first)
        late = Names(rng)
        late.seen = []
        dom = late.fresh(rng.randint(2, 4), tag=b"late")
        for _ in range(rng.randint(2, 10)):
            r = gen_record(rng, late)
            if rng.random() < 0.6:
                r["name"] = b".".join((rand_label(rng),) * rng.randint(0, 2) + dom)
            recs.append(r)
        if rng.random() < 0.4 and limit < 50000:
            pad_to(rng, names, qtexts, recs, has_opt, limit + rng.randint(-30, 40))
    elif klass == "64k":
        for _ in range(rng.choice([0, 1, 2, 5, 12])):
            recs.append(gen_record(rng, names, bigdata=True))
        tgt = rng.choice([65535, 65536]) + (rng.randint(-3, 3) if rng.random() < 0.5 else rng.randint(-200, 300))
        if transport == "tcp" and tgt == 65536:
            tgt = 65535      # the exact-65536 TCP reply has its own class/job
        pad_to(rng, names, qtexts, recs, has_opt, tgt)
        if rng.random() < 0.4:
            for _ in range(rng.randint(1, 4)):
                recs.append(gen_record(rng, names))
        if transport == "tcp" and sim_total(qtexts, recs, has_opt).j == 65536:
            recs.append(gen_record(rng, names))
    elif klass == "64k-tcp-exact":
        for _ in range(rng.choice([0, 1, 3])):
            recs.append(gen_record(rng, names))
        pad_to(rng, names, qtexts, recs, has_opt, 65536)
    elif klass == "64k-edge":
        # the labels of the very last name of the message end within a byte or two of offset 65536
        for _ in range(rng.choice([0, 1, 3])):
            recs.append(dict(api="a", section=0, name=names.text(), type=1, cls=1, ttl=7, is_name=0, data=b"\x0a\0\0\x01"))
        last = tuple(rand_label(rng, 9) for _ in range(rng.randint(1, 3)))
        lastlen = W.wire_len(last) - 1
        edge = 65536 + rng.choice([0, 0, 0, -1, 1, -2])
        if rng.random() < 0.5:
            pad_to(rng, names, qtexts, recs, has_opt, edge - lastlen, 0)
            recs.append(dict(api="a", section=0, name=b".".join(last), type=1, cls=1, ttl=1, is_name=0, data=b"\x7f\0\0\x01"))
        else:
            pad_to(rng, names, qtexts, recs, has_opt, edge - lastlen, 2)
            recs.append(dict(api="r", section=2, name=b".".join(last), type=16, cls=1, ttl=1, is_name=0, data=b"tail"))
    # invalid add calls, rarely
    if klass.startswith("64k-"):
        pass
    elif rng.random() < 0.03:
        recs.insert(rng.randint(0, len(recs)), dict(api="r", section=rng.choice([3, -1, 7]), name=b"bad.section", type=1, cls=1, ttl=1, is_name=0, data=b"abcd"))
    if not klass.startswith("64k-") and rng.random() < 0.03:
        recs.insert(rng.randint(0, len(recs)), dict(api="a", section=0, name=b"zero.addrs", type=1, cls=1, ttl=1, is_name=0, data=b""))

    r = rng.random()
    mode, err = 0, 0
    if r < 0.04:
        mode = 1
    elif r < 0.25:
        err = rng.choice([1, 2, 3, 4, 5, 15, 9])
    elif r < 0.27:
        err = rng.choice([16, -1, 255])
    aflags = -1 if rng.random() < 0.8 else rng.choice([0, 0x400, 0x400 | 0x80])
    ops = []
    if transport == "tcp":
        ops.append(("TN",))
        stream = b""
        for m in msgs:
            q = build_query(m["id"], m["flags"], m["qs"], opt)
            stream += struct.pack(">H", len(q)) + q
        ops += [("T", s) for s in segment(rng, stream)]
        if rng.random() < 0.1:
            ops.append(("TS",))
    else:
        for m in msgs:
            ops.append(("U", build_query(m["id"], m["flags"], m["qs"], opt)))
    return dict(idx=idx, klass="%s/%s" % (klass, transport), act=(mode, err, aflags), recs=recs, ops=ops, end=rng.choice([0, 1, 1]))


def segment(rng, stream, maxsegs=5):
    if len(stream) <= 1 or rng.random() < 0.4:
        return [stream]
    if len(stream) < 80 and rng.random() < 0.15:
        return [stream[i:i + 1] for i in range(len(stream))]
    n = rng.randint(2, maxsegs)
    cuts = set()
    for _ in range(n - 1):
        cuts.add(rng.choice([1, 2, 3, rng.randrange(1, len(stream))]) if rng.random() < 0.3 else rng.randrange(1, len(stream)))
    cuts = sorted(c for c in cuts if 0 < c < len(stream))
    out = []
    p = 0
    for c in cuts + [len(stream)]:
        out.append(stream[p:c])
        p = c
    return [s for s in out if s]


# ----------------------------------------------------------------------------- C37 cases
def gen_query_c37(rng, mi):
    """a structured query plus byte mutations.  Returns bytes."""
    qid = rng.randrange(65536)
    flags = (0x0100 if rng.random() < 0.6 else 0) | (0x0010 if rng.random() < 0.1 else 0)
    if rng.random() < 0.1:
        flags |= rng.choice([0x0020, 0x0040, 0x0080, 0x0200, 0x0400, 0x000f, 0x0003])
    if rng.random() < 0.15:
        flags |= rng.randint(1, 15) << 11
    if rng.random() < 0.05:
        flags |= 0x8000
    r = rng.random()
    nq = 1 if r < 0.75 else (0 if r < 0.8 else (rng.randint(2, 4) if r < 0.96 else rng.randint(10, 60)))
    marks = dict(labels=[], names=[], rdlens=[])
    body = bytearray()
    name_offs = []      # offsets (absolute) of earlier label starts usable as pointer targets

    def put_name(labels, allow_ptr=True):
        marks["names"].append(12 + len(body))
        labs = list(labels)
        ptr = None
        if allow_ptr and name_offs and rng.random() < 0.3:
            ptr = rng.choice(name_offs)
            labs = labs[:rng.randint(0, 2)]
        for l in labs:
            off = 12 + len(body)
            marks["labels"].append(off)
            if len(name_offs) < 40:
                name_offs.append(off)
            body.append(len(l))
            body.extend(l)
        if ptr is not None:
            body.extend(struct.pack(">H", 0xc000 | ptr))
        else:
            body.append(0)

    def some_labels(tag):
        lab = [tag] + [rand_label(rng, 8) for _ in range(rng.randint(0, 4))]
        r2 = rng.random()
        if r2 < 0.015:
            lab.insert(rng.randint(1, len(lab)), rng.choice([b"a\0b", b"\0", b"x\0"]))
        elif r2 < 0.03:
            lab.insert(rng.randint(1, len(lab)), rng.choice([b"a.b", b".", b"x."]))
        elif r2 < 0.06:
            # total wire length around the 255 limit
            want = rng.choice([250, 253, 254, 255, 256, 257, 258, 259, 300])
            while W.wire_len(lab) < want:
                room = want - W.wire_len(lab)
                lab.append(b"k" * max(1, min(63, room - 1)))
        return lab

    # many minimal questions (the root name is a single octet: a question of 5 octets, the smallest there is) - sizing
    # heuristics of the form "at most remaining/N questions" are exact only for the right N (seed C37-4)
    shortq = rng.random() < 0.04
    if shortq:
        nq = rng.choice([12, 13, 17, 18, 19, 30, 60, 120, 200])
    for qi in range(nq):
        if shortq:
            put_name([] if rng.random() < 0.8 else [b"a"], allow_ptr=False)
        else:
            put_name(some_labels(b"m%dq%d" % (mi, qi)))
        body.extend(struct.pack(">HH", rng.choice([1, 28, 12, 255, rng.randrange(65536)]), rng.choice([1, 1, 255, rng.randrange(65536)])))
    cnt = [nq, 0, 0, 0]

    def put_rr(sec, typ, cls, rdata, labels=None):
        put_name(labels if labels is not None else [rand_label(rng, 6) for _ in range(rng.randint(0, 3))], allow_ptr=labels is None)
        body.extend(struct.pack(">HHI", typ, cls, rng.randrange(1 << 32)))
        marks["rdlens"].append(12 + len(body))
        body.extend(struct.pack(">H", len(rdata)))
        body.extend(rdata)
        cnt[sec] += 1

    if rng.random() < 0.15:
        for _ in range(rng.randint(1, 3)):
            put_rr(1, rng.choice([1, 5, 16, 41 if rng.random() < 0.1 else 1]), 1, bytes(rng.randrange(256) for _ in range(rng.choice([0, 4, 4, 16, 30]))))
    if rng.random() < 0.1:
        for _ in range(rng.randint(1, 2)):
            put_rr(2, rng.choice([2, 6, 1]), 1, bytes(rng.randrange(256) for _ in range(rng.choice([0, 4, 20]))))
    r = rng.random()
    if r < 0.55:
        if rng.random() < 0.15:
            put_rr(3, rng.choice([1, 16, 250]), 1, bytes(rng.randrange(256) for _ in range(rng.choice([0, 4, 11]))))
        size = rng.choice(OPT_SIZES + [700, 900, 1000, 1100, 1200, 2000, 3000]) if rng.random() < 0.8 else rng.randrange(65536)
        optname = [] if rng.random() < 0.95 else [b"opt"]
        put_rr(3, 41, size, bytes(rng.randrange(256) for _ in range(rng.choice([0, 0, 0, 4, 12]))), labels=optname)
        marks["opt_end"] = 12 + len(body)
        if rng.random() < 0.12:
            put_rr(3, rng.choice([1, 16, 41]), rng.choice([1, 4096]), bytes(rng.randrange(256) for _ in range(rng.choice([0, 4, 9]))))
    elif r < 0.6:
        put_rr(3, 1, 1, b"\1\2\3\4")
    msg = bytearray(struct.pack(">HHHHHH", qid, flags, *cnt) + bytes(body))

    # ---- mutations
    nm = 0 if rng.random() < 0.45 else rng.choice([1, 1, 1, 2, 3])
    for _ in range(nm):
        m = rng.randrange(14)
        n = len(msg)
        if m == 0 and n > 1:
            del msg[rng.randrange(1, n):]
        elif m == 1 and n:
            msg[rng.randrange(n)] ^= 1 << rng.randrange(8)
        elif m == 2 and n >= 12:
            f = rng.choice([4, 6, 8, 10])
            msg[f:f + 2] = struct.pack(">H", rng.choice([0, 1, 2, 3, 255, 256, 65535, 65534, rng.randrange(65536)]))
        elif m == 3 and marks["names"]:
            # compression loop: self pointer, or a two-cycle
            o = rng.choice(marks["names"])
            if o + 4 <= n:
                if rng.random() < 0.5:
                    msg[o:o + 2] = struct.pack(">H", 0xc000 | o)
                else:
                    msg[o:o + 4] = struct.pack(">HH", 0xc000 | (o + 2), 0xc000 | o)
        elif m == 4 and marks["names"]:
            o = rng.choice(marks["names"])
            if o + 2 <= n:
                msg[o:o + 2] = struct.pack(">H", 0xc000 | rng.choice([n, n + 1, 0x3fff, n - 1, rng.randrange(n, 0x4000) if n < 0x4000 else 0x3fff]))
        elif m == 5 and marks["labels"]:
            o = rng.choice(marks["labels"])
            if o < n:
                msg[o] = (msg[o] & 0x3f) | rng.choice([0x40, 0x80])
        elif m == 6 and marks["labels"]:
            o = rng.choice(marks["labels"])
            if o < n:
                msg[o] = rng.choice([63, 62, 64, (n - o) & 0x3f, max(0, n - o - 1) & 0x3f, 0x3f])
        elif m == 7 and marks["rdlens"]:
            o = rng.choice(marks["rdlens"])
            if o + 2 <= n:
                msg[o:o + 2] = struct.pack(">H", rng.choice([65535, 1, 0, n, n - o, n - o - 2, n - o - 1, 32768]))
        elif m == 8:
            msg.extend(bytes(rng.randrange(256) for _ in range(rng.choice([1, 2, 5, 40, 300]))))
        elif m == 9 and marks["names"]:
            # forward pointer to a later, valid name
            later = [x for x in marks["labels"] if x > marks["names"][0] + 2]
            if later and marks["names"][0] + 2 <= n:
                o = marks["names"][0]
                msg[o:o + 2] = struct.pack(">H", 0xc000 | rng.choice(later))
        elif m == 10 and n >= 4:
            msg[2:4] = struct.pack(">H", (struct.unpack(">H", msg[2:4])[0] & 0x87ff) | (rng.randint(1, 15) << 11))
        elif m == 11 and n >= 4:
            msg[2] |= 0x80
        elif m == 12 and n > 12:
            o = rng.randrange(12, n)
            msg[o:o] = bytes(rng.randrange(256) for _ in range(rng.choice([1, 2, 4])))
        elif m == 13 and "opt_end" in marks and marks["opt_end"] <= n:
            # garbage records after the OPT record, with the count raised to cover them
            msg[10:12] = struct.pack(">H", min(65535, struct.unpack(">H", msg[10:12])[0] + rng.randint(1, 3)))
            if rng.random() < 0.7:
                msg.extend(bytes(rng.randrange(256) for _ in range(rng.choice([0, 1, 3, 7, 12, 30]))))
    return bytes(msg)


def gen_case_c37(rng, idx, thorough):
    names = Names(rng)
    transport = rng.choice(["udp", "udp", "tcp", "tcp", "mixed"])
    nmsg = rng.choice([1, 1, 2, 3, 4, 6])
    msgs = [gen_query_c37(rng, mi) for mi in range(nmsg)]
    used_ids = set()

    def distinct_id(m):
        """transaction ids are distinct within a case (they attribute TCP callbacks to frames)"""
        if len(m) < 2:
            return m
        i = struct.unpack(">H", m[:2])[0]
        while i in used_ids:
            i = rng.randrange(65536)
        used_ids.add(i)
        return struct.pack(">H", i) + m[2:]

    msgs = [distinct_id(m) for m in msgs]
    recs = []
    for _ in range(rng.choice([0, 1, 1, 2, 3])):
        recs.append(gen_record(rng, names))
    r = rng.random()
    if r < 0.45:
        # make replies large enough for the OPT size to matter
        tgt = rng.choice([300, 500, 512, 513, 600, 700, 900, 1000, 1100, 1200, 1232, 1400, 1452, 2000, 3000, 4096, 4100, 8192, 9000]) + rng.randint(-12, 12)
        recs.append(filler(rng, names, max(0, tgt - 60), None, names.text(names.fresh(2))))
    elif r < 0.5 and thorough:
        # big replies, but clear of the 64 KiB edge: what happens there is C35's business (known findings with process aborts)
        recs.append(filler(rng, names, rng.choice([16000, 33000, 60000]), None, names.text(names.fresh(2))))
    a = rng.random()
    mode, err = (1, 0) if a < 0.08 else (0, rng.choice([0, 0, 0, 3, 2, 5]))
    ops = []

    def tcp_ops(ms):
        out = [("TN",)]
        stream = b""
        for m in ms:
            r2 = rng.random()
            ln = len(m)
            if r2 < 0.05:
                ln = rng.choice([0, 1, 65535, max(0, len(m) - 1), len(m) + 1, 2, 11, 12])
            if len(m) > 65535:
                m = m[:65535]
                ln = min(ln, 65535)
            stream += struct.pack(">H", min(ln, 65535)) + m
        if rng.random() < 0.05:
            stream += rng.choice([b"\0", b"\0\0", b"\xff", b"\xff\xff", b"\0\x0c"])
        if rng.random() < 0.03:
            # one maximal frame: a valid query followed by padding up to 65535 bytes
            m = distinct_id(gen_query_c37(rng, 30))[:65535]
            stream = struct.pack(">H", 65535) + m + bytes(65535 - len(m)) + stream
        out += [("T", s) for s in segment(rng, stream, 6)]
        if rng.random() < 0.15:
            out.append(("TS",))
        return out

    if transport == "udp":
        for m in msgs:
            if rng.random() < 0.02:
                m = m + bytes(rng.randrange(256) for _ in range(rng.choice([1400, 1500, 1600, 3000])))
            ops.append(("U", m))
    elif transport == "tcp":
        ops += tcp_ops(msgs)
        if rng.random() < 0.1:
            ops += tcp_ops([distinct_id(gen_query_c37(rng, 10 + k)) for k in range(rng.randint(1, 2))])
    else:
        k = rng.randint(0, len(msgs))
        for m in msgs[:k]:
            ops.append(("U", m))
        if msgs[k:]:
            t = tcp_ops(msgs[k:])
            extra = distinct_id(gen_query_c37(rng, 20))
            t.insert(rng.randint(1, len(t)), ("U", extra))
            ops += t
    return dict(idx=idx, klass="c37/" + transport, act=(mode, err, -1), recs=recs, ops=ops, end=rng.choice([0, 1, 1]))


# ----------------------------------------------------------------------------- worker stages (run in a process pool)
def _gen_file(spec):
    prop, seed, path, first, n, thorough, force = spec
    rng = random.Random("%s/%d/%s/%d" % (prop, seed, os.path.basename(path), first))
    with open(path, "w") as f:
        for i in range(n):
            idx = first + i
            case = gen_case_c35(rng, idx, thorough, force) if prop == "C35" else gen_case_c37(rng, idx, thorough)
            f.write("\n".join(script_lines(case)))
            f.write("\n")
    return path


def judge_file(prop, script_path, out_path):
    """-> dict(stats, viols=[(key, text, idx, scriptlines)], hashes, samples, evaluated)"""
    lines = open(script_path).read().split("\n")
    cases = {}
    texts = {}
    cur = []
    for ln in lines:
        if ln.startswith("CASE "):
            cur = [ln]
        elif cur is not None and ln:
            cur.append(ln)
            if ln.startswith("END"):
                texts[int(cur[0].split(" ")[1])] = cur
                cur = []
    for c in parse_script(lines):
        cases[c["idx"]] = c
    stats = {}
    viols = []
    hashes = []
    samples = []
    evaluated = 0
    for idx, tr in W.parse_trace(out_path):
        case = cases.get(idx)
        if case is None:
            continue
        j = W.Judge(prop)
        j.judge_case(case, tr)
        if tr["done"]:
            evaluated += 1
            k = "class_" + case["klass"].replace("/", "_")
            stats[k] = stats.get(k, 0) + 1
        for k, v in j.S.items():
            stats[k] = stats.get(k, 0) + v
        seen = set()
        for (key, text) in j.V:
            if key in seen:
                continue
            seen.add(key)
            viols.append((key, "case %d: %s" % (idx, text), idx, texts[idx]))
        nontrivial = (j.S.get("responses", 0) > 0) if prop == "C35" else (j.S.get("msgs_wellformed", 0) + j.S.get("msgs_malformed", 0) > 0)
        if nontrivial and tr["done"]:
            hashes.append(case_hash(texts[idx]))
            if len(samples) < 2 and sum(len(x) for x in texts[idx]) < 1500:
                samples.append(dict(script=texts[idx], observed=dict(callbacks=j.S.get("callbacks", 0), responses=j.S.get("responses", 0))))
    return dict(stats=stats, viols=viols, hashes=hashes, samples=samples, evaluated=evaluated)


def _judge_file(spec):
    try:
        return judge_file(*spec)
    except Exception:
        import traceback
        return dict(stats={}, viols=[], hashes=[], samples=[], evaluated=0, error="oracle failed on %s: %s" % (spec[2], traceback.format_exc()[-1500:]))


def case_text(script_path, idx):
    out = []
    on = False
    with open(script_path) as f:
        for ln in f:
            ln = ln.rstrip("\n")
            if ln.startswith("CASE "):
                on = (int(ln.split(" ")[1]) == idx)
            if on:
                out.append(ln)
                if ln.startswith("END"):
                    break
    return out


# ----------------------------------------------------------------------------- shared runner
QUICK_CASES = dict(C35=1440, C37=4800)
THOROUGH_ROUNDS = dict(C35=60, C37=60)
EDGE_JOBS = dict(C35=[("64k-edge", 1)] * 4 + [("64k-tcp-exact", 1)] * 2 + [("64k", 3)] * 20 + [("limit-hi", 3)] * 12, C37=[])


def run_check(prop, tier, seed, rule, required, assumptions):
    import vlib
    res = vlib.Result(prop)
    vlib.build("asan", ["h_dnssrv"])
    wd = vlib.workdir(prop)
    thorough = tier == "thorough"
    rounds = THOROUGH_ROUNDS[prop] if thorough else 1
    nfiles = 16
    per_file = QUICK_CASES[prop] // nfiles
    evaluated = 0
    fnd = vlib.Findings()
    with ProcessPoolExecutor(max_workers=vlib.NCPU) as pool:
        for rd in range(rounds):
            specs = []
            first = rd * 1000000
            for i in range(nfiles):
                specs.append((prop, seed, os.path.join(wd, "%s%d-r%d-f%d.script" % (tier[0], seed, rd, i)), first, per_file, thorough, None))
                first += per_file
            for i, (klass, n) in enumerate(EDGE_JOBS[prop]):
                specs.append((prop, seed, os.path.join(wd, "%s%d-r%d-e%d.script" % (tier[0], seed, rd, i)), first, n, thorough, klass))
                first += n
            list(pool.map(_gen_file, specs))
            jobs = [dict(args=["--arg", sp[2]], tag=os.path.basename(sp[2])[:-7], replay=dict(script_file=sp[2])) for sp in specs]
            before = len(res.viol)
            outs = vlib.run_jobs(res, "asan", "h_dnssrv", jobs, timeout=900)
            # sanitizer / crash reports: attach the script of the case they happened in
            for v in res.viol[before:]:
                rp = v["replay"]
                pl = rp.get("payload") or {}
                if "script_file" in pl:
                    txt = case_text(pl["script_file"], rp.get("only", -1)) if rp.get("only", -1) >= 0 else []
                    rp["payload"] = dict(prop=prop, script=txt)
                    if txt:
                        v["text"] = v["text"][:1200] + "\n[case %d class of script: %s]" % (rp["only"], txt[1] if len(txt) > 1 else "")
            results = list(pool.map(_judge_file, [(prop, o["job"]["args"][1], o["out"]) for o in outs]))
            for o, r in zip(outs, results):
                if r.get("error"):
                    res.inconclusive.append(r["error"])     # a failure of the oracle itself is never a verdict
                evaluated += r["evaluated"]
                for k, n in r["stats"].items():
                    res.add_stat(k, n)
                for (key, text, idx, txt) in r["viols"]:
                    res.add_viol(key, text, dict(flavor="asan", harness="h_dnssrv", only=idx, payload=dict(prop=prop, script=txt)))
                res.hashes.update(r["hashes"])
                for s in r["samples"]:
                    if len(res.samples) < 4:
                        res.samples.append(s)
            for sp in specs:
                try:
                    os.unlink(sp[2])
                except OSError:
                    pass
            if rounds > 1:
                vlib.log("%s %s: round %d/%d done, %d cases judged, %d distinct violation keys so far, %.0fs"
                         % (prop, tier, rd + 1, rounds, evaluated, len(set(v["key"] for v in res.viol)), time.time() - res.t0))
            for o, r in zip(outs, results):
                # keep the raw output only of jobs that produced a report
                keys = list(o["keys"]) + [v[0] for v in r["viols"]]
                if not r.get("error") and all(fnd.match(prop, k) is not None for k in keys):
                    for p in (o["out"], o["err"]):
                        try:
                            os.unlink(p)
                        except OSError:
                            pass
                elif os.path.getsize(o["out"]) > (8 << 20):
                    os.unlink(o["out"])
    res.evaluations = evaluated
    res.add_stat("cases_judged", evaluated)
    return vlib.finish(res, tier, seed, rule, required=required, assumptions=assumptions)


def replay(info):
    import subprocess
    import vlib
    r = info["replay"]
    pl = r.get("payload") or {}
    prop = pl.get("prop") or info.get("property")
    lines = pl.get("script") or []
    if not lines:
        print("replay: no script recorded for this violation")
        return 2
    exe = vlib.build("asan", ["h_dnssrv"])[0]
    wd = vlib.workdir(prop)
    sp = os.path.join(wd, "replay.script")
    open(sp, "w").write("\n".join(lines) + "\n")
    op = os.path.join(wd, "replay.out")
    with open(op, "wb") as fo:
        p = subprocess.run([exe, "--arg", sp], env=vlib.sanitizer_env("asan"), stdout=fo, stderr=subprocess.PIPE)
    err = p.stderr.decode("utf-8", "replace")
    sys.stderr.write(err[-6000:])
    keys = [k for k, _ in vlib.sanitizer_keys(err)]
    jr = judge_file(prop, sp, op)
    for (key, text, idx, txt) in jr["viols"]:
        print("  %s  %s" % (key, text[:800]))
        keys.append(key)
    if keys or p.returncode != 0:
        print("VIOLATION property=%s replay=(replayed) keys=%s" % (prop, ",".join(sorted(set(keys)))))
        return 1
    print("replay: no violation")
    return 0
