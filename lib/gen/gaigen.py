"""Workload generators, tiny DNS encoder/decoder, script runner and trace parser for harness/h_dnsgai.c
(properties C38 and C39).  The script of a case is also its metadata: the oracles re-interpret the script
lines with the reference models, so a replay file only needs the lines."""
import os, re, socket, struct, json
import vlib

HARNESS = "h_dnsgai"
AF_INET, AF_INET6 = 2, 10
T_A, T_AAAA, T_CNAME = 1, 28, 5
AI_PASSIVE, AI_CANONNAME, AI_NUMERICHOST, AI_ADDRCONFIG, AI_NUMERICSERV = 1, 2, 4, 0x20, 0x400


def hx(b):
    if b is None:
        return "NULL"
    if isinstance(b, str):
        b = b.encode("latin1")
    return b.hex() if b else "-"


def unhx(t):
    if t == "NULL":
        return None
    if t == "-":
        return b""
    return bytes.fromhex(t)


# ------------------------------------------------------------------ DNS wire (own tiny encoder; shares nothing with other harnesses)
def enc_name(name):
    out = b""
    for lab in name.rstrip(b".").split(b"."):
        if lab:
            out += bytes([len(lab)]) + lab
    return out + b"\0"


def rr(owner, rtype, ttl, rdata):
    """owner None = compression pointer to the question name (offset 12)"""
    return (b"\xc0\x0c" if owner is None else enc_name(owner)) + struct.pack(">HHIH", rtype, 1, ttl & 0xffffffff, len(rdata)) + rdata


def rr_addr(owner, fam, addr, ttl):
    return rr(owner, T_A if fam == AF_INET else T_AAAA, ttl, addr)


def dec_name(msg, off, depth=0):
    labs = []
    end = None
    while True:
        l = msg[off]
        if l == 0:
            off += 1
            break
        if l & 0xc0 == 0xc0:
            ptr = (l & 0x3f) << 8 | msg[off + 1]
            if end is None:
                end = off + 2
            if depth > 20:
                raise ValueError("pointer loop")
            depth += 1
            off = ptr
            continue
        labs.append(msg[off + 1:off + 1 + l])
        off += 1 + l
    return b".".join(labs), (end if end is not None else off)


def dec_query(msg):
    """-> (id, name_as_sent, qtype) of a query datagram"""
    if len(msg) < 17:
        return None
    try:
        name, off = dec_name(msg, 12)
        qtype, qclass = struct.unpack(">HH", msg[off:off + 4])
    except Exception:
        return None
    return (msg[0] << 8 | msg[1], name, qtype, struct.unpack(">H", msg[4:6])[0])


def dec_answer_section(ans, ancount, qname):
    """decode the answer section as generated (owner = pointer to offset 12 or explicit name).
    -> list of (owner, type, ttl, rdata_decoded)"""
    fake = bytes(12) + enc_name(qname) + bytes(4)
    base = len(fake)
    msg = fake + ans
    off = base
    out = []
    for _ in range(ancount):
        owner, off = dec_name(msg, off)
        rtype, rclass, ttl, rdlen = struct.unpack(">HHIH", msg[off:off + 10])
        off += 10
        rdata = msg[off:off + rdlen]
        if rtype == T_CNAME:
            rdata = dec_name(msg, off)[0]
        off += rdlen
        out.append((owner, rtype, ttl, rdata))
    return out


# ------------------------------------------------------------------ traces
class Case:
    __slots__ = ("idx", "events", "ended", "leak", "ports")

    def __init__(self, idx, ports):
        self.idx = idx; self.events = []; self.ended = False; self.leak = None; self.ports = ports


def parse_trace(path):
    """-> {idx: Case}"""
    cases = {}
    cur = None
    ports = None
    with open(path, "r", errors="replace") as f:
        for ln in f:
            t = ln.split()
            if not t:
                continue
            k = t[0]
            if k == "PORTS":
                ports = [int(x) for x in t[1:4]]
            elif k == "CASE":
                cur = Case(int(t[1]), ports)
                cases[cur.idx] = cur
            elif cur is None:
                continue
            elif k == "END":
                cur.ended = True
                cur = None
            elif k == "LEAK":
                cur.leak = int(t[1])
            elif k in ("STAT", "SAMPLE", "VIOL", "DONE"):
                continue
            else:
                cur.events.append(t)
    return cases


def parse_gcb(t):
    """GCB rid t err n entries... -> dict"""
    ents = []
    for e in t[5:]:
        f = e.split("/")
        ents.append(dict(fam=int(f[0]), socktype=int(f[1]), proto=int(f[2]), addrlen=int(f[3]),
                         addr=None if f[4] == "?" else bytes.fromhex(f[4]), port=int(f[5]), scope=int(f[6]), flags=int(f[7], 16),
                         canon=None if f[8] == "-" else (b"" if f[8] == "E" else bytes.fromhex(f[8]))))
    return dict(rid=int(t[1]), t=int(t[2]), err=int(t[3]), n=int(t[4]), ents=ents)


def run_scripts(res, prop, scripts, ifmasks, tagbase="j"):
    """run one harness process per script file; -> list of stdout paths"""
    jobs = []
    for i, (sc, m) in enumerate(zip(scripts, ifmasks)):
        jobs.append(dict(args=["--arg", sc, "--cases", 100000000, "--n1", m], tag="%s-%s" % (tagbase, os.path.basename(sc)),
                         replay=dict(script=sc, ifmask=m)))
    outs = vlib.run_jobs(res, "asan", HARNESS, jobs, timeout=1800)
    return [o["out"] for o in outs], outs


def case_texts(script):
    d = {}
    cur = None
    for ln in open(script):
        ln = ln.rstrip("\n")
        if ln.startswith("CASE "):
            cur = int(ln.split()[1]); d[cur] = []
        if cur is not None:
            d[cur].append(ln)
    return d


def replay_lines(prop, lines, ifmask):
    """run one case given as script lines -> (Case | None, stderr text)"""
    import subprocess
    vlib.build("asan", [HARNESS])
    d = vlib.workdir(prop)
    sc = os.path.join(d, "replay.script")
    open(sc, "w").write("\n".join(lines) + "\n")
    env = vlib.sanitizer_env("asan")
    p = subprocess.run([os.path.join(vlib.BUILD, "asan", HARNESS), "--arg", sc, "--cases", "10", "--n1", str(ifmask)], cwd=d, env=env,
                       stdout=subprocess.PIPE, stderr=subprocess.PIPE, timeout=600)
    out = os.path.join(d, "replay.out")
    open(out, "wb").write(p.stdout)
    cases = parse_trace(out)
    c = next(iter(cases.values())) if cases else None
    return c, p.stderr.decode("latin1", "replace")


# ------------------------------------------------------------------ shared little grammars
LDH = b"abcdefghijklmnopqrstuvwxyz0123456789"


def rand_label(rng, lo=1, hi=8):
    return bytes(rng.choice(LDH) for _ in range(rng.randint(lo, hi)))


def rand_domain(rng, nlab=None):
    n = nlab or rng.choice([1, 2, 2, 3])
    return b".".join(rand_label(rng) for _ in range(n))


def rand_v4(rng):
    return bytes([rng.choice([10, 192, 198, 203, 1, 8, 100]), rng.randrange(256), rng.randrange(256), rng.randrange(1, 255)])


def rand_v6(rng):
    k = rng.randrange(4)
    if k == 0:
        return bytes([0x20, 0x01, 0x0d, 0xb8]) + bytes(rng.randrange(256) for _ in range(12))
    if k == 1:
        return bytes([0x20, 0x01, 0x0d, 0xb8]) + bytes(11) + bytes([rng.randrange(1, 255)])
    if k == 2:
        return bytes([0xfd]) + bytes(rng.randrange(256) for _ in range(15))
    return bytes(10) + b"\xff\xff" + rand_v4(rng)        # v4-mapped


def ntop(fam, a):
    return socket.inet_ntop(socket.AF_INET if fam == AF_INET else socket.AF_INET6, a).encode()


# =================================================================== C39: configuration files
VALID_SECONDS = [b"1", b"2", b"5", b"30", b"0.5", b"0.3", b"1.5", b"2.25", b"0.001", b"10", b"29.999", b"3", b"7.0", b"12.125"]
OPT_NAMES = [b"ndots", b"timeout", b"getaddrinfo-allow-skew", b"max-timeouts", b"max-inflight", b"attempts", b"randomize-case",
             b"bind-to", b"initial-probe-timeout", b"max-probe-timeout", b"probe-backoff-factor", b"so-rcvbuf", b"so-sndbuf",
             b"tcp-idle-timeout", b"use-vc", b"ignore-tc", b"edns-udp-size"]
KIND = {b"ndots": "int", b"timeout": "tv", b"getaddrinfo-allow-skew": "tv", b"max-timeouts": "int", b"max-inflight": "int", b"attempts": "int",
        b"randomize-case": "int", b"bind-to": "addr", b"initial-probe-timeout": "tv", b"max-probe-timeout": "int",
        b"probe-backoff-factor": "int", b"so-rcvbuf": "int", b"so-sndbuf": "int", b"tcp-idle-timeout": "tv", b"use-vc": "flag",
        b"ignore-tc": "flag", b"edns-udp-size": "int"}
INT_POOL = {b"ndots": [0, 1, 2, 3, 4, 5, 15, 16, 40], b"max-timeouts": [0, 1, 2, 3, 10, 255, 256, 1000], b"max-inflight": [0, 1, 4, 5, 6, 64, 100, 65000, 65001, 100000],
            b"attempts": [1, 2, 3, 4, 5, 6, 10, 255, 256, 300], b"randomize-case": [0, 1, 1, 0, 2], b"max-probe-timeout": [0, 1, 5, 9, 10, 11, 60, 3600, 3601, 9999],
            b"probe-backoff-factor": [0, 1, 2, 3, 10, 11, 50], b"so-rcvbuf": [0, 4096, 65536, 1000000], b"so-sndbuf": [0, 4096, 65536, 1000000],
            b"edns-udp-size": [0, 511, 512, 513, 1232, 4096, 65535, 65536, 100000]}
BAD_INTS = [b"", b"abc", b"3x", b"x3", b"1.5", b"--1", b"1 ", b"0x10", b"3:4", b"\xff", b"1e3"]
FUZZY_INTS = [b"+3", b"-2", b"-1", b"007", b"4294967297", b"2147483648", b"99999999999999999999"]
BAD_SECONDS = [b"", b"abc", b"5s", b"1,5", b"1.5.2", b"--1", b"1..2", b"s5", b"\xfe"]
FUZZY_SECONDS = [b"1e1", b".5", b"5.", b"+5", b"0x10", b"inf", b"nan", b"-1", b"0", b"0.0001", b"1e-9", b"3000000000", b"1e400"]
BAD_ADDRS = [b"1.2.3", b"1.2.3.4.5", b"256.1.1.1", b"1.2.3.4:0", b"1.2.3.4:65536", b"1.2.3.4:", b"[::1", b"example.com", b"1..2.3",
             b"1.2.3.4:-5", b"g::1", b"[1.2.3.4]:53", b"localhost", b"1.2.3.4:99999999999", b"[]:53", b"[2001:db8::1]:0", b"nameserver"]
FUZZY_ADDRS = [b"+1.2.3.4", b"01.2.3.4", b"1.2.3.4:80abc", b"0x1::", b"[::1]x", b"1.2.3.4:053", b":::", b"::1]:53", b"1::2::3", b"12345::1", b"fe80::1%1"]
REAL_ADDRS = [b"10.1.2.3", b"192.0.2.53", b"192.0.2.53:5353", b"198.51.100.7:53", b"2001:db8::53", b"[2001:db8::1]:5353", b"[2001:db8::2]",
              b"203.0.113.9", b"8.8.8.8", b"::ffff:10.0.0.1", b"[fd00::35]:53"]
JUNK_KEYWORDS = [b"sortlist 130.155.160.0/255.255.240.0", b"lookup file bind", b"family inet6 inet4", b"Nameserver 10.9.9.9", b"NAMESERVER 10.9.9.8",
                 b"nameserverx 10.9.9.7", b"name server 10.9.9.6", b"searchx bad.example", b"option ndots:7", b"optionsndots:7", b"domain", b"nameserver",
                 b"options", b"# nameserver 10.9.9.5", b"; search commented.example", b"#search x.example", b"", b"   ", b"\t", b"resolv.conf",
                 b"nameserver=10.9.9.4", b"nameserver:10.9.9.3", b"search=bad2.example", b"options:ndots:7"]


def gen_option_token(rng, for_file):
    """-> (name_bytes, val_bytes|None, tag)"""
    o = rng.choice(OPT_NAMES)
    kind = KIND[o]
    r = rng.random()
    # name variants
    if r < 0.70:
        name, ntag = o, "exact"
    elif r < 0.78 and not for_file:
        name, ntag = o + b":", "colon"
    elif r < 0.84 and not for_file:
        name, ntag = o + b":junk", "colonjunk"
    elif r < 0.89:
        name, ntag = o[:-1], "truncated"
    elif r < 0.94:
        name, ntag = o + rng.choice([b"x", b"s", b"-", b"_"]), "extended"
    elif r < 0.97:
        name, ntag = o.upper(), "upper"
    else:
        name, ntag = rng.choice([b"", b"rotate", b"debug", b"inet6", b"no-check-names", b"nd", b"time", b"edns0", b"single-request"]), "unknown"
    v = rng.random()
    if kind == "flag":
        val = rng.choice([b"", b"", None, b"", b"1", b"yes"]) if not for_file else rng.choice([b"", b"", b"", b"1"])
        vtag = "flag"
    elif kind == "int":
        if v < 0.66:
            val, vtag = b"%d" % rng.choice(INT_POOL[o] + [rng.randrange(0, 70000)]), "valid"
        elif v < 0.85:
            val, vtag = rng.choice(BAD_INTS), "bad"
        else:
            val, vtag = rng.choice(FUZZY_INTS), "fuzzy"
    elif kind == "tv":
        if v < 0.66:
            val = rng.choice(VALID_SECONDS + [b"%d" % rng.randrange(1, 4000), b"%d.%03d" % (rng.randrange(0, 40), rng.randrange(1, 1000)), b"3600", b"3600.5", b"3700", b"4000.25", b"31", b"45"])
            vtag = "valid"
        elif v < 0.85:
            val, vtag = rng.choice(BAD_SECONDS), "bad"
        else:
            val, vtag = rng.choice(FUZZY_SECONDS), "fuzzy"
    else:   # bind-to: only loopback addresses (bind() of anything else depends on the machine)
        if v < 0.66:
            val, vtag = rng.choice([b"127.0.0.1", b"127.0.0.2", b"127.8.9.10", b"::1", b"[::1]"]), "valid"
        elif v < 0.85:
            val, vtag = rng.choice(BAD_ADDRS), "bad"
        else:
            val, vtag = rng.choice([b"+127.0.0.1", b"0127.0.0.1", b"127.0.0.1:", b"[::1]x"]), "fuzzy"
    if for_file and val is not None and (b" " in val or b"\t" in val):
        val = val.replace(b" ", b"").replace(b"\t", b"")
    return name, val, "%s-%s" % (ntag, vtag)


def option_file_token(name, val):
    if val is None or (val == b"" and KIND.get(name.split(b":")[0], "") == "flag"):
        return name
    return name + b":" + val


def gen_search_domain(rng):
    r = rng.random()
    if r < 0.8:
        return rand_domain(rng)
    if r < 0.86:
        return b"." + rand_domain(rng)           # leading dot is dropped
    if r < 0.9:
        return rand_domain(rng) + b"."
    if r < 0.94:
        return rng.choice([b"UPPER.Example", b"x_y.test", b"8\xffbit.test", b"a" * 63 + b".test"])
    return rng.choice([b".", b"..", b"a..b", b"#c", b"x;y"])


def gen_resolv_lines(rng, fake_only):
    """well-formed directive lines -> list of bytes (no line ends)"""
    L = []
    n = rng.choice([1, 2, 3, 3, 4, 5, 7])
    kinds = ["nameserver"] * 4 + ["search"] * 2 + ["domain"] + ["options"] * 3
    nfake = 0
    for _ in range(n):
        k = rng.choice(kinds)
        sep = rng.choice([b" ", b" ", b"\t", b"  ", b" \t "])
        if k == "nameserver":
            r = rng.random()
            if fake_only or r < 0.5:
                a = b"127.0.0.1:@P%d@" % rng.randrange(3); nfake += 1
            elif r < 0.8:
                a = rng.choice(REAL_ADDRS)
            elif r < 0.92:
                a = rng.choice(BAD_ADDRS)
            else:
                a = rng.choice(FUZZY_ADDRS)
            tail = rng.choice([b"", b"", b"", b" ", b" # trailing comment", b" extra tokens 10.7.7.7"])
            L.append(b"nameserver" + sep + a + tail)
        elif k == "search":
            doms = [gen_search_domain(rng) for _ in range(rng.choice([1, 1, 2, 3, 3, 6, 8]))]
            L.append(b"search" + sep + rng.choice([b" ", b"\t", b"  "]).join(doms) + rng.choice([b"", b"", b" "]))
        elif k == "domain":
            L.append(b"domain" + sep + gen_search_domain(rng) + rng.choice([b"", b"", b" ignored.example"]))
        else:
            toks = []
            for _ in range(rng.choice([1, 1, 2, 3, 4])):
                name, val, _ = gen_option_token(rng, True)
                toks.append(option_file_token(name, val))
            L.append(b"options" + sep + b" ".join(toks))
    if fake_only and nfake == 0:
        L.insert(rng.randrange(len(L) + 1), b"nameserver 127.0.0.1:@P%d@" % rng.randrange(3))
    return L


def gen_malformed_line(rng, allow_nul=True):
    r = rng.random()
    if r < 0.35:
        return rng.choice(JUNK_KEYWORDS)
    if r < 0.55:
        n = rng.choice([1, 5, 20, 80, 300])
        return bytes(rng.choice([c for c in range(1, 256) if c != 10]) for _ in range(n)).lstrip(b" \t") or b"x"
    if r < 0.65:
        return b"nameserver " + rng.choice(BAD_ADDRS)
    if r < 0.72:
        return b"options " + rng.choice([b"ndots:abc", b"timeout:5s", b"attempts:x", b"nosuchoption:1", b"ndots:", b"timeout:", b":", b"::::", b"ndots:3x", b"use-vc:1"])
    if r < 0.78:
        return rng.choice([b"x", b"zz", b"garbage "]) * rng.choice([300, 2000, 9000])      # very long line
    if r < 0.84 and allow_nul:
        return rng.choice([b"gar\0bage", b"\0", b"junk \0 nameserver 10.6.6.6", b"\0nameserver 10.6.6.7"])
    if r < 0.9:
        return rng.choice([b"nameserver", b"domain", b"search_", b"options"]) + bytes(rng.randrange(128, 256) for _ in range(rng.randrange(1, 9)))
    return rng.choice([b"\r", b"nameserver 10.5.5.5\r", b"\x0b\x0c", b"=", b"search\x0bvt.example"])


def assemble(rng, lines):
    eol = b"\n"
    body = eol.join(lines)
    if rng.random() < 0.8:
        body += eol
    return body


HOST_NAMES = [b"alpha", b"beta.test", b"gamma.example.org", b"Delta", b"localhost", b"h1", b"h2.lan", b"mail", b"x-y.test"]


def gen_hosts_lines(rng):
    L = []
    for _ in range(rng.choice([1, 2, 3, 5, 8])):
        r = rng.random()
        sep = rng.choice([b" ", b"\t", b"   ", b" \t"])
        if r < 0.45:
            a = ntop(AF_INET, rand_v4(rng))
        elif r < 0.75:
            a = ntop(AF_INET6, rand_v6(rng))
        elif r < 0.85:
            a = rng.choice(BAD_ADDRS + [b"1.2.3.4:80", b"[2001:db8::1]:80"])
        elif r < 0.9:
            a = rng.choice([b"[2001:db8::5]", b"+1.2.3.4", b"01.2.3.4", b"fe80::1%1"])
        else:
            a = rng.choice([b"#" + ntop(AF_INET, rand_v4(rng)), b"#", b"# comment line", b""])
        names = [rng.choice(HOST_NAMES + [rand_label(rng), rand_domain(rng)]) for _ in range(rng.choice([1, 1, 2, 3]))]
        if rng.random() < 0.15:
            k = rng.randrange(len(names))
            names[k] = names[k] + rng.choice([b"#c", b"#", b" # comment", b" #comment more", b" #"])
        if rng.random() < 0.1:
            names.insert(rng.randrange(len(names) + 1), b"#stop")
        line = rng.choice([b"", b"", b"", b" ", b"\t"]) + a + sep + sep.join(names) + rng.choice([b"", b"", b" ", b"\r"])
        L.append(line)
    return L


def gen_random_bytes_file(rng):
    n = rng.choice([0, 1, 7, 40, 200, 1000, 5000])
    r = rng.random()
    if r < 0.4:
        return bytes(rng.randrange(256) for _ in range(n))
    if r < 0.7:   # bytes biased to the syntax alphabet
        alpha = b"nameserver search domain options ndots:timeout:attempts:\n\n\n\t  0123456789.:[]#;\0\r"
        return bytes(rng.choice(alpha) for _ in range(n))
    words = [b"nameserver", b"search", b"domain", b"options", b"ndots:", b"timeout:", b"1.2.3.4", b"::1", b"\n", b"\n", b" ", b"\t", b"\0", b"#", b"a.b", b"5", b":", b"127.0.0.1:@P0@"]
    return b"".join(rng.choice(words) for _ in range(max(1, n // 6)))


def gen_c39_case(rng, idx, thorough=False):
    """-> list of script lines"""
    L = ["CASE %d" % idx]
    mode = rng.choices(["grammar", "pair", "api", "hosts", "random", "missing"], [40, 14, 16, 16, 9 if thorough else 8, 5])[0]
    bflags = rng.choice([0, 0, 0x8000])
    hostname = rng.choice([b"vm", b"vm", b"host.example.org", b"a.b", b"node1.lan", b"trail.", b"x..y", b"h.corp.example.com"])

    def begin():
        L.append("B %d" % bflags)
        L.append("HN " + hx(hostname))

    def probes(rid0=0):
        # behavioural observation of search list / ndots / hosts / retry settings.  Which probes make sense is decided with the
        # reference model (workload shaping only): lookups that need DNS are issued only when every configured nameserver is
        # one of the fake servers, otherwise they would just hang on blocked sends.
        cfg = dry_model(L)
        ok = probeable(cfg)
        rid = rid0
        if ok:
            for nm in rng.sample([b"p", b"p.q", b"p.q.r", b"p.q.r.s.t", b"dotted.", b"p1"], rng.choice([1, 2, 2, 3])):
                L.append("PS %d %s" % (rid, hx(nm))); rid += 1
        present = sorted({h for (_, _, h) in (cfg.hosts or [])}) if cfg is not None else []
        names = rng.sample(present, min(len(present), 2)) + ([b"absent-name.invalid"] if ok else [])
        for nm in names:
            fam = rng.choice([0, 0, 2, 10])
            st = rng.choice([0, 1, 2])
            L.append("PH %d %s %s %d %d" % (rid, hx(nm if rng.random() < 0.7 else nm.swapcase()), hx(rng.choice([None, b"80", b"443", b"53"])), fam, st)); rid += 1
        if ok and len(cfg.ns) == 1 and rng.random() < 0.5:
            to, at = cfg.f["timeout"], cfg.f["attempts"]
            if to and at and len(to) <= 2 and len(at) == 1 and max(to) <= 30000000 and 1 <= min(at) <= 6:
                L.append("PR %d %s" % (rid, hx(b"retry-probe.test"))); rid += 1

    if mode in ("grammar", "pair"):
        begin()
        fake_only = rng.random() < 0.65
        flags = rng.choice([7, 7, 7, 7, 7, 23, 1, 2, 4, 3, 5, 6, 0, 15])
        good = gen_resolv_lines(rng, fake_only)
        if mode == "grammar":
            lines = list(good)
            for _ in range(rng.choice([0, 0, 1, 2, 4])):
                lines.insert(rng.randrange(len(lines) + 1), gen_malformed_line(rng))
            if rng.random() < 0.1:
                lines = [l + b"\r" for l in lines]      # CRLF file
            if rng.random() < 0.3:
                # API calls before the file
                for _ in range(rng.choice([1, 2])):
                    name, val, _ = gen_option_token(rng, False)
                    L.append("O %s %s" % (hx(name), hx(val)))
            L.append("RC %d %s" % (flags, hx(assemble(rng, lines))))
            if rng.random() < 0.15:
                L.append("RC %d %s" % (rng.choice([7, 7, 2, 1, 4]), hx(assemble(rng, gen_resolv_lines(rng, fake_only)))))
            if rng.random() < 0.25:
                L.append("LH " + hx(assemble(rng, gen_hosts_lines(rng))))
            L.append("DUMP")
            probes()
        else:
            # metamorphic pair: the same well-formed lines alone, then with malformed lines interleaved
            good = [g for g in good if b"\0" not in g]
            L.append("RC %d %s" % (flags, hx(b"\n".join(good) + b"\n")))
            L.append("DUMP")
            L.append("F")
            begin()
            lines = list(good)
            for _ in range(rng.choice([1, 2, 3, 5])):
                lines.insert(rng.randrange(len(lines) + 1), gen_malformed_line(rng, allow_nul=rng.random() < 0.3))
            L.append("RC %d %s" % (flags, hx(b"\n".join(lines) + b"\n")))
            L.append("DUMP")
            L.append("PAIR")
            probes()
    elif mode == "api":
        begin()
        nops = rng.choice([1, 2, 3, 5, 8])
        for _ in range(nops):
            r = rng.random()
            if r < 0.6:
                name, val, _ = gen_option_token(rng, False)
                L.append("O %s %s" % (hx(name), hx(val)))
            elif r < 0.8:
                v = rng.random()
                a = b"127.0.0.1:@P%d@" % rng.randrange(3) if v < 0.5 else rng.choice(REAL_ADDRS if v < 0.75 else (BAD_ADDRS if v < 0.9 else FUZZY_ADDRS))
                L.append("NSA " + hx(a))
            elif r < 0.9:
                L.append("SA " + hx(gen_search_domain(rng)))
            elif r < 0.96:
                L.append("SN %d" % rng.choice([0, 1, 2, 3, 5]))
            else:
                L.append("SC")
        if rng.random() < 0.3:
            L.append("RC %d %s" % (rng.choice([7, 4, 1]), hx(assemble(rng, gen_resolv_lines(rng, True)))))
        L.append("DUMP")
        probes()
    elif mode == "hosts":
        begin()
        L.append("NS %d" % rng.randrange(3))
        for _ in range(rng.choice([1, 1, 2, 3])):
            r = rng.random()
            if r < 0.7:
                lines = gen_hosts_lines(rng)
                for _ in range(rng.choice([0, 0, 1, 2])):
                    lines.insert(rng.randrange(len(lines) + 1), gen_malformed_line(rng))
                if rng.random() < 0.08:
                    lines = [l + b"\r" for l in lines]
                L.append("LH " + hx(assemble(rng, lines)))
            elif r < 0.8:
                L.append("LH NULL")
            elif r < 0.88:
                L.append("LH MISSING")
            elif r < 0.94:
                L.append("CH")
            else:
                L.append("LH " + hx(gen_random_bytes_file(rng)))
        L.append("DUMP")
        probes()
    elif mode == "random":
        begin()
        if rng.random() < 0.5:
            L.append("NS %d" % rng.randrange(3))
        L.append("RC %d %s" % (rng.choice([7, 7, 23, 1, 2, 4]), hx(gen_random_bytes_file(rng))))
        if rng.random() < 0.5:
            L.append("LH " + hx(gen_random_bytes_file(rng)))
        L.append("DUMP")
    else:
        begin()
        if rng.random() < 0.4:
            L.append("NS %d" % rng.randrange(3))
        L.append("RCX %d %d" % (rng.choice([7, 7, 23, 1, 2, 4, 0, 15, 31]), rng.randrange(2)))
        L.append("DUMP")
        if rng.random() < 0.5:
            L.append("RC 7 " + hx(assemble(rng, gen_resolv_lines(rng, True))))
            L.append("DUMP")
    L.append("E")
    return L


FAKE_PORTS = (1001, 1002, 1003)     # stand-ins for the fake servers' ports while shaping the workload


def dry_model(lines, ports=FAKE_PORTS):
    """reference configuration after the script lines so far (last base); None if no base"""
    from ref import resolvconf as R
    cfg = None
    hostname = b"vm"

    def sub(b):
        for i, p in enumerate(ports):
            b = b.replace(b"@P%d@" % i, b"%d" % p)
        return b
    for ln in lines[1:]:
        t = ln.split()
        c = t[0]
        if c == "B": cfg = R.Config()
        elif c == "HN": hostname = unhx(t[1])
        elif c == "F": cfg = None
        elif c == "O": cfg.set_option(unhx(t[1]) or b"", unhx(t[2]))
        elif c == "NSA": cfg.nameserver_ip_add(sub(unhx(t[1])))
        elif c == "NS": cfg.nameserver_ip_add(b"127.0.0.1:%d" % ports[int(t[1]) % 3])
        elif c == "SA": cfg.search_add_front(unhx(t[1]) or b"")
        elif c == "SN": cfg.search_ndots_set(int(t[1]))
        elif c == "SC": cfg.search_clear()
        elif c == "RC": cfg.resolv_conf_parse(sub(unhx(t[2])), int(t[1]), hostname, None)
        elif c == "RCX": cfg.resolv_conf_parse(None, int(t[1]), hostname, None)
        elif c == "LH": cfg.load_hosts(None if t[1] in ("NULL", "MISSING") else sub(unhx(t[1])))
        elif c == "CH": cfg.clear_hosts()
    return cfg


def probeable(cfg, ports=FAKE_PORTS):
    if cfg is None or not cfg.ns:
        return False
    fake = {(AF_INET, bytes([127, 0, 0, 1]), p) for p in ports}
    return (all(n in fake for n in cfg.ns) and cfg.tcpflags is not None and all(not (x & 2) for x in cfg.tcpflags)
            and cfg.f["attempts"] is not None and min(cfg.f["attempts"]) >= 1 and cfg.f["timeout"] is not None
            and cfg.f["max_inflight"] is not None and min(cfg.f["max_inflight"]) >= 4)


def expand_probes(lines):
    """PS/PH/PR pseudo-commands -> real harness commands (kept separate so the judge sees the intent)"""
    out = []
    for ln in lines:
        t = ln.split()
        if t[0] == "PS":          # search probe: A-only lookup, every candidate is answered NXDOMAIN by default
            out += ["G %s %s NULL H 2 1 0 0" % (t[1], t[2]), "W 40000000"]
        elif t[0] == "PH":        # hosts probe
            out += ["G %s %s %s H %s %s 0 0" % (t[1], t[2], t[3], t[4], t[5]), "W 40000000"]
        elif t[0] == "PR":        # retry probe: every A query dropped from now on
            out += ["AR -1 * 1 0 -1 0 - 0", "G %s %s NULL H 2 1 0 0" % (t[1], t[2]), "W 400000000"]
        elif t[0] == "PAIR":
            continue
        else:
            out.append(ln)
    return out


# =================================================================== C38: getaddrinfo
SERVS = [(None, 0), (b"80", 80), (b"0", 0), (b"65535", 65535), (b"443", 443), (b"http", "svc"), (b"domain", "svc"), (b"ntp", "svc"),
         (b"nosuchsvc", None), (b"65536", None), (b"-1", None), (b"", None), (b"80x", None), (b"8080", 8080)]


def gen_hints(rng):
    if rng.random() < 0.08:
        return None
    fam = rng.choice([0, 0, 0, 0, 2, 2, 10, 10])
    r = rng.random()
    if r < 0.35:
        st, pr = 1, 0
    elif r < 0.5:
        st, pr = 2, 0
    elif r < 0.7:
        st, pr = 0, 0
    elif r < 0.8:
        st, pr = 0, rng.choice([6, 17])
    elif r < 0.93:
        st, pr = rng.choice([(1, 6), (2, 17)])
    else:
        st, pr = rng.choice([(1, 17), (2, 6)])      # inconsistent but both explicit
    fl = 0
    if rng.random() < 0.3:
        fl |= AI_CANONNAME
    if rng.random() < 0.12:
        fl |= AI_PASSIVE
    if rng.random() < 0.06:
        fl |= AI_NUMERICHOST
    if rng.random() < 0.1:
        fl |= AI_NUMERICSERV
    if rng.random() < 0.15:
        fl |= AI_ADDRCONFIG
    return (fam, st, pr, fl)


def hints_tok(h):
    return "N" if h is None else "H %d %d %d %d" % h


def gen_answer(rng, name, qtype, nm_pool):
    """-> dict(kind, rcode, ancount, ans(bytes), delay, max_uses) for one (name, qtype)"""
    fam = AF_INET if qtype == T_A else AF_INET6
    r = rng.random()
    delay = rng.choice([0, 0, 0, 1000, 20000, 500000, 1000000, 2500000, 2900000, 3100000, 3500000, 4500000])
    if r < 0.62:
        n = rng.choice([1, 1, 2, 2, 3, 4])
        ttls = [rng.choice([0, 1, 2, 5, 10, 30, 60, 300, 3600])] * n
        if rng.random() < 0.3:
            ttls = [rng.choice([1, 2, 5, 10, 30, 60, 300]) for _ in range(n)]
        addrs = []
        while len(addrs) < n:
            a = rand_v4(rng) if fam == AF_INET else rand_v6(rng)
            if a not in addrs:
                addrs.append(a)
        ans = b""
        cnt = 0
        owner = None
        c = rng.random()
        if c < 0.3:     # one CNAME
            tgt = rng.choice(nm_pool)
            ans += rr(None, T_CNAME, rng.choice([5, 60, 300, 3600]), enc_name(tgt)); cnt += 1; owner = tgt
        elif c < 0.38:  # chain of two
            t1, t2 = rng.sample(nm_pool, 2)
            ans += rr(None, T_CNAME, 300, enc_name(t1)) + rr(t1, T_CNAME, 300, enc_name(t2)); cnt += 2; owner = t2
        for a, ttl in zip(addrs, ttls):
            ans += rr_addr(owner, fam, a, ttl); cnt += 1
        if rng.random() < 0.1:   # a record of the other type mixed in: must not be reported for this query type... (skipped by the client)
            ans += rr_addr(owner, AF_INET6 if fam == AF_INET else AF_INET, rand_v6(rng) if fam == AF_INET else rand_v4(rng), 60); cnt += 1
        return dict(kind="ok", rcode=0, ancount=cnt, ans=ans, delay=delay, max_uses=0)
    if r < 0.74:
        return dict(kind="nodata", rcode=0, ancount=0, ans=b"", delay=delay, max_uses=0)
    if r < 0.88:
        return dict(kind="nx", rcode=3, ancount=0, ans=b"", delay=delay, max_uses=0)
    if r < 0.93:   # CNAME only, no address
        return dict(kind="nodata", rcode=0, ancount=1, ans=rr(None, T_CNAME, 60, enc_name(rng.choice(nm_pool))), delay=delay, max_uses=0)
    return dict(kind="drop", rcode=-1, ancount=0, ans=b"", delay=0, max_uses=rng.choice([0, 0, 1, 1, 2]))


def ar_line(name, qtype, a, srv=-1):
    return "AR %d %s %d %d %d %d %s %d" % (srv, hx(name.lower()), qtype, a["delay"], a["rcode"], a["ancount"], hx(a["ans"]), a["max_uses"])


def gen_c38_case(rng, idx, thorough=False):
    L = ["CASE %d" % idx]
    bflags = rng.choice([0, 0, 0, 0x8000, 0x10])
    L.append("B %d" % bflags)
    nns = rng.choice([1, 1, 1, 2, 3])
    for s in rng.sample([0, 1, 2], nns):
        L.append("NS %d" % s)
    if rng.random() < 0.25:
        L.append("O %s %s" % (hx(b"getaddrinfo-allow-skew"), hx(rng.choice([b"1", b"2", b"0.5", b"4", b"3"]))))
    if rng.random() < 0.15:
        L.append("O %s %s" % (hx(b"randomize-case"), hx(rng.choice([b"0", b"1"]))))
    if rng.random() < 0.1:
        L.append("O %s %s" % (hx(b"attempts"), hx(rng.choice([b"1", b"2", b"3"]))))
    pool = [b"www.example.com", b"host1.test", b"h2.test", b"deep.a.b.c.example", b"single", b"Mixed.Case.Test", b"alias.example.net", b"x-1.lan",
            b"mail.corp.example", b"t" + rand_label(rng, 3, 6) + b".test"]
    tgt_pool = [b"real.example.com", b"cdn.example.net", b"origin.test", b"a.very.long.canonical.name.example.org", b"edge7.cdn.test"]
    names = rng.sample(pool, rng.choice([1, 1, 2, 3]))
    # search configuration (minority)
    search = []
    ndots = 1
    if rng.random() < 0.15:
        search = [rand_domain(rng, 2) for _ in range(rng.choice([1, 2, 3]))]
        for d in reversed(search):
            L.append("SA " + hx(d))         # last added is tried first
        ndots = rng.choice([1, 1, 2, 3])
        L.append("SN %d" % ndots)
    # hosts file
    hosts_names = []
    if rng.random() < 0.35:
        hl = []
        for _ in range(rng.choice([1, 2, 4])):
            nm = rng.choice(names + [b"alpha", b"localhost", b"beta.test"])
            hosts_names.append(nm)
            fam = rng.choice([AF_INET, AF_INET, AF_INET6])
            a = rand_v4(rng) if fam == AF_INET else rand_v6(rng)
            hl.append(ntop(fam, a) + b" " + (nm if rng.random() < 0.7 else nm.swapcase()) + rng.choice([b"", b"", b" extra.alias"]))
        L.append("LH " + hx(b"\n".join(hl) + b"\n"))
    elif rng.random() < 0.1:
        L.append("LH NULL"); hosts_names.append(b"localhost")
    # answer rules
    import_cands = []
    for nm in names:
        cands = [nm]
        if search:
            j = [nm + (b"" if nm.endswith(b".") else b".") + d for d in search]
            cands = ([nm] + j) if nm.count(b".") >= ndots else (j + [nm])
        real = rng.choice(cands)
        for c in cands:
            for qt in (T_A, T_AAAA):
                if c == real:
                    a = gen_answer(rng, c, qt, tgt_pool)
                    if a["kind"] == "drop" and a["max_uses"]:
                        L.append(ar_line(c, qt, a))
                        a2 = gen_answer(rng, c, qt, tgt_pool)
                        while a2["kind"] == "drop":
                            a2 = gen_answer(rng, c, qt, tgt_pool)
                        a2["delay"] = min(a2["delay"], 1000000)
                        L.append(ar_line(c, qt, a2))
                    else:
                        L.append(ar_line(c, qt, a))
                elif rng.random() < 0.3:
                    a = dict(kind="nx", rcode=rng.choice([3, 3, 0]), ancount=0, ans=b"", delay=rng.choice([0, 0, 1000, 300000]), max_uses=0)
                    L.append(ar_line(c, qt, a))
                # else: default NXDOMAIN at once
        if rng.random() < 0.25 and not search:
            # the data changes after the first use (a later lookup that really goes to the server sees other addresses)
            for qt in (T_A, T_AAAA):
                for k, ln in enumerate(L):
                    t = ln.split()
                    if t[0] == "AR" and t[2] == hx(nm.lower()) and int(t[3]) == qt and t[8] == "0" and int(t[5]) == 0 and int(t[6]) > 0:
                        t[8] = "1"; L[k] = " ".join(t)
                        a2 = gen_answer(rng, nm, qt, tgt_pool)
                        a2["delay"] = min(a2["delay"], 500000)
                        if a2["kind"] == "drop":
                            a2 = dict(kind="nx", rcode=3, ancount=0, ans=b"", delay=0, max_uses=0)
                        L.append(ar_line(nm, qt, a2))
                        break
    # lookups
    rid = 0
    nlook = rng.choice([1, 2, 3, 3, 4, 5])
    last_node = None
    for k in range(nlook):
        r = rng.random()
        if r < 0.07:
            node = None
        elif r < 0.16:
            node = ntop(AF_INET, rand_v4(rng))
        elif r < 0.24:
            node = rng.choice([ntop(AF_INET6, rand_v6(rng)), b"::1", b"::", b"::ffff:1.2.3.4"])
        elif r < 0.36 and hosts_names:
            node = rng.choice(hosts_names)
            if rng.random() < 0.3:
                node = node.swapcase()
        elif r < 0.75 and last_node is not None:
            node = last_node if rng.random() < 0.7 else last_node.swapcase()     # repeat: cache ages
        else:
            node = rng.choice(names)
        serv = rng.choice(SERVS)[0]
        if rng.random() < 0.75:
            serv = rng.choice([None, None, b"80", b"443", b"8080", b"http", b"domain", b"65535", b"0"])
        h = gen_hints(rng)
        if node is not None and not re.match(rb"[0-9:.a-fA-F]+\Z", node):
            last_node = node
        if rng.random() < 0.08 and k + 1 < nlook:
            # two lookups of different names in flight together
            other = rng.choice(pool)
            if other.lower() != (node or b"").lower():
                L.append("G %d %s %s %s" % (rid, hx(node), hx(serv), hints_tok(h))); rid += 1
                L.append("G %d %s %s %s" % (rid, hx(other), hx(rng.choice([None, b"25"])), hints_tok(gen_hints(rng)))); rid += 1
                L.append("W 200000000")
                continue
        L.append("G %d %s %s %s" % (rid, hx(node), hx(serv), hints_tok(h)))
        if rng.random() < 0.03:
            L.append("X %d" % rid)
        rid += 1
        L.append("W 200000000")
        if k + 1 < nlook and last_node is not None and rng.random() < 0.07:
            # the name just resolved by DNS (and cached) now also appears in the hosts file: hosts entries win from here on
            fam = rng.choice([AF_INET, AF_INET6])
            L.append("LH " + hx(ntop(fam, rand_v4(rng) if fam == AF_INET else rand_v6(rng)) + b" " + last_node + b"\n"))
            hosts_names.append(last_node)
        if k + 1 < nlook:
            L.append("T %d" % rng.choice([0, 0, 500000, 900000, 1100000, 1900000, 2100000, 4000000, 6000000, 9000000, 11000000, 29000000, 31000000,
                                          59000000, 61000000, 299000000, 301000000, 3700000000]))
    L.append("E")
    return L
