"""Generators and trace plumbing for the evdns client checks C33/C34/C36
(harness/h_dns.c).  Everything here is independent of libevent's code: reply
grammar, name grammar, nameserver-behaviour scenarios, script emission, trace
parsing, shard running with crash-resume.
"""
import os, sys, random, struct, json, pickle, hashlib, re
import vlib
from ref import dnswire as W

T_A, T_AAAA, T_PTR, T_CNAME = 1, 28, 12, 5
QT = {"A": T_A, "AAAA": T_AAAA, "P4": T_PTR, "P6": T_PTR}

DNS_ERR = dict(NONE=0, FORMAT=1, SERVERFAILED=2, NOTEXIST=3, NOTIMPL=4, REFUSED=5, TRUNCATED=65, UNKNOWN=66,
               TIMEOUT=67, SHUTDOWN=68, CANCEL=69, NODATA=70)
F_NO_SEARCH, F_USEVC, F_IGNTC, F_CNAME_CB = 1, 2, 4, 0x80


def mkrng(seed, prop, shard):
    h = hashlib.sha256(("%s/%s/%s" % (seed, prop, shard)).encode()).digest()
    return random.Random(int.from_bytes(h[:8], "big"))


# ------------------------------------------------------------------ names
ALNUM = b"abcdefghijklmnopqrstuvwxyzABCDEFGHIJKLMNOPQRSTUVWXYZ0123456789-_"


def rand_label(rng, n=None, alphabet=ALNUM):
    if n is None:
        n = rng.choice([1, 2, 3, 5, 8, 12])
    return bytes(rng.choice(alphabet) for _ in range(n))


def plain_name(rng, nlabels=None):
    if nlabels is None:
        nlabels = rng.choice([1, 2, 2, 3, 3, 4])
    return b".".join(rand_label(rng) for _ in range(nlabels))


def reverse_name(kind, addr):
    """RFC 1035 3.5 / RFC 3596 2.5 reverse-mapping names (independent of the library)."""
    if kind == "P4":
        return b".".join(str(b).encode() for b in reversed(addr)) + b".in-addr.arpa"
    nib = []
    for b in reversed(addr):
        nib.append(b"%x" % (b & 15))
        nib.append(b"%x" % (b >> 4))
    return b".".join(nib) + b".ip6.arpa"


# ------------------------------------------------------------------ template builder
class MB:
    """Message builder producing a harness template (hex literals + tokens I J Q X Y L)."""
    TOK = "IJQXYL"

    def __init__(self, qname_wire_len):
        self.parts = []
        self.pos = 0
        self.qlen = qname_wire_len
        self.fixups = []     # (part index) of forward pointers to the trailing name pool

    def raw(self, b):
        if b:
            self.parts.append(bytes(b))
            self.pos += len(b)

    def tok(self, t):
        self.parts.append(t)
        self.pos += {"I": 2, "J": 2, "L": 2, "Q": self.qlen, "X": self.qlen, "Y": self.qlen + 4}[t]

    def u16(self, v): self.raw(struct.pack(">H", v & 0xffff))
    def u32(self, v): self.raw(struct.pack(">I", v & 0xffffffff))

    def fwd_pointer(self):
        self.parts.append(["FWD"])
        self.fixups.append(len(self.parts) - 1)
        self.pos += 2

    def finish_pool(self, rng):
        if not self.fixups:
            return
        tgt = self.pos
        for i in self.fixups:
            self.parts[i] = struct.pack(">H", 0xc000 | (tgt & 0x3fff))
        self.fixups = []
        self.raw(W.encode_name([rand_label(rng), b"pool", b"test"]))

    def template(self):
        return "".join(p if isinstance(p, str) else bytes(p).hex() for p in self.parts) or "-"

    def truncate(self, n):
        out, pos = [], 0
        for p in self.parts:
            if isinstance(p, str):
                l = {"I": 2, "J": 2, "L": 2, "Q": self.qlen, "X": self.qlen, "Y": self.qlen + 4}[p]
                if pos + l > n:
                    break
                out.append(p)
                pos += l
            else:
                if pos + len(p) > n:
                    out.append(p[:n - pos])
                    pos = n
                    break
                out.append(p)
                pos += len(p)
        self.parts, self.pos = out, pos

    def mutate(self, rng, k):
        idx = [i for i, p in enumerate(self.parts) if not isinstance(p, str) and len(p)]
        for _ in range(k):
            if not idx:
                return
            i = rng.choice(idx)
            b = bytearray(self.parts[i])
            j = rng.randrange(len(b))
            b[j] = rng.choice([b[j] ^ (1 << rng.randrange(8)), rng.randrange(256), 0, 0xff, 0xc0])
            self.parts[i] = bytes(b)


TTLS = [0, 1, 5, 60, 300, 3600, 86400, 0x7fffffff, 0x80000000, 0xffffffff]


def put_name(rng, mb, kind, labels=None):
    """Emit a domain name in one of the grammar's shapes."""
    if kind == "ptr-q":
        mb.raw(b"\xc0\x0c")
    elif kind == "literal-q":
        mb.tok("Q")
    elif kind == "literal":
        mb.raw(W.encode_name(labels if labels is not None else [rand_label(rng) for _ in range(rng.randint(1, 4))]))
    elif kind == "label+ptr-q":
        mb.raw(bytes([3]) + b"sub" + b"\xc0\x0c")
    elif kind == "ptr-fwd":
        mb.fwd_pointer()
    elif kind == "ptr-self":
        mb.raw(struct.pack(">H", 0xc000 | mb.pos))
    elif kind == "ptr-loop2":
        p = mb.pos
        mb.raw(struct.pack(">H", 0xc000 | (p + 2)) + struct.pack(">H", 0xc000 | p))
    elif kind == "ptr-hdr":
        mb.raw(struct.pack(">H", 0xc000 | rng.randrange(12)))
    elif kind == "ptr-oob":
        mb.raw(struct.pack(">H", 0xc000 | rng.choice([0x3fff, 0x2000, mb.pos + 200])))
    elif kind == "ptr-back-mid":
        mb.raw(struct.pack(">H", 0xc000 | rng.randrange(12, max(13, mb.pos))))
    elif kind == "badlabel":
        mb.raw(bytes([rng.choice([0x40, 0x80]) | 3]) + b"abc\0")
    elif kind == "label64":
        mb.raw(bytes([64]) + b"a" * 64 + b"\0")
    elif kind == "long":
        n = rng.choice([3, 4, 5])
        mb.raw(b"".join(bytes([63]) + rand_label(rng, 63) for _ in range(n)) + b"\0")
    elif kind == "max":
        mb.raw(W.encode_name([rand_label(rng, 63), rand_label(rng, 63), rand_label(rng, 63), rand_label(rng, 61)]))
    elif kind == "binary":
        mb.raw(W.encode_name([bytes([rng.choice([0, 46, 0x80, 0xff, 92, 32]) for _ in range(rng.randint(1, 5))]), b"bin"]))
    elif kind == "cut":
        mb.raw(bytes([9]) + b"abc")
    elif kind == "fill-q":
        # labels + pointer to the question name, expanding to a text length around the 253/255 limits (seed C33-1:
        # the buffer boundaries of the resolver only show in replies this small with names this long)
        need = rng.choice([250, 252, 253, 253, 254, 254, 255, 255, 256, 257]) - (mb.qlen - 2) - 1
        labs = []
        while need > 0:
            l = min(63, need)
            if need - l == 1:
                l -= 1
            labs.append(rand_label(rng, l)); need -= l
            if need > 0:
                need -= 1
        mb.raw(b"".join(bytes([len(l)]) + l for l in labs) + b"\xc0\x0c")
    else:
        raise ValueError(kind)


NAME_GOOD = ["ptr-q", "ptr-q", "ptr-q", "literal-q", "literal", "label+ptr-q", "ptr-fwd", "max"]
NAME_BAD = ["ptr-self", "ptr-loop2", "ptr-hdr", "ptr-oob", "ptr-back-mid", "badlabel", "label64", "long", "binary"]


def pick_name_kind(rng, hostile):
    if rng.random() < hostile:
        return rng.choice(NAME_BAD)
    return rng.choice(NAME_GOOD)


def put_rr(rng, mb, qtype, kind, hostile):
    owner = pick_name_kind(rng, hostile * 0.5)
    put_name(rng, mb, owner)
    ttl = rng.choice(TTLS) if rng.random() < 0.7 else rng.randrange(1 << 32)
    size = 4 if qtype == T_A else 16

    def hdr(t, c, rdlen):
        mb.u16(t); mb.u16(c); mb.u32(ttl); mb.u16(rdlen)
    if kind == "addr":
        t = qtype if qtype in (T_A, T_AAAA) else T_A
        size = 4 if t == T_A else 16
        hdr(t, 1, size); mb.raw(bytes(rng.randrange(256) for _ in range(size)))
    elif kind == "addr-multi":
        t = qtype if qtype in (T_A, T_AAAA) else T_A
        size = 4 if t == T_A else 16
        k = rng.choice([2, 3])
        hdr(t, 1, size * k); mb.raw(bytes(rng.randrange(256) for _ in range(size * k)))
    elif kind == "addr-badlen":
        t = qtype if qtype in (T_A, T_AAAA) else T_A
        l = rng.choice([1, 3, 5, 7, 15, 17])
        hdr(t, 1, l); mb.raw(bytes(rng.randrange(256) for _ in range(l)))
    elif kind == "addr-zero":
        hdr(qtype if qtype in (T_A, T_AAAA) else T_A, 1, 0)
    elif kind == "addr-otherfam":
        t = T_AAAA if qtype == T_A else T_A
        size = 4 if t == T_A else 16
        hdr(t, 1, size); mb.raw(bytes(rng.randrange(256) for _ in range(size)))
    elif kind == "addr-ch":
        t = qtype if qtype in (T_A, T_AAAA) else T_A
        size = 4 if t == T_A else 16
        hdr(t, rng.choice([3, 4, 255, 0]), size); mb.raw(bytes(rng.randrange(256) for _ in range(size)))
    elif kind in ("cname", "ptr", "ns", "cname-fill", "ptr-fill"):
        t = {"cname": T_CNAME, "ptr": T_PTR, "ns": 2, "cname-fill": T_CNAME, "ptr-fill": T_PTR}[kind]
        tk = "fill-q" if kind.endswith("-fill") else pick_name_kind(rng, hostile * 0.5)
        if tk == "ptr-fwd":
            tk = "literal"
        sub = MB(mb.qlen); sub.pos = mb.pos + 10
        put_name(rng, sub, tk)
        rdlen = sub.pos - (mb.pos + 10)
        hdr(t, 1, rdlen)
        for p in sub.parts:
            if isinstance(p, str): mb.tok(p)
            else: mb.raw(p)
    elif kind in ("cname-badlen", "ptr-badlen"):
        t = T_CNAME if kind == "cname-badlen" else T_PTR
        nm = W.encode_name([rand_label(rng), b"bl", b"test"])
        hdr(t, 1, len(nm) + rng.choice([-2, -1, 1, 2, 5]))
        mb.raw(nm)
    elif kind == "soa":
        # RFC 1035 8: the mailbox local part is ONE label and may contain '.', e.g. Action\.domains -> 0e "Action.domains";
        # such a name is only skipped by a resolver, so it must not make the reply unusable
        nm = b"\x02ns\xc0\x0c" + (b"\x08john.doe\xc0\x0c" if rng.random() < 0.3 else b"\x04root\xc0\x0c")
        hdr(6, 1, len(nm) + 20); mb.raw(nm)
        for _ in range(4): mb.u32(rng.randrange(100000))
        mb.u32(rng.choice(TTLS))
    elif kind == "txt":
        l = rng.randint(0, 40)
        hdr(16, 1, l + 1); mb.raw(bytes([l]) + bytes(rng.randrange(32, 127) for _ in range(l)))
    elif kind == "mx":
        hdr(15, 1, 4); mb.raw(b"\x00\x0a\xc0\x0c")
    elif kind == "opt":
        hdr(41, 4096, 0)
    elif kind == "unknown":
        l = rng.randint(0, 30)
        hdr(rng.choice([0, 99, 255, 65280, 65535]), rng.choice([1, 255]), l); mb.raw(bytes(rng.randrange(256) for _ in range(l)))
    elif kind == "overrun":
        hdr(qtype, 1, rng.choice([100, 1000, 65535])); mb.raw(bytes(rng.randrange(256) for _ in range(rng.randint(0, 8))))
    else:
        raise ValueError(kind)
    return kind


def gen_reply(rng, qtype, qname_wire_len, tcp=False, force_good=False):
    """Returns (template, tags).  tags: set of intent labels (for statistics only; the oracle judges
    the bytes actually sent)."""
    tags = set()
    mb = MB(qname_wire_len)
    if tcp:
        mb.tok("L")
        base = 2
    else:
        base = 0
    mb.pos = 0   # offsets inside the DNS message (the length prefix is not part of it)
    good = force_good or rng.random() < 0.45
    hostile = 0.0 if good else rng.choice([0.1, 0.3, 0.6])
    # --- id
    r = rng.random()
    if good or r < 0.85:
        mb.tok("I")
    elif r < 0.95:
        mb.tok("J"); tags.add("wrong-id")
    else:
        mb.raw(struct.pack(">H", rng.randrange(65536))); tags.add("random-id")
    # --- flags
    flags = 0x8000
    if not good:
        if rng.random() < 0.07: flags &= ~0x8000; tags.add("qr0")
        if rng.random() < 0.07: flags |= rng.randrange(1, 16) << 11; tags.add("opcode")
        if rng.random() < 0.08: flags |= 0x0200; tags.add("tc")
        r = rng.random()
        if r < 0.10: flags |= 3; tags.add("nxdomain")
        elif r < 0.22: flags |= rng.choice([1, 2, 4, 5, 6, 9, 15]); tags.add("rcode")
        if rng.random() < 0.05: flags |= rng.choice([0x40, 0x20, 0x10])
    flags |= rng.choice([0, 0x0400]) | rng.choice([0, 0x0100]) | rng.choice([0, 0x0080])
    mb.u16(flags)
    # --- counts are patched after the body is known
    cnt_part = len(mb.parts)
    mb.raw(b"\0" * 8)
    # --- question
    qd = 1
    r = rng.random()
    qclass, qt = 1, qtype
    if good or r < 0.72:
        mb.tok("Q"); mb.u16(qt); mb.u16(qclass)
    elif r < 0.78:
        mb.tok("X"); mb.u16(qt); mb.u16(qclass); tags.add("q-case")
    elif r < 0.84:
        put_name(rng, mb, "literal"); mb.u16(qt); mb.u16(qclass); tags.add("q-other-name")
    elif r < 0.89:
        qd = 0; tags.add("q-missing")
    elif r < 0.93:
        if rng.random() < 0.5:
            put_name(rng, mb, "literal"); mb.u16(qt); mb.u16(1); mb.tok("Q"); mb.u16(qt); mb.u16(1)
        else:
            mb.tok("Q"); mb.u16(qt); mb.u16(1); put_name(rng, mb, "literal"); mb.u16(qt); mb.u16(1)
        qd = 2; tags.add("q-multi")
    elif r < 0.965:
        mb.tok("Q"); mb.u16(rng.choice([t for t in (1, 28, 12, 5, 255) if t != qtype])); mb.u16(1); tags.add("q-type")
    else:
        mb.tok("Q"); mb.u16(qt); mb.u16(rng.choice([3, 255, 0])); tags.add("q-class")
    # --- answers
    match = "ptr" if qtype == T_PTR else "addr"
    if good:
        kinds = []
        ncn = rng.choice([0, 0, 0, 1, 1, 2, 3])
        kinds += ["cname"] * ncn
        kinds += [match] * rng.choice([1, 1, 2, 3, 5, 8])
        if rng.random() < 0.3: kinds.insert(rng.randrange(len(kinds) + 1), rng.choice(["txt", "addr-otherfam", "addr-ch", "unknown", "mx"]))
        if rng.random() < 0.15: kinds = [k for k in kinds if k != match]      # NODATA / CNAME only
        if rng.random() < 0.2: rng.shuffle(kinds)
    else:
        pool = [match] * 6 + ["cname"] * 3 + ["addr-multi", "addr-badlen", "addr-zero", "addr-otherfam", "addr-ch", "cname-badlen",
                                             "ptr-badlen", "ptr", "txt", "mx", "opt", "unknown", "overrun", "soa", "ns"]
        kinds = [rng.choice(pool) for _ in range(rng.choice([0, 1, 1, 2, 3, 4, 6, 12]))]
    if rng.random() < 0.03:
        kinds += [match] * rng.choice([40, 70, 120])     # large reply (beyond 512 bytes)
        tags.add("large")
    small = rng.random() < 0.05
    if small:
        kinds = ["ptr-fill"] if qtype == T_PTR else ["cname-fill", match]
        tags.add("boundary-name")
    for k in kinds:
        put_rr(rng, mb, qtype, k, hostile)
    an = len(kinds)
    if not good:
        r = rng.random()
        if r < 0.06: an += 1; tags.add("ancount+")
        elif r < 0.12 and an: an -= 1; tags.add("ancount-")
        elif r < 0.14: an = 65535; tags.add("ancount-max")
        elif r < 0.16: an = 0; tags.add("ancount-0")
    # --- authority / additional
    ns = 0
    if not small and rng.random() < (0.25 if kinds else 0.7):
        for _ in range(rng.choice([1, 1, 2])):
            put_rr(rng, mb, qtype, rng.choice(["soa", "soa", "ns", "addr"]), hostile); ns += 1
    ar = 0
    if not small and rng.random() < 0.3:
        for _ in range(rng.choice([1, 2])):
            put_rr(rng, mb, qtype, rng.choice(["opt", match, "addr", "txt"]), hostile); ar += 1
    if not good and rng.random() < 0.1:
        ns = rng.choice([ns + 1, 65535, 0]); tags.add("nscount-lie")
    mb.parts[cnt_part] = struct.pack(">HHHH", qd, an, ns, ar)
    mb.finish_pool(rng)
    if not good:
        r = rng.random()
        if r < 0.10 and mb.pos > 2:
            mb.truncate(rng.randrange(0, mb.pos)); tags.add("truncated")
        elif r < 0.22:
            mb.mutate(rng, rng.choice([1, 1, 2, 3])); tags.add("mutated")
    else:
        tags.add("good")
        if rng.random() < 0.12:
            mb.mutate(rng, rng.choice([1, 1, 2])); tags.add("mutated"); tags.discard("good")
    return mb.template(), tags


def good_reply(rng, qtype, qlen, tcp=False):
    mb = MB(qlen)
    if tcp: mb.tok("L")
    mb.pos = 0
    mb.tok("I"); mb.u16(0x8180); mb.raw(struct.pack(">HHHH", 1, 2, 0, 0)); mb.tok("Q"); mb.u16(qtype); mb.u16(1)
    for _ in range(2):
        put_name(rng, mb, "ptr-q")
        if qtype == T_PTR:
            nm = W.encode_name([rand_label(rng), b"final", b"test"])
            mb.u16(T_PTR); mb.u16(1); mb.u32(rng.choice([7, 77])); mb.u16(len(nm)); mb.raw(nm)
        else:
            size = 4 if qtype == T_A else 16
            mb.u16(qtype); mb.u16(1); mb.u32(rng.choice([7, 77])); mb.u16(size); mb.raw(bytes(rng.randrange(1, 255) for _ in range(size)))
    return mb.template()


def simple_reply(qtype, rcode=0, tc=0, answers=1, rng=None, tcp=False, ttl=60):
    """A plain well-formed response template (used by the C34/C36 fake servers)."""
    rng = rng or random
    s = "L" if tcp else ""
    an = answers if rcode == 0 and not tc else 0
    s += "I" + struct.pack(">H", 0x8180 | rcode | (0x0200 if tc else 0)).hex() + struct.pack(">HHHH", 1, an, 0, 0).hex() + "Y"
    for _ in range(an):
        if qtype == T_PTR:
            nm = W.encode_name([b"host", b"test"])
            s += "c00c" + struct.pack(">HHIH", T_PTR, 1, ttl, len(nm)).hex() + nm.hex()
        else:
            size = 4 if qtype == T_A else 16
            s += "c00c" + struct.pack(">HHIH", qtype, 1, ttl, size).hex() + bytes(rng.randrange(1, 255) for _ in range(size)).hex()
    return s


def echo_reply(rcode=0, tc=0, tcp=False, addrs=1, ttl=60, rng=None):
    """Response usable for any question type: echoes the question verbatim (Y) and, for rcode 0,
    appends both an A and an AAAA and a PTR record set owned by the question name (the resolver must
    pick only the type it asked for)."""
    rng = rng or random
    s = "L" if tcp else ""
    recs = ""
    n = 0
    if rcode == 0 and not tc and addrs:
        for _ in range(addrs):
            recs += "c00c" + struct.pack(">HHIH", 1, 1, ttl, 4).hex() + bytes(rng.randrange(1, 255) for _ in range(4)).hex(); n += 1
            recs += "c00c" + struct.pack(">HHIH", 28, 1, ttl, 16).hex() + bytes(rng.randrange(1, 255) for _ in range(16)).hex(); n += 1
        nm = W.encode_name([b"host", b"test"])
        recs += "c00c" + struct.pack(">HHIH", 12, 1, ttl, len(nm)).hex() + nm.hex(); n += 1
    s += "I" + struct.pack(">H", 0x8180 | rcode | (0x0200 if tc else 0)).hex() + struct.pack(">HHHH", 1, n, 0, 0).hex() + "Y" + recs
    return s


# ------------------------------------------------------------------ trace parsing
class Case:
    __slots__ = ("idx", "events", "ended", "leak")

    def __init__(self, idx):
        self.idx, self.events, self.ended, self.leak = idx, [], False, None


def parse_trace(path):
    """-> (cases: dict idx->Case in order, done: bool).  events are token lists."""
    cases = {}
    cur = None
    done = False
    with open(path, "r", errors="replace") as f:
        for ln in f:
            ln = ln.rstrip("\n")
            if not ln:
                continue
            t = ln.split(" ")
            k = t[0]
            if k == "CASE":
                cur = Case(int(t[1])); cases[cur.idx] = cur
            elif k == "DONE":
                done = True
            elif k in ("STAT", "SAMPLE", "VIOL"):
                continue
            elif cur is not None:
                if k == "END":
                    cur.ended = True
                elif k == "LEAK":
                    cur.leak = int(t[1])
                cur.events.append(t)
    return cases, done


def run_scripts(res, prop, scripts, ncases, timeout=1500):
    """Run h_dns over script files (list of paths; ncases[i] cases each) with crash-resume: when a
    process dies in case k (sanitizer report, assertion), the rest of the file is run by a new process
    starting at k+1.  Returns per script the list of trace paths."""
    pending = [(i, 0, 0) for i in range(len(scripts))]     # (script index, first case, attempt)
    traces = [[] for _ in scripts]
    rounds = 0
    hangs = {}
    while pending and rounds < 400:
        rounds += 1
        jobs = [dict(args=["--arg", scripts[i], "--cases", ncases[i] + 1, "--first", first], tag="%s-s%d-r%d" % (prop, i, att),
                     replay=dict(script=scripts[i], first=first), _i=i, _first=first, _att=att) for i, first, att in pending]
        nviol0 = len(res.viol)
        outs = vlib.run_jobs(res, "asan", "h_dns", jobs, timeout=timeout)
        # A use-after-free key made of the faulting frames alone is too coarse for a known-findings entry (different
        # objects freed by different paths fault in the same callback): append who freed the block.
        freed = {}
        for o in outs:
            sfx = _freed_by(o["err"])
            if sfx:
                freed[(o["job"]["replay"]["script"], o["job"]["replay"]["first"])] = sfx
        for v in res.viol[nviol0:]:
            pl = (v.get("replay") or {}).get("payload") or {}
            sfx = freed.get((pl.get("script"), pl.get("first")))
            if sfx and v["key"].startswith("asan:heap-use-after-free") and "|freed:" not in v["key"]:
                v["key"] += "|freed:" + sfx
        pending = []
        for o in outs:
            j = o["job"]
            i = j["_i"]
            traces[i].append(o["out"])
            cases, done = parse_trace(o["out"])
            try:
                et = open(o["err"], "r", errors="replace").read()
            except OSError:
                et = ""
            if "h_dns: " in et:      # the harness itself gave up (bad script, no port ...): never a verdict
                res.inconclusive.append("harness error: %s" % et[et.index("h_dns: "):][:300])
            if done or o["rc"] == "timeout":
                continue
            # died: find the case it was in
            unfinished = [c.idx for c in cases.values() if not c.ended]
            last = unfinished[0] if unfinished else (max(cases) if cases else j["_first"])
            res.add_stat("harness_restarts", 1)
            hung = "hang:cpu-watchdog" in et or any(k.startswith("hang:") for k in o.get("keys", []))
            if hung:
                hangs[i] = hangs.get(i, 0) + 1
            # a shard that keeps dying is already a verdict; do not burn hours on it (2 hangs or 150 deaths per shard)
            if last + 1 < ncases[i] and j["_att"] < 150 and hangs.get(i, 0) < 2:
                pending.append((i, last + 1, j["_att"] + 1))
            elif last + 1 < ncases[i]:
                res.add_stat("shards_abandoned", 1)
    return traces


def _freed_by(errpath):
    """first two repo frames (allocator shims skipped) of the 'freed by thread' stack of an ASan report"""
    try:
        lines = open(errpath, "r", errors="replace").read().splitlines()
    except OSError:
        return None
    for i, ln in enumerate(lines):
        if ln.startswith("freed by thread"):
            out = []
            for l2 in lines[i + 1:i + 30]:
                m = re.match(r"^\s*#\d+\s+0x[0-9a-f]+\s+in\s+(\S+)\s+(\S+)", l2)
                if not m:
                    if not l2.strip():
                        break
                    continue
                fn, loc = m.group(1), m.group(2)
                if ("/repo" in loc or loc.startswith(vlib.REPO)) and fn not in ("event_mm_free_", "event_mm_realloc_"):
                    out.append(fn)
                    if len(out) == 2:
                        break
            return ",".join(out) or None
    return None


def case_texts(script):
    """dict idx -> list of script lines of that case"""
    out, cur = {}, None
    with open(script) as f:
        for ln in f:
            ln = ln.rstrip("\n")
            if ln.startswith("CASE "):
                cur = int(ln[5:]); out[cur] = [ln]
            elif cur is not None:
                out[cur].append(ln)
    return out


def attach_case_text(res, texts_by_script):
    """make sanitizer-report violations self-contained: embed the failing case's script lines"""
    for v in res.viol:
        r = v.get("replay") or {}
        p = r.get("payload")
        if isinstance(p, dict) and "script" in p and "lines" not in p:
            t = texts_by_script.get(p["script"], {})
            k = r.get("only", -1)
            if k in t:
                p["lines"] = t[k]


def replay_lines(prop, lines, verbose=True):
    """re-run one case given its script lines; returns (trace Case or None, stderr text)"""
    import subprocess
    exe = vlib.build("asan", ["h_dns"])[0]
    d = vlib.workdir(prop)
    sp = os.path.join(d, "replay-%d.script" % os.getpid())
    with open(sp, "w") as f:
        f.write("\n".join(lines) + "\n")
    idx = int(lines[0].split()[1])
    p = subprocess.run([exe, "--arg", sp, "--only", str(idx)], env=vlib.sanitizer_env("asan"), cwd=d,
                       stdout=subprocess.PIPE, stderr=subprocess.PIPE, text=True, errors="replace")
    tp = os.path.join(d, "replay-%d.out" % os.getpid())
    open(tp, "w").write(p.stdout)
    if verbose:
        sys.stdout.write(p.stdout[-6000:])
        sys.stderr.write(p.stderr[-6000:])
    cases, done = parse_trace(tp)
    return cases.get(idx), p.stderr


def h64(b):
    return int.from_bytes(hashlib.blake2b(b, digest_size=8).digest(), "little")
