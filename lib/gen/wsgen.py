"""Workload generators for the WebSocket checks (C31 frame streams and their
segmentations, C32 handshake keys and server-send scripts) and the script
writer / trace parser for harness/h_ws.c."""
import hashlib, random, struct
from ref import ws6455 as W

LIMIT = W.SIZE_LIMIT
BIGPIECE = 2048          # payloads above this are written to the script as a repeated pattern


# ------------------------------------------------------------------ payloads
class Payload:
    """bytes that are either literal or a repeated pattern (so that MiB-sized
    payloads stay small in the script file)"""
    __slots__ = ("data", "pattern")

    def __init__(self, data, pattern=None):
        self.data = data
        self.pattern = pattern

    def spec(self):
        if self.pattern is not None and len(self.data) > BIGPIECE:
            return "R %d %s" % (len(self.data), self.pattern.hex())
        return "X " + self.data.hex()


def rep(pattern, n):
    return (pattern * (n // len(pattern) + 1))[:n] if n else b""


_UCHARS = ["é", "ß", "€", "中", "\U0001f600", "Ж"]


def gen_text(rng, n, nul_ok=True):
    """valid UTF-8 of exactly n bytes"""
    if n > BIGPIECE:
        pat = bytes(rng.randrange(0x20, 0x7f) for _ in range(64))
        return Payload(rep(pat, n), pat)
    out = bytearray()
    while len(out) < n:
        left = n - len(out)
        if rng.random() < 0.25:
            c = rng.choice(_UCHARS).encode()
            if len(c) <= left:
                out += c
                continue
        lo = 0 if (nul_ok and rng.random() < 0.02) else 1
        out.append(rng.randrange(lo, 0x80) if rng.random() < 0.1 else rng.randrange(0x20, 0x7f))
    return Payload(bytes(out))


def rand_bytes(rng, n, nul_ok=True):
    b = rng.randbytes(n)
    if not nul_ok and b"\0" in b:
        b = b.replace(b"\0", bytes([rng.randrange(1, 256)]))
    return b


def gen_binary(rng, n, nul_ok=True):
    if n > BIGPIECE:
        pat = rand_bytes(rng, rng.choice((4, 64, 256, 4096)), nul_ok)
        return Payload(rep(pat, n), pat)
    r = rng.random()
    if r < 0.1:
        return Payload(bytes([rng.randrange(0 if nul_ok else 1, 256)]) * n)
    return Payload(rand_bytes(rng, n, nul_ok))


def pick_len(rng, tier, small=False):
    r = rng.random()
    if small:
        return rng.choice((0, 1, 2, 5, 125)) if r < 0.3 else rng.randrange(0, 126)
    if r < 0.40:
        return rng.randrange(0, 17)
    if r < 0.55:
        return rng.randrange(17, 126)
    if r < 0.66:
        return rng.choice((124, 125, 126, 127, 128))
    if r < 0.82:
        return rng.randrange(128, 2001)
    if r < 0.87:
        return rng.choice((65534, 65535, 65536, 65537))
    if r < 0.93:
        return rng.randrange(2001, 70001)
    if tier == "thorough":
        if r < 0.934:
            return rng.choice(((1 << 20) - 1, 1 << 20, (1 << 20) + 1, rng.randrange(70001, 2 << 20)))
    return rng.randrange(0, 300)


# ------------------------------------------------------------------ C31 streams
class FrameSpec:
    __slots__ = ("opcode", "fin", "rsv", "mask", "lenform", "payload", "hdr", "wire_payload", "declared")

    def desc(self):
        return "%s%x%s len=%d/%d%s%s" % ("" if self.fin else "~", self.opcode, "m" if self.mask is not None else "u",
                                           self.declared, self.lenform, " rsv=%d" % self.rsv if self.rsv else "",
                                           "" if self.payload is not None else " HDRONLY")


def mk_frame(rng, opcode, payload, fin=True, masked=None, lenform=None, rsv=0, nonminimal_ok=True):
    """payload: Payload.  masked None -> 85% masked.  lenform None -> minimal, sometimes non-minimal"""
    f = FrameSpec()
    n = len(payload.data)
    if masked is None:
        masked = rng.random() < 0.85
    mask = None
    if masked:
        mask = rng.choice((b"\0\0\0\0", b"\xff\xff\xff\xff")) if rng.random() < 0.05 else rng.randbytes(4)
    if lenform is None:
        lenform = W.minimal_lenform(n)
        if nonminimal_ok and rng.random() < 0.12:
            lenform = rng.choice([lf for lf in (16, 64) if lf >= lenform])
    f.opcode, f.fin, f.rsv, f.mask, f.lenform, f.payload, f.declared = opcode, fin, rsv, mask, lenform, payload, n
    f.hdr = W.encode_header(opcode, n, fin, mask, lenform, rsv)
    if mask is None:
        f.wire_payload = payload
    else:
        pat = None
        if payload.pattern is not None and len(payload.pattern) % 4 == 0:
            pat = W.xor_mask(payload.pattern, mask)
        f.wire_payload = Payload(W.xor_mask(payload.data, mask), pat)
    return f


def mk_header_only(rng, opcode, declared, masked=True, fin=True):
    """a frame header that declares `declared` bytes (above the limit); no payload follows"""
    f = FrameSpec()
    mask = rng.randbytes(4) if masked else None
    f.opcode, f.fin, f.rsv, f.mask, f.lenform, f.payload, f.declared = opcode, fin, 0, mask, 64, None, declared
    f.hdr = W.encode_header(opcode, declared, fin, mask, 64, 0)
    f.wire_payload = Payload(b"")
    return f


class Stream:
    def __init__(self):
        self.frames = []      # FrameSpec
        self.tail = b""       # bytes after the last complete frame (incomplete frame / garbage)
        self.cls = ""
        self.echo = 0
        self.closeat = None   # (k, code)
        self.tags = set()

    def add(self, f):
        self.frames.append(f)

    def finish(self):
        parts, bounds, hdr_ranges = [], [], []
        pos = 0
        for f in self.frames:
            parts.append(f.hdr)
            parts.append(f.wire_payload.data)
            hdr_ranges.append((pos, pos + len(f.hdr)))
            if f.payload is None and f.mask is not None:
                # a header declaring more than the size limit closes the connection as soon as its
                # length field is complete: the mask key that follows is already "after the close",
                # so the frame-boundary segmentation sends it as a segment of its own
                bounds.append(pos + len(f.hdr) - 4)
            pos += len(f.hdr) + len(f.wire_payload.data)
            bounds.append(pos)
        parts.append(self.tail)
        self.wire = b"".join(parts)
        self.bounds = bounds
        self.hdr_ranges = hdr_ranges
        return self

    def script_pieces(self):
        out = []
        lit = bytearray()
        for f in self.frames:
            lit += f.hdr
            wp = f.wire_payload
            if wp.pattern is not None and len(wp.data) > BIGPIECE:
                out.append("S X " + bytes(lit).hex())
                lit = bytearray()
                out.append("S " + wp.spec())
            else:
                lit += wp.data
                if len(lit) > 1 << 16:
                    out.append("S X " + bytes(lit).hex())
                    lit = bytearray()
        lit += self.tail
        if lit:
            out.append("S X " + bytes(lit).hex())
        return out

    def desc(self):
        d = " ".join(f.desc() for f in self.frames[:12])
        if len(self.frames) > 12:
            d += " ...(%d frames)" % len(self.frames)
        if self.tail:
            d += " +tail%d" % len(self.tail)
        return d


def _data_frame(rng, tier, small=False, fin=True, opcode=None, valid_text=True):
    op = opcode if opcode is not None else rng.choice((W.TEXT, W.BINARY))
    n = pick_len(rng, tier, small)
    if op == W.TEXT and valid_text and fin:
        pl = gen_text(rng, n)
    else:
        pl = gen_binary(rng, n)
    return mk_frame(rng, op, pl, fin=fin)


def _ctl_frame(rng, op=None):
    op = op if op is not None else rng.choice((W.PING, W.PONG))
    return mk_frame(rng, op, gen_binary(rng, rng.choice((0, 0, 1, 4, 125, rng.randrange(0, 126)))))


def _close_frame(rng):
    r = rng.random()
    if r < 0.3:
        pl = b""
    elif r < 0.7:
        pl = struct.pack(">H", rng.choice((1000, 1001, 1002, 1009, 1011, 3000, 4999)))
    else:
        pl = struct.pack(">H", 1000) + bytes(rng.randrange(0x20, 0x7f) for _ in range(rng.randrange(1, 124)))
    return mk_frame(rng, W.CLOSE, Payload(pl))


def _fragmented(rng, tier, s, interleave=True):
    """RFC 6455 5.4 fragmented message: first frame opcode 1/2 FIN=0, then continuation frames"""
    op = rng.choice((W.TEXT, W.BINARY))
    nfrag = rng.choice((2, 2, 3, 4, 6))
    total = pick_len(rng, tier) if rng.random() < 0.5 else pick_len(rng, tier, small=True)
    whole = gen_text(rng, total) if op == W.TEXT else gen_binary(rng, total)
    cuts = sorted(rng.randrange(0, total + 1) for _ in range(nfrag - 1))
    cuts = [0] + cuts + [total]
    for i in range(nfrag):
        seg = whole.data[cuts[i]:cuts[i + 1]]
        pat = whole.pattern if (whole.pattern is not None and cuts[i] % len(whole.pattern) == 0) else None
        s.add(mk_frame(rng, op if i == 0 else W.CONT, Payload(seg, pat), fin=(i == nfrag - 1)))
        if interleave and i < nfrag - 1 and rng.random() < 0.3:
            s.add(_ctl_frame(rng))
            s.tags.add("ctl_interleaved")
    s.tags.add("fragmented")


def _clean_body(rng, tier, s, nmin=1, nmax=8, small=False):
    for _ in range(rng.randrange(nmin, nmax + 1)):
        if rng.random() < 0.22:
            s.add(_ctl_frame(rng))
        else:
            s.add(_data_frame(rng, tier, small=small))


def _trailing(rng, tier, s, small=True):
    """frames after a close / protocol error: must never be delivered"""
    r = rng.random()
    if r < 0.75:
        for _ in range(rng.randrange(1, 4)):
            s.add(_data_frame(rng, tier, small=small))
    elif r < 0.9:
        s.tail = rng.randbytes(rng.randrange(1, 40))
    else:
        s.add(_data_frame(rng, tier, small=small))
        s.add(_close_frame(rng))
    s.tags.add("bytes_after_close")


def _incomplete_tail(rng, tier):
    f = _data_frame(rng, tier, small=rng.random() < 0.7)
    w = f.hdr + f.wire_payload.data
    return w[:rng.randrange(1, len(w))] if len(w) > 1 else w[:1]


STREAM_CLASSES = (("clean", 40), ("afterclose", 13), ("fragmented", 15), ("malformed", 10), ("error", 13),
                  ("either", 6), ("appclose", 3))


def gen_stream(rng, tier):
    s = Stream()
    r = rng.random() * sum(w for _, w in STREAM_CLASSES)
    for cls, w in STREAM_CLASSES:
        if r < w:
            break
        r -= w
    s.cls = cls
    small = rng.random() < 0.5
    if cls == "clean":
        _clean_body(rng, tier, s, 1, 8, small)
        r = rng.random()
        if r < 0.45:
            s.add(_close_frame(rng))
        elif r < 0.6:
            s.tail = _incomplete_tail(rng, tier)
            s.tags.add("incomplete_tail")
    elif cls == "afterclose":
        _clean_body(rng, tier, s, 0, 4, small)
        s.add(_close_frame(rng))
        _trailing(rng, tier, s)
    elif cls == "fragmented":
        _clean_body(rng, tier, s, 0, 3, small)
        for _ in range(rng.choice((1, 1, 2))):
            _fragmented(rng, tier, s)
            if rng.random() < 0.6:
                _clean_body(rng, tier, s, 1, 2, True)
        if rng.random() < 0.4:
            s.add(_close_frame(rng))
    elif cls == "malformed":
        _clean_body(rng, tier, s, 0, 3, True)
        k = rng.randrange(4)
        if k == 0:      # continuation with nothing to continue
            s.add(mk_frame(rng, W.CONT, gen_binary(rng, pick_len(rng, tier, True)), fin=rng.random() < 0.5))
        elif k == 1:    # new data frame inside a fragmented message
            s.add(_data_frame(rng, tier, True, fin=False))
            if rng.random() < 0.3:
                s.add(_ctl_frame(rng))
            s.add(_data_frame(rng, tier, True, fin=rng.random() < 0.7))
        elif k == 2:    # fragmented message, then a second start before the end
            s.add(_data_frame(rng, tier, True, fin=False))
            s.add(mk_frame(rng, W.CONT, gen_binary(rng, 3), fin=False))
            s.add(_data_frame(rng, tier, True, fin=False))
            s.add(mk_frame(rng, W.CONT, gen_binary(rng, 2), fin=True))
        else:           # message completed, then a stray continuation
            _fragmented(rng, tier, s, interleave=False)
            s.add(mk_frame(rng, W.CONT, gen_binary(rng, 4), fin=True))
        s.tags.add("malformed_fragmentation")
        _trailing(rng, tier, s)
    elif cls == "error":
        _clean_body(rng, tier, s, 0, 4, small)
        if rng.random() < 0.5:
            op = rng.choice((3, 4, 5, 6, 7, 0xB, 0xC, 0xD, 0xE, 0xF))
            s.add(mk_frame(rng, op, gen_binary(rng, pick_len(rng, tier, True)), fin=rng.random() < 0.8))
            s.tags.add("reserved_opcode")
        else:
            big = rng.choice((LIMIT + 1, LIMIT + 2, 1 << 24, 1 << 31, 1 << 32, (1 << 32) + 5, 1 << 62, 1 << 63,
                              (1 << 64) - 1, rng.randrange(LIMIT + 1, 1 << 64)))
            s.add(mk_header_only(rng, rng.choice((1, 2, 2, 0, 9)), big, masked=rng.random() < 0.8))
            s.tags.add("too_big")
        _trailing(rng, tier, s)
    elif cls == "either":
        _clean_body(rng, tier, s, 0, 3, True)
        k = rng.randrange(4)
        if k == 0:
            f = _data_frame(rng, tier, True)
            s.add(mk_frame(rng, f.opcode, f.payload, rsv=rng.randrange(1, 8)))
        elif k == 1:
            s.add(mk_frame(rng, rng.choice((W.PING, W.PONG, W.CLOSE)), gen_binary(rng, rng.randrange(0, 20)), fin=False))
        elif k == 2:
            s.add(mk_frame(rng, rng.choice((W.PING, W.PONG, W.CLOSE)), gen_binary(rng, rng.choice((126, 127, 300, 70000)))))
        else:
            bad = rng.choice((b"\xff", b"\xc3", b"\xe2\x82", b"\xc0\x80", b"\xed\xa0\x80", b"ab\x80cd"))
            s.add(mk_frame(rng, W.TEXT, Payload(bad + bytes(rng.randrange(0x20, 0x7f) for _ in range(rng.randrange(0, 5))))))
        s.tags.add("either_rule")
        _clean_body(rng, tier, s, 1, 3, True)
        if rng.random() < 0.5:
            s.add(_close_frame(rng))
    else:  # appclose: the application closes from inside the message callback
        s.cls = "appclose"
        for _ in range(rng.randrange(2, 7)):
            s.add(_data_frame(rng, tier, True) if rng.random() < 0.85 else _ctl_frame(rng))
        nd = sum(1 for f in s.frames if f.opcode in (1, 2))
        if nd >= 1:
            s.closeat = (rng.randrange(1, nd + 1), rng.choice((1000, 1001, 1008, 1011, 4000)))
    if cls in ("clean",) and rng.random() < 0.25 and sum(len(f.hdr) + f.declared for f in s.frames) < 3000 \
            and all(f.declared <= 1024 for f in s.frames):
        s.echo = 1            # small enough for the echoed bytes to be traced literally
    return s.finish()


SEG_KINDS = {"quick": ("one", "byte", "frame", "rand"), "thorough": ("one", "byte", "frame", "rand", "hdrsplit", "rand2")}
BYTEWISE_MAX = 1500


def segmentation(rng, s, kind):
    """-> list of segment lengths covering len(s.wire)"""
    L = len(s.wire)
    if L == 0:
        return []
    cuts = set()
    if kind == "one":
        pass
    elif kind == "byte":
        if L <= BYTEWISE_MAX:
            cuts = set(range(1, L))
        else:
            # CALIBRATED(cost): very long streams are cut bytewise through every frame
            # header and into random chunks elsewhere
            for a, b in s.hdr_ranges:
                cuts.update(range(a, min(b + 2, L) + 1))
            p = 0
            while p < L:
                p += rng.randrange(1, 8192)
                cuts.add(p)
    elif kind == "frame":
        cuts = set(s.bounds)
    elif kind in ("rand", "rand2"):
        k = rng.randrange(1, min(L, 12) + 1)
        cuts = set(rng.randrange(1, L + 1) for _ in range(k))
        if rng.random() < 0.3:       # also cut near frame boundaries
            for b in s.bounds:
                if rng.random() < 0.5:
                    cuts.add(b + rng.choice((-1, 1, 2)))
    elif kind == "hdrsplit":
        for a, b in s.hdr_ranges:
            cuts.add(rng.randrange(a + 1, b + 1))
            if rng.random() < 0.5:
                cuts.add(rng.randrange(a + 1, b + 1))
    cuts = sorted(c for c in cuts if 0 < c < L)
    pts = [0] + cuts + [L]
    return [pts[i + 1] - pts[i] for i in range(len(pts) - 1)]


# ------------------------------------------------------------------ handshake requests
def std_key(rng):
    import base64
    return base64.b64encode(bytes(rng.randrange(256) for _ in range(16)))


def upgrade_request(key, rng=None, plain=False):
    """HTTP/1.1 upgrade request carrying `key` (bytes) as the Sec-WebSocket-Key value"""
    if plain or rng is None:
        return (b"GET /ws HTTP/1.1\r\nHost: 127.0.0.1\r\nUpgrade: websocket\r\nConnection: Upgrade\r\n"
                b"Sec-WebSocket-Key: " + key + b"\r\nSec-WebSocket-Version: 13\r\n\r\n")
    kname = rng.choice((b"Sec-WebSocket-Key", b"sec-websocket-key", b"SEC-WEBSOCKET-KEY", b"Sec-Websocket-Key"))
    lead = b" " * rng.choice((1, 1, 1, 0, 2, 3))
    trail = rng.choice((b"", b"", b"", b" ", b"\t", b" \t "))
    hdrs = [b"Host: 127.0.0.1:80",
            rng.choice((b"Upgrade: websocket", b"Upgrade: WebSocket", b"upgrade: websocket")),
            rng.choice((b"Connection: Upgrade", b"Connection: keep-alive, Upgrade", b"connection: upgrade")),
            kname + b":" + lead + key + trail,
            b"Sec-WebSocket-Version: 13"]
    if rng.random() < 0.3:
        hdrs.append(b"Origin: http://example.com")
    if rng.random() < 0.2:
        hdrs.append(b"Sec-WebSocket-Protocol: chat")
    first = hdrs[0]
    rest = hdrs[1:]
    rng.shuffle(rest)
    return b"GET " + rng.choice((b"/ws", b"/", b"/chat?x=1")) + b" HTTP/1.1\r\n" + b"\r\n".join([first] + rest) + b"\r\n\r\n"


_KEY_TABLES = (
    bytes(0x20 + i % 95 for i in range(256)),                                                   # printable ASCII
    bytes((0x80 + i % 128) if i < 77 else 0x09 if i < 85 else 0x20 + i % 95 for i in range(256)),  # + obs-text, HTAB
    bytes(i if i not in (0, 10, 13) else 0x41 for i in range(256)),                             # anything but NUL CR LF
)


def gen_key(rng, tier, idx):
    """-> (key bytes, class).  Keys never start/end with SP/HTAB and never contain CR, LF or NUL
    (those are not part of a header field value)."""
    r = rng.random()

    def body(n, table):
        if n == 0:
            return b""
        b = bytearray(rng.randbytes(n).translate(table))
        for i in (0, n - 1):
            while b[i] in (0x20, 0x09):
                b[i] = rng.randrange(0x21, 0x7f)
        return bytes(b)

    printable, vchar_obs, anybyte = _KEY_TABLES

    if r < 0.15:
        return std_key(rng), "b64"
    if r < 0.40:
        return body(idx % 140, printable), "len0-139"
    if r < 0.55:
        tot = rng.choice((55, 56, 57, 63, 64, 65, 119, 120, 121, 127, 128, 129, 183, 184, 191, 192, 193, 247, 248, 256, 512, 1000))
        return body(max(0, tot - 36 + rng.choice((0, 0, -1, 1))), printable), "sha1-block-edge"
    if r < 0.70:
        return body(rng.randrange(1, 200), vchar_obs), "obs-text"
    if r < 0.78:
        return body(rng.randrange(1, 80), anybyte), "ctl-bytes"
    if r < 0.90:
        return body(rng.choice((900, 980, 985, 986, 987, 988, 989, 990, 1000, 1023, 1024, 1025, 1100, rng.randrange(200, 1200))), printable), "near-1k"
    big = [2000, 4096, 8192, 16384]
    if tier == "thorough":
        big += [65536, 100000, 1 << 20]
    return body(rng.choice(big) + rng.choice((0, 1, -1, 7)), printable), "long"


# ------------------------------------------------------------------ trace parsing
class CaseTrace:
    def __init__(self, cid):
        self.id = cid
        self.session = None
        self.msgs = []            # (type, len, 'X'|'H', hexdigest-or-hex)
        self.msgs_after_eof = 0
        self.closecb = False      # before EOFMARK
        self.closecb_any = False
        self.peer_closed = False  # before EOFMARK (server initiated)
        self.peer_closed_any = False
        self.peer_reset = False
        self.rx = {}              # label -> (n, 'X'|'H', hex, sha)
        self.stall = None
        self.werr = False
        self.nosession = []
        self.eofmark = False
        self.ended = False
        self.seg_of_msg = []


def parse_trace(path):
    """yield CaseTrace objects in file order"""
    cur = None
    seg = -1
    with open(path, "r", errors="replace") as f:
        for ln in f:
            if ln.startswith("CASE "):
                if cur is not None:
                    yield cur
                cur = CaseTrace(int(ln[5:]))
                seg = -1
                continue
            if cur is None:
                continue
            if ln.startswith("MSG "):
                p = ln.split()
                m = (int(p[1]), int(p[2]), p[3], p[4] if len(p) > 4 else "")
                if cur.eofmark:
                    cur.msgs_after_eof += 1
                cur.msgs.append(m)
                cur.seg_of_msg.append(seg)
            elif ln.startswith("SEG "):
                seg = int(ln.split()[1])
            elif ln.startswith("SESSION "):
                cur.session = int(ln[8:])
            elif ln.startswith("CLOSECB"):
                cur.closecb_any = True
                if not cur.eofmark:
                    cur.closecb = True
            elif ln.startswith("PEERCLOSED") or ln.startswith("PEERRESET"):
                cur.peer_closed_any = True
                if ln.startswith("PEERRESET"):
                    cur.peer_reset = True
                if not cur.eofmark:
                    cur.peer_closed = True
            elif ln.startswith("RX "):
                p = ln.rstrip("\n").split(" ")
                lab, n, kind = p[1], int(p[2]), p[3]
                cur.rx[lab] = (n, kind, p[4] if len(p) > 4 else "", p[5] if len(p) > 5 else "")
            elif ln.startswith("STALL"):
                cur.stall = ln.strip()
            elif ln.startswith("WERR"):
                cur.werr = True
            elif ln.startswith("NOSESSION"):
                cur.nosession.append(ln.strip())
            elif ln.startswith("EOFMARK"):
                cur.eofmark = True
            elif ln.startswith("ENDCASE"):
                cur.ended = True
    if cur is not None:
        yield cur


def msg_repr(mtype, payload):
    """the harness's representation of a delivered message"""
    if len(payload) <= 1024:
        return (mtype, len(payload), "X", payload.hex())
    return (mtype, len(payload), "H", hashlib.sha256(payload).hexdigest())


def rx_matches(rx, expected):
    """rx = CaseTrace.rx entry; expected = bytes"""
    n, kind, a, b = rx
    if n != len(expected):
        return False
    if kind == "X":
        return a == expected.hex()
    return a == expected[:32].hex() and b == hashlib.sha256(expected).hexdigest()
