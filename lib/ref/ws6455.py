"""RFC 6455 reference: handshake accept value, frame encoder, frame splitter and
a server-side message decoder.  Written from the RFC, shares nothing with
/repo/ws.c.

Decoder policy (see DESIGN §2.6: only MUST-level rules that the property C31
states produce a single expected outcome; rules on which the property is silent
are tri-state and enumerated as alternative acceptable outcomes):

  stated by the property (single outcome)
    * masked and unmasked client frames are both decoded
    * 7/16/64-bit length forms, minimal or not, are decoded
    * a data message is (opcode of first frame, concatenation of fragments);
      control frames may be interleaved with the fragments
    * close frame                      -> close, nothing delivered afterwards
    * payload length > SIZE_LIMIT      -> close (decided when the header is complete)
    * reserved opcode 3-7, 0xB-0xF     -> close
    * continuation without a started message, or a new data frame (opcode 1/2)
      while a fragmented message is in progress -> close, partial data dropped
  not stated by the property ("either": the outcome with the rule enforced and
  the outcome with the rule ignored are both acceptable)
    * rsv       RSV1-3 bits set without extension
    * ctlfrag   control frame with FIN=0
    * ctllen    control frame with payload > 125
    * utf8      text message that is not valid UTF-8
"""
import base64, hashlib, itertools, struct

GUID = b"258EAFA5-E914-47DA-95CA-C5AB0DC85B11"
# CALIBRATED: ws.c documents "We limit the size of received WS frames to 10 MiB"
SIZE_LIMIT = 10485760
TEXT, BINARY, CONT, CLOSE, PING, PONG = 1, 2, 0, 8, 9, 10
EITHER_RULES = ("rsv", "ctlfrag", "ctllen", "utf8")


def accept_value(key: bytes) -> bytes:
    return base64.b64encode(hashlib.sha1(key + GUID).digest())


def xor_mask(payload: bytes, mask: bytes) -> bytes:
    n = len(payload)
    if n == 0:
        return b""
    m = (mask * (n // 4 + 1))[:n]
    return (int.from_bytes(payload, "big") ^ int.from_bytes(m, "big")).to_bytes(n, "big")


def encode_header(opcode, n, fin=True, mask=None, lenform=None, rsv=0):
    """lenform None = minimal; 7/16/64 forces that form (must be able to hold n)."""
    b0 = (0x80 if fin else 0) | ((rsv & 7) << 4) | (opcode & 15)
    if lenform is None:
        lenform = 7 if n <= 125 else 16 if n <= 65535 else 64
    mbit = 0x80 if mask is not None else 0
    if lenform == 7:
        assert n <= 125
        h = bytes([b0, mbit | n])
    elif lenform == 16:
        assert n <= 65535
        h = bytes([b0, mbit | 126]) + struct.pack(">H", n)
    else:
        h = bytes([b0, mbit | 127]) + struct.pack(">Q", n)
    if mask is not None:
        h += mask
    return h


def encode_frame(opcode, payload=b"", fin=True, mask=None, lenform=None, rsv=0):
    body = xor_mask(payload, mask) if mask is not None else payload
    return encode_header(opcode, len(payload), fin, mask, lenform, rsv) + body


class Frame:
    __slots__ = ("fin", "rsv", "opcode", "masked", "lenform", "length", "start", "hdr_end", "end", "payload", "complete")

    def __repr__(self):
        return "Frame(op=%x fin=%d rsv=%d m=%d lf=%d len=%d @%d..%d%s)" % (
            self.opcode, self.fin, self.rsv, self.masked, self.lenform, self.length, self.start, self.end,
            "" if self.complete else " INCOMPLETE")


def parse_header(data, pos):
    """-> Frame with header fields (payload not looked at) or None if the header is incomplete"""
    n = len(data)
    if n - pos < 2:
        return None
    f = Frame()
    b0, b1 = data[pos], data[pos + 1]
    f.fin = b0 >> 7
    f.rsv = (b0 >> 4) & 7
    f.opcode = b0 & 15
    f.masked = b1 >> 7
    l7 = b1 & 127
    p = pos + 2
    if l7 <= 125:
        f.lenform, f.length = 7, l7
    elif l7 == 126:
        if n - p < 2:
            return None
        f.lenform, f.length = 16, struct.unpack_from(">H", data, p)[0]
        p += 2
    else:
        if n - p < 8:
            return None
        f.lenform, f.length = 64, struct.unpack_from(">Q", data, p)[0]
        p += 8
    f.start = pos
    f.hdr_end = p          # end of the length field; the mask key (if any) follows
    f.end = None
    f.payload = None
    f.complete = False
    return f


def split_frames(data, pos=0, limit=SIZE_LIMIT):
    """Split a byte string into frames; stops at the first incomplete frame or
    at the first frame whose declared length exceeds `limit` (it is yielded
    with complete=False and end=end of its length field)."""
    out = []
    n = len(data)
    while pos < n:
        f = parse_header(data, pos)
        if f is None:
            break
        if limit is not None and f.length > limit:
            f.end = f.hdr_end
            out.append(f)
            break
        p = f.hdr_end
        if f.masked:
            if n - p < 4:
                break
            mask = bytes(data[p:p + 4])
            p += 4
        if n - p < f.length:
            break
        raw = bytes(data[p:p + f.length])
        f.payload = xor_mask(raw, mask) if f.masked else raw
        f.end = p + f.length
        f.complete = True
        out.append(f)
        pos = f.end
    return out


def _valid_utf8(b):
    try:
        b.decode("utf-8")
        return True
    except UnicodeDecodeError:
        return False


class Outcome:
    """msgs: [(type, payload, nfragments)], closed: reason or None, close_frame: index of the frame that closed"""

    def __init__(self):
        self.msgs = []
        self.closed = None
        self.close_at = None
        self.either_hit = set()

    def key(self):
        return ([(t, p) for t, p, _ in self.msgs], bool(self.closed))


def decode(frames, enforce=()):
    """Reference server-side decoder over the frame list of split_frames().
    `enforce` = subset of EITHER_RULES that are enforced (violations close the
    connection); the others are ignored.  Returns Outcome; Outcome.either_hit
    lists the either-rules this stream touches."""
    o = Outcome()
    cur_type = None
    parts = None

    def close(reason, i):
        o.closed = reason
        o.close_at = i

    for i, f in enumerate(frames):
        if not f.complete:
            # only produced for a declared length above the limit
            close("too-big", i)
            return o
        if f.rsv:
            o.either_hit.add("rsv")
            if "rsv" in enforce:
                close("rsv", i)
                return o
        op = f.opcode
        if (3 <= op <= 7) or op >= 0xB:
            close("reserved-opcode", i)
            return o
        if op >= 8:
            if not f.fin:
                o.either_hit.add("ctlfrag")
                if "ctlfrag" in enforce:
                    close("ctlfrag", i)
                    return o
            if f.length > 125:
                o.either_hit.add("ctllen")
                if "ctllen" in enforce:
                    close("ctllen", i)
                    return o
            if op == CLOSE:
                close("close-frame", i)
                return o
            continue  # ping / pong: no message
        if op == CONT:
            if parts is None:
                close("bad-fragmentation", i)
                return o
            parts.append(f.payload)
            if not f.fin:
                continue
            mtype, payload, nfr = cur_type, b"".join(parts), len(parts)
            cur_type, parts = None, None
        else:
            if parts is not None:
                close("bad-fragmentation", i)
                return o
            if not f.fin:
                cur_type, parts = op, [f.payload]
                continue
            mtype, payload, nfr = op, f.payload, 1
        if mtype == TEXT and not _valid_utf8(payload):
            o.either_hit.add("utf8")
            if "utf8" in enforce:
                close("utf8", i)
                return o
        o.msgs.append((mtype, payload, nfr))
    return o


def acceptable_outcomes(frames):
    """All outcomes the property allows for this frame list (1 unless an
    either-rule is touched)."""
    strictest = decode(frames, EITHER_RULES)
    laxest = decode(frames, ())
    hit = strictest.either_hit | laxest.either_hit
    if not hit:
        return [laxest]
    outs, seen = [], set()
    hit = sorted(hit)
    for r in range(len(hit) + 1):
        for sub in itertools.combinations(hit, r):
            o = decode(frames, sub)
            k = repr(o.key())
            if k not in seen:
                seen.add(k)
                outs.append(o)
    return outs


def decode_nonstandard_fragmentation(frames):
    """DEVIATION MODEL - never used to accept anything.  It describes the
    witness class of the known findings C31:fragmented-message-not-delivered /
    C31:malformed-fragmentation-accepted (a decoder that treats every FIN=0
    data/continuation frame as 'more to come', completes a message on a FIN=1
    text/binary frame using that frame's type, and fails on a FIN=1
    continuation), so that only deviations of exactly this shape are matched to
    those keys and anything else gets a different key."""
    o = Outcome()
    parts = None
    for i, f in enumerate(frames):
        if not f.complete:
            o.closed, o.close_at = "too-big", i
            return o
        op = f.opcode
        if (3 <= op <= 7) or op >= 0xB:
            o.closed, o.close_at = "reserved-opcode", i
            return o
        if op == CLOSE:
            o.closed, o.close_at = "close-frame", i
            return o
        if op >= 8:
            continue
        if not f.fin:
            if parts is None:
                parts = []
            parts.append(f.payload)
            continue
        if op == CONT:
            o.closed, o.close_at = "cont-fin", i
            return o
        if parts is not None:
            o.msgs.append((op, b"".join(parts) + f.payload, len(parts) + 1))
            parts = None
        else:
            o.msgs.append((op, f.payload, 1))
    return o


# ---- server -> client direction (C32) ----
def parse_server_frames(data):
    """Decode bytes written by a server.  -> (frames, rest) where rest are the
    trailing bytes that do not form a complete frame."""
    fr = split_frames(data, 0, limit=None)
    end = fr[-1].end if fr else 0
    return fr, data[end:]


def minimal_lenform(n):
    return 7 if n <= 125 else 16 if n <= 65535 else 64
