"""Strict reference DNS wire codec + oracles for the evdns *server* side (C35, C37).

Independent of /repo: written from RFC 1035 / RFC 6891.  Nothing here imports or
mirrors evdns.c; implementation choices adopted where property and documentation
are silent are marked CALIBRATED.

Vocabulary
  question  = (labels(tuple of bytes), qtype, qclass)
  record    = dict(section=0|1|2, labels, type, cls, ttl, is_name, rdata(bytes) | target(labels))
  case      = dict produced by lib/gen/dnssrvgen.py (act, recs, ops, end)
  trace     = dict produced by parse_trace() from the harness output
"""
import struct

TYPE_OPT = 41
UDP_READ_CAP = 1500      # CALIBRATED: the server reads at most 1500 bytes of a UDP datagram
UDP_SEND_MAX = 65507     # largest UDP payload the kernel accepts on IPv4 (not a libevent choice)


class Malformed(Exception):
    def __init__(self, reason, off=-1, **kw):
        Exception.__init__(self, "%s@%d" % (reason, off))
        self.reason = reason
        self.off = off
        self.info = kw


# ----------------------------------------------------------------------------- names as given to the API
def text_to_labels(name):
    """labels of a dotted name given to the server API as a C string.  One trailing dot is the
    root marker; b'' is the root."""
    if name == b"":
        return ()
    parts = name.split(b".")
    if parts and parts[-1] == b"":
        parts = parts[:-1]
    return tuple(parts)


def labels_encodable(labels):
    if any(len(l) == 0 or len(l) > 63 for l in labels):
        return False
    return sum(len(l) + 1 for l in labels) + 1 <= 255


def wire_len(labels):
    return sum(len(l) + 1 for l in labels) + 1


def cstr(b):
    i = b.find(b"\0")
    return b if i < 0 else b[:i]


_GBASE = bytes(((i * 7 + (i >> 8)) & 0xff) for i in range(65536))
_GTAB = {}


def gdata(n, seed):
    """the harness's g<len>:<seed> pattern: byte i = seed + i*7 + (i>>8)"""
    seed &= 0xff
    t = _GTAB.get(seed)
    if t is None:
        t = _GTAB[seed] = bytes(((b + seed) & 0xff) for b in range(256))
    return _GBASE[:n].translate(t)


def rec_data_bytes(r):
    d = r["data"]
    if d is None:
        return None
    if isinstance(d, tuple):
        return gdata(d[1], d[2])
    return d


def expected_record(r):
    """what one scripted add-call must put on the wire (documented semantics of the evdns_server_request_add_* calls)"""
    api = r["api"]
    data = rec_data_bytes(r)
    ttl = r["ttl"] & 0xffffffff
    if api == "a":
        return dict(section=0, labels=text_to_labels(r["name"]), type=1, cls=1, ttl=ttl, is_name=False, rdata=data or b"")
    if api == "6":
        return dict(section=0, labels=text_to_labels(r["name"]), type=28, cls=1, ttl=ttl, is_name=False, rdata=data or b"")
    if api == "c":
        return dict(section=0, labels=text_to_labels(r["name"]), type=5, cls=1, ttl=ttl, is_name=True, target=text_to_labels(cstr(data)))
    if api == "p":
        return dict(section=0, labels=text_to_labels(r["name"]), type=12, cls=1, ttl=ttl, is_name=True, target=text_to_labels(cstr(data)))
    if api == "P":
        b = r["name"]
        nm = ("%d.%d.%d.%d.in-addr.arpa" % (b[3], b[2], b[1], b[0])).encode()
        return dict(section=0, labels=text_to_labels(nm), type=12, cls=1, ttl=ttl, is_name=True, target=text_to_labels(cstr(data)))
    e = dict(section=r["section"], labels=text_to_labels(r["name"]), type=r["type"] & 0xffff, cls=r["cls"] & 0xffff, ttl=ttl,
             is_name=bool(r["is_name"]) and data is not None)
    if e["is_name"]:
        e["target"] = text_to_labels(cstr(data))
    else:
        e["rdata"] = data or b""
    return e


def record_encodable(e):
    if not labels_encodable(e["labels"]):
        return False
    if e["is_name"]:
        return labels_encodable(e["target"])
    return len(e["rdata"]) <= 65535


def uncompressed_size(questions, records):
    n = 12
    for (labels, _t, _c) in questions:
        n += wire_len(labels) + 4
    for e in records:
        n += wire_len(e["labels"]) + 10 + (wire_len(e["target"]) if e["is_name"] else len(e["rdata"]))
    return n


def size_upper_bound(questions, records):
    return uncompressed_size(questions, records) + len(questions) + sum(2 if e["is_name"] else 1 for e in records)


# ----------------------------------------------------------------------------- strict decoding of responses
class StrictDecoder:
    """Decodes a message the way the property demands of a *server's output*: a compression pointer is
    valid only if it targets the start of a label (or the root byte) of a name that was completely
    written earlier in the message; the name it stands for is the suffix that started there."""

    def __init__(self, msg):
        self.msg = msg
        self.table = {}          # offset of a literal label start / root byte -> suffix (tuple of labels)
        self.npointers = 0
        self.max_ptr_target = -1
        self.last_ptr = None     # (pos, target) of the pointer used by the most recently decoded name

    def name(self, off, end):
        msg = self.msg
        labels = []
        lits = []
        pos = off
        self.last_ptr = None
        while True:
            if pos >= end:
                raise Malformed("name-past-end", pos)
            b = msg[pos]
            if b == 0:
                lits.append((pos, len(labels)))
                pos += 1
                suffix = ()
                break
            if b & 0xc0 == 0xc0:
                if pos + 2 > end:
                    raise Malformed("name-past-end", pos)
                tgt = ((b & 0x3f) << 8) | msg[pos + 1]
                self.last_ptr = (pos, tgt)
                if tgt >= off or tgt not in self.table:
                    raise Malformed("bad-pointer", pos, target=tgt, prefix=tuple(labels))
                self.npointers += 1
                self.max_ptr_target = max(self.max_ptr_target, tgt)
                suffix = self.table[tgt]
                pos += 2
                break
            if b & 0xc0:
                raise Malformed("reserved-label-type", pos)
            if pos + 1 + b > end:
                raise Malformed("name-past-end", pos)
            lits.append((pos, len(labels)))
            labels.append(msg[pos + 1:pos + 1 + b])
            pos += 1 + b
        full = tuple(labels) + tuple(suffix)
        if wire_len(full) > 255:
            raise Malformed("name-too-long", off)
        for (p, i) in lits:
            self.table.setdefault(p, full[i:])
        return full, pos

    def wrap_witness(self, intended_suffix, target):
        """is there an earlier occurrence of `intended_suffix` at an offset >= 0x4000 whose low 14 bits equal `target`?"""
        for p, suf in self.table.items():
            if p >= 0x4000 and (p & 0x3fff) == target and suf == tuple(intended_suffix):
                return p
        return None


def fmt_labels(labels):
    return ".".join(l.decode("latin-1").encode("unicode_escape").decode() for l in labels) or "."


def verify_response(resp, req_id, exp_questions, exp_records, limit, exp_rcode, prop="C35", lenient_unencodable=False,
                    check_content=True):
    """Judge one response message.  Returns (viols, info).
    viols: list of (key, text).  info: dict of observations for evidence counters.
    check_content=False restricts the judgement to what C37 states (size/TC/rcode/id, honest decodability)."""
    V = []
    info = dict(tc=False, npointers=0, max_ptr_target=-1, size=len(resp), complete=False, nrecords=0)

    def viol(k, t):
        V.append(("%s:%s" % (prop, k), t))

    if len(resp) < 12:
        viol("response-shorter-than-header", "response of %d bytes: %s" % (len(resp), resp.hex()))
        return V, info
    rid, flags, qd, an, ns, ar = struct.unpack(">HHHHHH", resp[:12])
    tc = bool(flags & 0x0200)
    info["tc"] = tc
    if rid != req_id:
        viol("response-id-mismatch", "request id %#06x, response id %#06x" % (req_id, rid))
    if not flags & 0x8000:
        viol("response-qr-clear", "flags %#06x" % flags)
    if exp_rcode is not None and (flags & 0xf) != exp_rcode:
        viol("response-rcode-mismatch", "callback passed rcode %d, response flags %#06x" % (exp_rcode, flags))
    if len(resp) > limit:
        viol("response-exceeds-client-limit", "response is %d bytes, client limit %d (TC=%d)" % (len(resp), limit, tc))
    # upper bound of any sane encoding: no compression at all, plus one byte per name (an encoder may legally write the
    # root terminator of a name as a 2-byte pointer to an earlier root byte; CALIBRATED: the implementation does so)
    unc = size_upper_bound(exp_questions, exp_records)
    info["uncompressed"] = unc
    if tc and unc <= limit and not lenient_unencodable:
        viol("spurious-truncation", "TC set in a %d-byte response although the whole message needs at most %d <= limit %d"
             % (len(resp), unc, limit))

    dec = StrictDecoder(resp)
    pos = 12
    end = len(resp)
    got_q = []
    got_r = [[], [], []]
    failure = None
    exp_by_sec = [[e for e in exp_records if e["section"] == s] for s in range(3)]
    try:
        for i in range(qd):
            labels, pos = dec.name(pos, end)
            if pos + 4 > end:
                raise Malformed("fields-past-end", pos)
            t, c = struct.unpack(">HH", resp[pos:pos + 4])
            pos += 4
            got_q.append((labels, t, c))
        for s, cnt in enumerate((an, ns, ar)):
            for i in range(cnt):
                start = pos
                labels, pos = dec.name(pos, end)
                if pos + 10 > end:
                    raise Malformed("fields-past-end", pos)
                t, c, ttl, rdlen = struct.unpack(">HHIH", resp[pos:pos + 10])
                pos += 10
                if pos + rdlen > end:
                    raise Malformed("rdata-past-end", pos)
                e = exp_by_sec[s][i] if i < len(exp_by_sec[s]) else None
                g = dict(section=s, labels=labels, type=t, cls=c, ttl=ttl, off=start)
                if e is not None and e["is_name"]:
                    g["is_name"] = True
                    g["name_ptr_owner"] = dec.last_ptr
                    tl, p2 = dec.name(pos, pos + rdlen)
                    if p2 != pos + rdlen:
                        raise Malformed("rdlength-not-name-length", pos, rdlen=rdlen, used=p2 - pos)
                    g["target"] = tl
                    g["ptr_target"] = dec.last_ptr
                else:
                    g["is_name"] = False
                    g["name_ptr_owner"] = dec.last_ptr
                    g["rdata"] = resp[pos:pos + rdlen]
                pos += rdlen
                got_r[s].append(g)
    except Malformed as m:
        failure = m
    info["npointers"] = dec.npointers
    info["max_ptr_target"] = dec.max_ptr_target
    info["nrecords"] = sum(len(x) for x in got_r)

    def name_mismatch(what, got, want, ptr):
        # classify: is this the 14-bit wrap of an offset >= 0x4000 ?
        if ptr is not None:
            k = 0
            while k < len(got) and k < len(want) and got[k] == want[k]:
                k += 1
            for cut in range(0, k + 1):
                p = dec.wrap_witness(want[cut:], ptr[1])
                if p is not None:
                    viol("compression-pointer-to-offset-ge-0x4000-wraps",
                         "%s: pointer at offset %d targets %d but the intended suffix %s was written at offset %d (>= 0x4000, low 14 bits %d)"
                         % (what, ptr[0], ptr[1], fmt_labels(want[cut:]), p, p & 0x3fff))
                    return
        viol("name-mismatch", "%s: decoded %s, expected %s" % (what, fmt_labels(got), fmt_labels(want)))

    more_than_possible = any(len(got_r[s]) > len(exp_by_sec[s]) for s in range(3))
    if lenient_unencodable and tc and (failure is not None or pos != end or more_than_possible):
        # the reply is not a message at all: whatever the strict decoder trips over first, it is the same defect
        if check_content:
            viol("unencodable-name-reply-counts-describe-absent-records",
                 "a record whose name cannot be encoded (label > 63 or name > 255 bytes) was added; the %d-byte reply has TC set, header counts "
                 "qd=%d an=%d ns=%d ar=%d, but only %d questions and %d records decode (%s at offset %d); the bytes after the last encoded record "
                 "are not part of any record added for this request (stale buffer contents, e.g. an earlier reply)"
                 % (len(resp), qd, an, ns, ar, len(got_q), info["nrecords"],
                    failure.reason if failure else ("trailing-bytes" if pos != end else "records-nobody-added"), failure.off if failure else pos))
        failure_handled = True
    else:
        failure_handled = False
    if failure_handled:
        pass
    elif failure is not None:
        m = failure
        if m.reason == "bad-pointer":
            # find what the name at this point was meant to be
            want = None
            nq = len(got_q)
            if nq < qd and nq < len(exp_questions):
                want = exp_questions[nq][0]
            else:
                s = 0
                while s < 3 and len(got_r[s]) >= (an, ns, ar)[s]:
                    s += 1
                if s < 3 and len(got_r[s]) < len(exp_by_sec[s]):
                    e = exp_by_sec[s][len(got_r[s])]
                    # the failing name is either the owner or the target of e
                    cands = [e["labels"]] + ([e["target"]] if e["is_name"] else [])
                    pre = m.info.get("prefix", ())
                    for cnd in cands:
                        if cnd[:len(pre)] == pre:
                            w = dec.wrap_witness(cnd[len(pre):], m.info["target"])
                            if w is not None:
                                want = cnd
                                break
                    if want is None:
                        want = cands[0]
            pre = m.info.get("prefix", ())
            w = None
            if want is not None and tuple(want[:len(pre)]) == tuple(pre):
                w = dec.wrap_witness(want[len(pre):], m.info["target"])
            if w is not None:
                viol("compression-pointer-to-offset-ge-0x4000-wraps",
                     "pointer at offset %d targets %d, not an earlier occurrence; the intended suffix %s was written at offset %d (>= 0x4000, low 14 bits %d)"
                     % (m.off, m.info["target"], fmt_labels(want[len(pre):]), w, w & 0x3fff))
            else:
                viol("bad-compression-pointer", "pointer at offset %d targets %d which is not the start of a label of an earlier name (response %d bytes)"
                     % (m.off, m.info["target"], len(resp)))
        elif m.reason in ("name-past-end", "fields-past-end", "rdata-past-end"):
            if tc and not check_content:
                pass        # whether a truncated message's counts are honest is judged by C35, not here
            elif tc:
                if True:
                    viol("truncated-counts-describe-absent-records",
                         "response cut at %d bytes (limit %d) with TC set; header counts qd=%d an=%d ns=%d ar=%d but only %d questions and %d whole records are present (%s at offset %d)"
                         % (len(resp), limit, qd, an, ns, ar, len(got_q), info["nrecords"], m.reason, m.off))
            else:
                viol("malformed-response:" + m.reason, "response does not decode (%s at offset %d of %d); counts qd=%d an=%d ns=%d ar=%d"
                     % (m.reason, m.off, len(resp), qd, an, ns, ar))
        else:
            viol("malformed-response:" + m.reason, "response does not decode (%s at offset %d of %d) %r" % (m.reason, m.off, len(resp), m.info))
    else:
        if pos != end:
            if tc and not check_content:
                pass
            elif tc:
                viol("truncated-trailing-partial-record", "TC response has %d bytes after the last record its counts describe" % (end - pos))
            else:
                viol("malformed-response:trailing-bytes", "%d bytes after the last record (response %d bytes)" % (end - pos, end))

    if not check_content:
        # C37 judges header, size and decodability only; whether compression pointers are right is C35's business
        V[:] = [(k, t) for (k, t) in V if "compression-pointer" not in k]
        info["complete"] = failure is None and not tc
        return V, info
    if failure_handled:
        return V, info

    # ---- content: whatever decoded must be the expected prefix; without TC it must be everything
    for i, (labels, t, c) in enumerate(got_q):
        if i >= len(exp_questions):
            viol("extra-question", "response has more questions (%d) than the request (%d)" % (len(got_q), len(exp_questions)))
            break
        el, et, ec = exp_questions[i]
        if labels != tuple(el):
            name_mismatch("question %d" % i, labels, tuple(el), None)
        elif (t, c) != (et, ec):
            viol("question-mismatch", "question %d: type/class %d/%d, request had %d/%d" % (i, t, c, et, ec))
    for s in range(3):
        for i, g in enumerate(got_r[s]):
            if i >= len(exp_by_sec[s]):
                viol("extra-record", "section %d has %d records, callback added %d" % (s, len(got_r[s]), len(exp_by_sec[s])))
                break
            e = exp_by_sec[s][i]
            what = "section %d record %d (offset %d)" % (s, i, g["off"])
            if g["labels"] != tuple(e["labels"]):
                name_mismatch(what + " owner", g["labels"], tuple(e["labels"]), g["name_ptr_owner"])
                continue
            if (g["type"], g["cls"], g["ttl"]) != (e["type"], e["cls"], e["ttl"]):
                viol("record-fields-mismatch", "%s: type/class/ttl %d/%d/%d, added %d/%d/%d"
                     % (what, g["type"], g["cls"], g["ttl"], e["type"], e["cls"], e["ttl"]))
            if e["is_name"]:
                if g["target"] != tuple(e["target"]):
                    name_mismatch(what + " rdata name", g["target"], tuple(e["target"]), g["ptr_target"])
            elif g["rdata"] != e["rdata"]:
                viol("rdata-mismatch", "%s: rdata %d bytes %s..., added %d bytes %s..."
                     % (what, len(g["rdata"]), g["rdata"][:24].hex(), len(e["rdata"]), e["rdata"][:24].hex()))
    if failure is None and not tc:
        if len(got_q) != len(exp_questions):
            viol("question-count-mismatch", "response has %d questions, request had %d" % (len(got_q), len(exp_questions)))
        for s in range(3):
            if len(got_r[s]) < len(exp_by_sec[s]):
                viol("missing-records", "section %d has %d records, callback added %d, TC clear" % (s, len(got_r[s]), len(exp_by_sec[s])))
        info["complete"] = not V
    return V, info


# ----------------------------------------------------------------------------- requests (what the server receives)
MUST_CB, MUST_NOT, EITHER = "must-callback", "must-not-callback", "either"

HARD = ("short-header", "qr-set", "label-past-end", "name-past-end", "pointer-past-end", "pointer-loop", "reserved-label-type",
        "name-too-long", "question-fields-truncated", "rr-fields-truncated", "rdata-past-end")


def _req_name(msg, off, soft):
    """follow a name the way any decoder must (in bounds, no loops); returns (labels, next_off)."""
    n = len(msg)
    labels = []
    pos = off
    after = None
    seen = set()
    total = 1
    while True:
        if pos >= n:
            raise Malformed("name-past-end", pos)
        b = msg[pos]
        if b == 0:
            pos += 1
            break
        if b & 0xc0 == 0xc0:
            if pos + 2 > n:
                raise Malformed("name-past-end", pos)
            tgt = ((b & 0x3f) << 8) | msg[pos + 1]
            if pos in seen:
                raise Malformed("pointer-loop", pos)
            seen.add(pos)
            if tgt >= n:
                raise Malformed("pointer-past-end", pos)
            if tgt >= off:
                soft.add("forward-or-self-pointer")
            if tgt < 12:
                soft.add("pointer-into-header")
            if after is None:
                after = pos + 2
            pos = tgt
            if len(seen) > n:
                raise Malformed("pointer-loop", pos)
            continue
        if b & 0xc0:
            raise Malformed("reserved-label-type", pos)
        if pos + 1 + b > n:
            raise Malformed("label-past-end", pos)
        labels.append(msg[pos + 1:pos + 1 + b])
        if b"." in labels[-1] or b"\0" in labels[-1]:
            # such a label has no faithful dotted-C-string form: the server may drop the message; if it delivers it,
            # check_callback still demands the exact name (keys question-label-containing-{dot,nul}-*)
            soft.add("label-unrepresentable")
        total += 1 + b
        if total > 257:
            raise Malformed("name-too-long", off)
        pos += 1 + b
    if total > 255:
        soft.add("name-length-256-257")    # CALIBRATED: over RFC 1035's 255 but within the implementation's text buffer
    return tuple(labels), (after if after is not None else pos)


def analyze_request(msg, transport):
    """Classify one received message.  Returns dict(verdict, reason, soft, id, flags, opcode, questions, opt_size)."""
    r = dict(verdict=MUST_NOT, reason=None, soft=set(), id=None, flags=None, opcode=None, questions=None, opt_size=None,
             wellformed=False)
    soft = r["soft"]
    if transport == "u" and len(msg) > UDP_READ_CAP:
        msg = msg[:UDP_READ_CAP]
        soft.add("udp-datagram-over-read-buffer")
    if len(msg) < 12:
        r["reason"] = "short-header"
        return r
    rid, flags, qd, an, ns, ar = struct.unpack(">HHHHHH", msg[:12])
    r["id"], r["flags"], r["opcode"] = rid, flags, (flags >> 11) & 0xf
    if flags & 0x8000:
        r["reason"] = "qr-set"
        return r
    pos = 12
    qs = []
    nopt = 0
    try:
        for i in range(qd):
            labels, pos = _req_name(msg, pos, soft)
            if pos + 4 > len(msg):
                raise Malformed("question-fields-truncated", pos)
            t, c = struct.unpack(">HH", msg[pos:pos + 4])
            pos += 4
            qs.append((labels, t, c))
        r["questions"] = qs
        for s, cnt in enumerate((an, ns, ar)):
            for i in range(cnt):
                labels, pos = _req_name(msg, pos, soft)
                if pos + 10 > len(msg):
                    raise Malformed("rr-fields-truncated", pos)
                t, c, ttl, rdlen = struct.unpack(">HHIH", msg[pos:pos + 10])
                pos += 10
                if pos + rdlen > len(msg):
                    raise Malformed("rdata-past-end", pos)
                pos += rdlen
                if t == TYPE_OPT:
                    if s != 2:
                        soft.add("opt-outside-additional")
                    else:
                        nopt += 1
                        if nopt == 1:
                            r["opt_size"] = c
                            if labels != ():
                                soft.add("opt-nonroot-name")
                        else:
                            soft.add("multiple-opt")
    except Malformed as m:
        r["reason"] = m.reason
        r["after_opt"] = nopt > 0
        return r
    if pos != len(msg):
        soft.add("trailing-bytes")
    if qd == 0:
        soft.add("qdcount-zero")
    r["wellformed"] = True
    if r["opcode"] != 0:
        r["reason"] = "nonzero-opcode"
        return r            # MUST_NOT callback; NOTIMPL expected when no soft issue
    r["verdict"] = EITHER if soft else MUST_CB
    return r


def c_view(labels):
    """how a decoded name reaches a C-string API: labels joined by '.', cut at the first NUL"""
    return cstr(b".".join(labels))


# ----------------------------------------------------------------------------- trace parsing
def parse_trace(path):
    """yields (idx, trace) per case.  trace = dict(ops=[opdict...], live=int|None, stall=bool, done=bool)
    opdict = dict(cbs=[cb...], udp=[bytes...], tcp=[bytes...], teof=bool)
    cb = dict(transport, id, flags, questions=[(cname, type, class)], addfail=set(), resp=rc|None, dropped=bool)
    A process that died mid-case leaves an incomplete (possibly cut) last case: it is yielded with done=False."""
    cur = None
    idx = None
    op = None
    with open(path, "r", errors="replace") as f:
        for ln in f:
            if not ln.endswith("\n"):
                break               # cut line: the process died here
            ln = ln[:-1]
            if not ln:
                continue
            tag, _, rest = ln.partition(" ")
            try:
                if tag == "C":
                    if cur is not None:
                        yield idx, cur
                    idx = int(rest)
                    op = dict(cbs=[], udp=[], tcp=[], teof=False)
                    cur = dict(ops=[], pre=op, live=None, stall=False, done=False)
                elif cur is None:
                    continue
                elif tag == "O":
                    op = dict(cbs=[], udp=[], tcp=[], teof=False)
                    cur["ops"].append(op)
                elif tag == "Q":
                    t = rest.split(" ")
                    nq = int(t[3])
                    qs = []
                    for i in range(nq):
                        qs.append((bytes.fromhex(t[4 + 3 * i][1:]), int(t[5 + 3 * i]), int(t[6 + 3 * i])))
                    op["cbs"].append(dict(transport=t[0], id=int(t[1]), flags=int(t[2], 16), questions=qs, addfail=set(), resp=None, dropped=False))
                elif tag == "ADDFAIL":
                    i, rc = rest.split(" ")
                    op["cbs"][-1]["addfail"].add(int(i))
                elif tag == "RESP":
                    op["cbs"][-1]["resp"] = int(rest)
                elif tag == "DROP":
                    op["cbs"][-1]["dropped"] = True
                elif tag == "u":
                    op["udp"].append(bytes.fromhex(rest))
                elif tag == "t":
                    op["tcp"].append(bytes.fromhex(rest))
                elif tag == "teof" or tag == "terr":
                    op["teof"] = True
                elif tag == "STALL":
                    cur["stall"] = True
                elif tag == "E":
                    cur["live"] = int(rest)
                    cur["done"] = True
                    yield idx, cur
                    cur = None
            except (ValueError, IndexError):
                break               # garbled line from a dying process
    if cur is not None:
        cur["done"] = False
        yield idx, cur


# ----------------------------------------------------------------------------- the case oracle
class Judge:
    """Judges one executed case against the properties.  prop selects the rule set:
       C35: benign requests; every response must decode into questions + added records (+ size/TC rules)
       C37: hostile requests; callbacks only for well-formed standard queries with exactly their questions,
            NOTIMPL for other opcodes, OPT size honoured, census zero."""

    def __init__(self, prop):
        self.prop = prop
        self.V = []          # (key, text)
        self.S = {}          # stats

    def st(self, k, n=1):
        self.S[k] = self.S.get(k, 0) + n

    def viol(self, k, t):
        self.V.append(("%s:%s" % (self.prop, k), t))

    # -- expectations for one delivered request
    def expected_for(self, case, cb, req):
        """records in wire order (by section, then in the order they were added)"""
        recs = []
        if req is not None and req["opt_size"] is not None:
            # CALIBRATED: a request carrying OPT gets an OPT pseudo-record (root name, class 512, ttl 0, no data)
            # as the first additional record, ahead of whatever the callback adds
            recs.append(dict(section=2, labels=(), type=TYPE_OPT, cls=512, ttl=0, is_name=False, rdata=b"", auto=True))
        for i, r in enumerate(case["recs"]):
            if i in cb["addfail"]:
                self.st("add_calls_refused")
                continue
            e = expected_record(r)
            if e["section"] not in (0, 1, 2):
                self.viol("add-accepted-invalid-section", "record %d: section %d accepted" % (i, e["section"]))
                continue
            recs.append(e)
        recs.sort(key=lambda e: e["section"])     # stable
        return recs

    def limit_for(self, transport, req):
        if transport == "t":
            return 65535
        if req is not None and req["opt_size"] is not None:
            return max(512, req["opt_size"])
        return 512

    def check_callback(self, cb, req, what):
        """callback arguments against the strict decode of the message that caused it"""
        ok = True
        want = req["questions"]
        got = cb["questions"]
        if len(got) != len(want):
            self.viol("callback-question-count", "%s: callback saw %d questions, message has %d" % (what, len(got), len(want)))
            return False
        for i, ((gname, gt, gc), (labels, t, c)) in enumerate(zip(got, want)):
            joined = b".".join(labels)
            if (gt, gc) != (t, c):
                self.viol("callback-question-type-class", "%s: question %d type/class %d/%d, message has %d/%d" % (what, i, gt, gc, t, c))
                ok = False
            if gname == joined:
                if any(b"." in l for l in labels):
                    self.viol("question-label-containing-dot-presented-unescaped",
                              "%s: question name %s has a label containing '.', the callback saw %r (indistinguishable from more labels)"
                              % (what, fmt_labels(labels), gname))
                    ok = False
                continue
            if b"\0" in joined and gname == cstr(joined):
                self.viol("question-label-containing-nul-truncates-name",
                          "%s: question name %s reached the callback as %r" % (what, fmt_labels(labels), gname))
            else:
                self.viol("callback-question-name", "%s: callback saw name %r, message has %s" % (what, gname, fmt_labels(labels)))
            ok = False
        return ok

    def judge_exchange(self, case, transport, msg, cbs, what):
        """one received message and the callbacks attributed to it.  Returns list of expected responders:
        [(kind, req, cb)] kind in 'cb'|'notimpl'|'maybe-notimpl'"""
        req = analyze_request(msg, transport)
        self.st("msgs_" + ("wellformed" if req["wellformed"] else "malformed"))
        if req["reason"]:
            self.st("reason_" + req["reason"])
        for s in req["soft"]:
            self.st("soft_" + s)
        out = []
        if len(cbs) > 1:
            self.viol("callback-more-than-once", "%s: %d callbacks for one message" % (what, len(cbs)))
        cb = cbs[0] if cbs else None
        if req["wellformed"] and req["opcode"] != 0:
            self.st("nonzero_opcode_msgs")
            if cb is not None:
                self.viol("nonzero-opcode-delivered-to-callback",
                          "%s: opcode %d query (flags %#06x) was handed to the user callback instead of being answered NOTIMPL"
                          % (what, req["opcode"], req["flags"]))
                self.check_callback(cb, req, what)
                out.append(("cb", req, cb))
            else:
                out.append(("notimpl" if not req["soft"] else "maybe-notimpl", req, None))
            return out
        if req["verdict"] == MUST_NOT:
            if cb is not None:
                extra = ":after-opt" if req.get("after_opt") else ""
                self.viol("callback-for-malformed:%s%s" % (req["reason"], extra),
                          "%s: callback invoked for a message that is not a well-formed query (%s): %s" % (what, req["reason"], msg[:80].hex()))
                out.append(("cb-malformed", req, cb))
            else:
                self.st("malformed_not_delivered")
            return out
        if cb is None:
            if req["verdict"] == MUST_CB:
                # CALIBRATED: every well-formed standard query with >=1 question is delivered
                self.viol("wellformed-query-not-delivered", "%s: no callback for well-formed query %s" % (what, msg[:80].hex()))
            else:
                self.st("either_not_delivered")
            return out
        self.st("callbacks")
        if req["verdict"] == EITHER:
            self.st("either_delivered")
        if self.check_callback(cb, req, what):
            self.st("callback_questions_exact", len(cb["questions"]))
        # CALIBRATED: flags presented to the callback keep only RD (0x100) and CD (0x10) of the query
        out.append(("cb", req, cb))
        return out

    def judge_response(self, case, kind, req, cb, resp, transport, what):
        """resp is bytes or None (no response observed)"""
        act_mode, act_err, act_flags = case["act"]
        limit = self.limit_for(transport, req)
        odd_question = "name-length-256-257" in req["soft"] or \
            any((b"." in lab or b"\0" in lab) for (labels, _t, _c) in (req["questions"] or []) for lab in labels)
        if kind in ("notimpl", "maybe-notimpl"):
            if resp is None:
                if kind == "notimpl":
                    self.viol("nonzero-opcode-not-answered", "%s: opcode %d query got no reply" % (what, req["opcode"]))
                return
            self.st("notimpl_replies")
            if odd_question:
                # the question cannot be echoed faithfully through a C string (separate finding); judge header and size only
                if len(resp) < 12 or struct.unpack(">H", resp[:2])[0] != req["id"] or (resp[3] & 0xf) != 4 or not resp[2] & 0x80:
                    self.viol("nonzero-opcode-reply-not-notimpl", "%s: reply %s" % (what, resp[:12].hex()))
                if len(resp) > limit:
                    self.viol("response-exceeds-client-limit", "%s: response is %d bytes, client limit %d" % (what, len(resp), limit))
                return
            exp = [dict(section=2, labels=(), type=TYPE_OPT, cls=512, ttl=0, is_name=False, rdata=b"")] if req["opt_size"] is not None else []
            qs = [(l, t, c) for (l, t, c) in req["questions"]]
            v, info = verify_response(resp, req["id"], qs, exp, limit, 4, prop=self.prop, check_content=False)
            for k, t in v:
                if k.endswith("response-rcode-mismatch"):
                    k = self.prop + ":nonzero-opcode-reply-not-notimpl"
                self.V.append((k, what + ": " + t))
            return
        if kind == "cb-malformed":
            return
        responds = (act_mode == 0) and cb["resp"] is not None and cb["resp"] >= 0
        if not responds:
            if resp is not None:
                self.viol("response-without-respond", "%s: %d bytes sent although the callback %s" %
                          (what, len(resp), "dropped the request" if cb["dropped"] else "got rc %s from respond" % cb["resp"]))
            else:
                self.st("no_response_expected")
            if act_mode == 0 and not (0 <= act_err <= 15):
                self.st("respond_refused_bad_rcode")
            elif act_mode == 0:
                self.viol("respond-failed", "%s: evdns_server_request_respond(err=%d) returned %s" % (what, act_err, cb["resp"]))
            return
        exp = self.expected_for(case, cb, req)
        # questions as the callback saw them (C-string view); C37 judges that view separately
        qs = [(text_to_labels(n), t, c) for (n, t, c) in cb["questions"]]
        unenc = [e for e in exp if not record_encodable(e)]
        unc = size_upper_bound(qs, [e for e in exp if record_encodable(e)])
        if resp is None:
            if transport == "u" and unc > UDP_SEND_MAX and limit > UDP_SEND_MAX:
                self.st("udp_over_65507_not_sendable")    # not sendable as one IPv4 datagram whatever the server does
                return
            if unenc:
                self.st("unencodable_no_response")
                return
            self.viol("no-response", "%s: callback responded (rc %s) but the client received nothing (expected about %d bytes, limit %d)"
                      % (what, cb["resp"], unc, limit))
            return
        if odd_question:
            # the question cannot be represented in the C-string API (reported by check_callback); only the size limit is judged
            self.st("responses_to_unrepresentable_question")
            if len(resp) > limit:
                self.viol("response-exceeds-client-limit", "%s: response is %d bytes, client limit %d" % (what, len(resp), limit))
            return
        self.st("responses")
        self.st("responses_tcp" if transport == "t" else ("responses_udp_edns" if req["opt_size"] is not None else "responses_udp_plain"))
        content = (self.prop == "C35")
        if unenc:
            self.st("responses_with_unencodable_record")
            # only the records before the first un-encodable one can be demanded
            first = exp.index(unenc[0])
            v, info = verify_response(resp, req["id"], qs, exp[:first], limit, act_err,
                                      prop=self.prop, lenient_unencodable=True, check_content=content)
        else:
            v, info = verify_response(resp, req["id"], qs, exp, limit, act_err, prop=self.prop, check_content=content)
        for k, t in v:
            self.V.append((k, what + ": " + t))
        if info["tc"]:
            self.st("responses_truncated")
        if info.get("complete"):
            self.st("responses_complete_exact")
            self.st("records_verified", info["nrecords"])
        self.st("compression_pointers_validated", info["npointers"])
        if info["max_ptr_target"] >= 0x1000:
            self.st("pointer_targets_ge_4096")
        if info["size"] > 16384:
            self.st("responses_over_16k")
        if info["size"] > 512:
            self.st("responses_over_512")
        if req["opt_size"] is not None and not info["tc"] and info["size"] > 512:
            self.st("edns_size_used")
        return info

    def judge_case(self, case, tr):
        ops = case["ops"]
        if not tr["done"]:
            self.st("cases_incomplete")
            return
        if tr["stall"]:
            self.viol("stall", "loop never became idle")
        if tr["pre"]["cbs"] or tr["pre"]["udp"] or tr["pre"]["tcp"]:
            self.viol("activity-before-any-input", "callbacks or bytes before the first operation")
        if len(tr["ops"]) != len(ops):
            self.viol("harness-op-count", "trace has %d ops, script %d" % (len(tr["ops"]), len(ops)))
            return
        # ---- UDP: one datagram per op, everything attributable to the op
        conn = None       # current TCP connection model
        conns = []
        for k, (op, t) in enumerate(zip(ops, tr["ops"])):
            if op[0] == "U":
                if t["tcp"] and conn is None:
                    self.viol("tcp-bytes-without-connection", "op %d" % k)
                what = "op %d udp" % k
                udp_cbs = [c for c in t["cbs"] if c["transport"] == "u"]
                exps = self.judge_exchange(case, "u", op[1], udp_cbs, what)
                resps = list(t["udp"])
                for (kind, req, cb) in exps:
                    r = resps.pop(0) if resps else None
                    self.judge_response(case, kind, req, cb, r, "u", what)
                if resps:
                    # CALIBRATED: messages that are neither delivered nor answered NOTIMPL get no reply
                    self.viol("unexpected-udp-reply", "%s: %d unexpected datagram(s), first %s" % (what, len(resps), resps[0][:40].hex()))
                if conn is not None:
                    conn["cbs"] += [c for c in t["cbs"] if c["transport"] == "t"]
                    conn["rx"] += b"".join(t["tcp"])
            else:
                if [c for c in t["cbs"] if c["transport"] == "u"] or t["udp"]:
                    self.viol("udp-activity-without-datagram", "op %d" % k)
                if op[0] == "TN":
                    conn = dict(tx=b"", rx=b"", cbs=[], eof=False, first_op=k, shut=False)
                    conns.append(conn)
                elif conn is None and op[0] == "T":
                    conn = dict(tx=b"", rx=b"", cbs=[], eof=False, first_op=k, shut=False)
                    conns.append(conn)
                if op[0] == "T":
                    conn["tx"] += op[1]
                if op[0] == "TS" and conn is not None:
                    conn["shut"] = True
                if conn is not None:
                    conn["cbs"] += [c for c in t["cbs"] if c["transport"] == "t"]
                    conn["rx"] += b"".join(t["tcp"])
                    conn["eof"] = conn["eof"] or t["teof"]
        for ci, c in enumerate(conns):
            self.judge_tcp(case, c, "tcp connection %d (from op %d)" % (ci, c["first_op"]))
        if tr["live"] != 0:
            self.viol("leak-census", "%d library allocations still live after closing both ports and freeing the base" % tr["live"])
        else:
            self.st("census_clean")

    def judge_tcp(self, case, c, what):
        # frame the client's byte stream
        tx = c["tx"]
        frames = []
        pos = 0
        closing = False
        while pos + 2 <= len(tx):
            ln = (tx[pos] << 8) | tx[pos + 1]
            if ln == 0:
                closing = True      # CALIBRATED: a zero-length frame makes the server close the connection
                self.st("tcp_zero_length_frames")
                break
            if pos + 2 + ln > len(tx):
                self.st("tcp_incomplete_frames")
                break
            frames.append(tx[pos + 2:pos + 2 + ln])
            pos += 2 + ln
        self.st("tcp_frames", len(frames))
        # attribute callbacks to frames: order is preserved and the trace names the transaction id behind every callback
        reqs = [analyze_request(m, "t") for m in frames]
        assign = [[] for _ in frames]
        cbs = []
        fi = 0
        for cb in c["cbs"]:
            k = next((i for i in range(fi, len(frames)) if reqs[i]["id"] == cb["id"]), None)
            if k is None:
                cbs.append(cb)
            else:
                assign[k].append(cb)
                fi = k + 1
        exps = []
        for fi, m in enumerate(frames):
            w = "%s frame %d" % (what, fi)
            exps += [(e, w) for e in self.judge_exchange(case, "t", m, assign[fi], w)]
        if cbs:
            self.viol("tcp-callback-without-frame", "%s: %d callback(s) not caused by any complete frame; first saw %r"
                      % (what, len(cbs), cbs[0]["questions"][:2]))
        # responses: frames of the server's byte stream
        rx = c["rx"]
        rframes = []
        pos = 0
        while pos + 2 <= len(rx):
            ln = (rx[pos] << 8) | rx[pos + 1]
            if pos + 2 + ln > len(rx):
                break
            rframes.append(rx[pos + 2:pos + 2 + ln])
            pos += 2 + ln
        partial = len(rx) - pos
        lossy = closing      # replies queued in the same read batch as the closing frame may be discarded with the connection
        if partial and not lossy:
            self.viol("tcp-reply-stream-partial-frame", "%s: reply stream ends with %d bytes of an incomplete frame (prefix %s)"
                      % (what, partial, rx[pos:pos + 8].hex()))
        for ((kind, req, cb), w) in exps:
            expects = kind in ("notimpl",) or (kind in ("cb", "cb-malformed") and case["act"][0] == 0 and cb["resp"] is not None and cb["resp"] >= 0)
            r = None
            if rframes and (expects or kind == "maybe-notimpl"):
                if lossy or kind == "maybe-notimpl":
                    # take the next reply only if it answers this request
                    if len(rframes[0]) >= 2 and struct.unpack(">H", rframes[0][:2])[0] == req["id"]:
                        r = rframes.pop(0)
                else:
                    r = rframes.pop(0)
            if r is None and lossy and expects:
                self.st("tcp_reply_lost_with_closing_connection")
                continue
            self.judge_response(case, kind, req, cb, r, "t", w)
        if rframes:
            self.viol("unexpected-tcp-reply", "%s: %d reply frame(s) nobody asked for, first %s" % (what, len(rframes), rframes[0][:40].hex()))
        if closing:
            self.st("tcp_closed_by_server" if c["eof"] else "tcp_zero_frame_not_closed")
