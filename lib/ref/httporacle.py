"""Shared driver + oracles for C23/C24/C25: writes h_http scripts, runs them
through vlib.run_jobs, decodes the CASE traces and judges them against the
RFC 9112 reference parser (ref/http9112.py) and the metamorphic relation
"same stream, any segmentation => same observable behaviour"."""
import binascii, json, os, re, sys, hashlib
import vlib
from ref import http9112 as ref
from gen import httpgen as gen

NSHARDS = 16
HARNESS = "h_http"
FLAVOR = "asan"


def hx(b):
    return binascii.hexlify(b).decode()


def unhx(s):
    return binascii.unhexlify(s)


def asan_env():
    """vlib's sanitizer options with a shorter allocation-stack depth and a smaller quarantine: every case creates and
    frees a whole event_base/evhttp, and unwinding 12 frames per malloc/free dominated the run time.  Error stacks (the
    source of violation keys) are still unwound in full; use-after-free is still caught within a 48 MB window."""
    o = vlib.sanitizer_env(FLAVOR)["ASAN_OPTIONS"]
    o = re.sub(r"malloc_context_size=\d+", "malloc_context_size=5", o)
    return {"ASAN_OPTIONS": o + ":quarantine_size_mb=48"}


# ----------------------------------------------------------------- running
class Case(object):
    """One stream (or response script) executed under several segmentations."""
    __slots__ = ("idx", "mode", "opts", "data", "end", "requests", "tags", "segs", "results", "cfg", "extra")

    def __init__(self, idx, mode, data, opts="-", end=None, requests=None, tags=(), cfg=None):
        self.idx = idx
        self.mode = mode            # 'S' or 'C'
        self.data = data
        self.opts = opts
        self.end = end              # None | 'F' | 'X'  appended after the last segment
        self.requests = requests or []
        self.tags = list(tags)
        self.segs = []              # [(name, [segments])]
        self.results = {}           # name -> decoded trace
        self.cfg = cfg or {}
        self.extra = None

    def script_lines(self):
        out = []
        opts = self.opts
        if self.mode == 'C':
            rq = "|".join("%s:/r%d" % (m.decode(), i) if m != b"CONNECT" else "CONNECT:h%d:80" % i for i, m in enumerate(self.requests))
            opts = ("rq=" + rq) if opts == "-" else (opts + ",rq=" + rq)
        for name, segs in self.segs:
            items = [hx(s) for s in segs if s]
            if self.end:
                items.append(self.end)
            out.append("%s %d.%s %s %s" % (self.mode, self.idx, name, opts, " ".join(items)))
        return out


def run_cases(res, prop, cases, tag):
    """Distribute the cases over NSHARDS script files, run h_http on each, attach decoded traces."""
    wd = vlib.workdir(prop)
    shards = [[] for _ in range(NSHARDS)]
    for i, c in enumerate(cases):
        shards[i % NSHARDS].append(c)
    jobs = []
    byid = {}
    for s, lst in enumerate(shards):
        if not lst:
            continue
        path = os.path.join(wd, "%s-%s-%d.script" % (prop, tag, s))
        with open(path, "w") as f:
            n = 0
            for c in lst:
                byid[c.idx] = c
                for ln in c.script_lines():
                    f.write(ln + "\n")
                    n += 1
        jobs.append(dict(args=["--arg", path], tag="%s-%s-%d" % (prop, tag, s), replay=dict(script=path), nlines=n, path=path))
    outs = vlib.run_jobs(res, FLAVOR, HARNESS, jobs, timeout=1200, env_extra=asan_env())
    ncase = 0
    for o in outs:
        # attribute sanitizer reports to the script line (ATCASE) so that replay can re-run exactly it
        for v in res.viol:
            rp = v.get("replay") or {}
            pl = rp.get("payload")
            if pl and pl.get("script") == o["job"]["path"] and "line" not in pl and rp.get("only", -1) is not None:
                k = rp.get("only", -1)
                try:
                    lines = [l for l in open(o["job"]["path"]).read().splitlines() if l and not l.startswith("#")]
                    if 0 <= k < len(lines):
                        pl["line"] = lines[k]
                except OSError:
                    pass
        with open(o["out"], "r", errors="replace") as f:
            for ln in f:
                if not ln.startswith("CASE "):
                    continue
                try:
                    d = json.loads(ln[5:])
                except ValueError:
                    res.inconclusive.append("undecodable CASE line in %s" % o["out"])
                    continue
                sid, seg = d["id"].split(".", 1)
                c = byid.get(int(sid))
                if c is not None:
                    c.results[seg] = decode(d)
                    ncase += 1
    return ncase


def decode(d):
    if d["mode"] == "S":
        reqs = []
        for r in d["reqs"]:
            reqs.append(dict(t=r["t"], u=unhx(r["u"]), v=tuple(r["v"]), h=[(unhx(a), unhx(b)) for a, b in r["h"]], b=unhx(r["b"]), at=r["at"],
                             hs=r["hs"], bs=r["bs"]))
        d["reqs"] = reqs
        d["out"] = unhx(d["out"])
    else:
        ev = []
        for e in d["ev"]:
            if e["k"] == "done" and "code" in e:
                e["line"] = unhx(e["line"]) if e["line"] is not None else None
                e["h"] = [(unhx(a), unhx(b)) for a, b in e["h"]]
                e["b"] = unhx(e["b"])
            ev.append(e)
        d["ev"] = ev
    return d


# ----------------------------------------------------------------- helpers on server output
_INTERIM = re.compile(rb"HTTP/1\.[01] 100 Continue\r\n\r\n")
_DATE = re.compile(rb"\r\nDate: [^\r\n]*")


def final_out(out):
    """The server's output without interim 100 responses (legitimately timing dependent: sent only when the body has
    not arrived yet) and without the Date field (real wall clock: time() is not virtualised)."""
    return _DATE.sub(b"", _INTERIM.sub(b"", out))


def out_statuses(out):
    """Walk the server's output as a sequence of responses framed by Content-Length."""
    sts = []
    pos = 0
    while pos < len(out):
        e = out.find(b"\r\n\r\n", pos)
        if e < 0:
            sts.append(-1)
            break
        head = out[pos:e]
        m = re.match(rb"HTTP/1\.[01] (\d{3}) ", head)
        if not m:
            sts.append(-1)
            break
        code = int(m.group(1))
        cl = re.search(rb"\r\nContent-Length: (\d+)", head)
        n = int(cl.group(1)) if cl else 0
        sts.append(code)
        pos = e + 4 + (n if code >= 200 else 0)
    return sts


def server_signature(r):
    return (tuple((q["t"], q["u"], q["v"], tuple(q["h"]), q["b"]) for q in r["reqs"]), final_out(r["out"]), bool(r["closed_before_fin"]))


def server_signature_limits(r):
    """C25: 400 and 413 are equally acceptable answers to an over-limit message"""
    sts = tuple(("4xx" if 400 <= x < 500 else x) for x in out_statuses(r["out"]) if x != 100)
    return (tuple((q["t"], q["u"], q["v"], tuple(q["h"]), q["b"]) for q in r["reqs"]), sts, bool(r["closed_before_fin"]))


def short(b, n=120):
    s = repr(b)
    return s if len(s) <= n else s[:n] + "...(%d bytes)" % len(b)


def describe_req(q):
    return "type=%#x target=%s HTTP/%d.%d headers=%s body=%s" % (q["t"], short(q["u"], 60), q["v"][0], q["v"][1],
                                                                 short(q["h"], 200), short(q["b"], 80))


# ----------------------------------------------------------------- field comparison
def compare_fields(prefix, m, exp, got, viol, ctx):
    """Compare the header list; returns True when equal (possibly modulo allowed whitespace)."""
    if exp == got:
        return True
    if m.trailers and len(got) == len(exp) + len(m.trailers) and [n.rstrip(b" \t") for n, _ in got[len(exp):]] == [n for n, _ in m.trailers]:
        viol.append((prefix + ":trailer-fields-merged-into-headers",
                     "trailer fields %s were appended to the header list handed to the callback (RFC 9110 6.5.1 MUST NOT merge); %s" % (short(m.trailers), ctx)))
        exp = exp + m.trailers
        if exp == got:
            return True
    keys = set()
    if len(exp) != len(got):
        viol.append((prefix + ":header-count-mismatch", "expected %d fields %s, delivered %d: %s; %s" % (len(exp), short(exp, 300), len(got), short(got, 300), ctx)))
        return False
    for (en, ev), (gn, gv) in zip(exp, got):
        if en != gn:
            if gn.rstrip(b" \t") == en and gn != en:
                keys.add("ws-before-colon-kept-in-name")
            else:
                keys.add("field-name-mismatch")
            continue
        if ev == gv:
            continue
        if m.soft_ws and ref._collapse_ws(gv) == ref._collapse_ws(ev):
            continue
        if gv.strip(b" \t") == ev:
            keys.add("field-value-leading-htab-kept" if gv[:1] == b"\t" or gv.lstrip(b" ")[:1] == b"\t" else "field-value-ows-kept")
        elif 'nul' in m.either and ev.startswith(gv) and len(gv) < len(ev):
            keys.add("nul-in-field-value-truncates")
        elif b"\r" in gv and gv.replace(b"\r", b" ").strip(b" \t") == ev:
            keys.add("bare-cr-in-field-value-kept")
        else:
            keys.add("field-value-mismatch")
    for k in sorted(keys):
        viol.append((prefix + ":" + k, "expected fields %s, delivered %s; %s" % (short(exp, 300), short(got, 300), ctx)))
    return not keys


REJECT_KEYS = {
    'cl-conflict': 'conflicting-content-length-accepted',
    'cl-plus-sign': 'cl-plus-sign-accepted',
    'cl-minus-sign': 'cl-minus-sign-accepted',
    'cl-nondigit': 'cl-nondigit-accepted',
    'cl-empty': 'cl-empty-accepted',
    'ws-before-colon': 'ws-before-colon-accepted',
    'te-not-final-chunked': 'te-not-final-chunked-accepted',
    'chunk-size-invalid': 'invalid-chunk-size-accepted',
}
FEATURE_PRIORITY = ['request-line-shorter-than-14', 'chunk-ext', 'chunk-ext-bws', 'trailers', 'chunk-size-leading-zero', 'last-chunk-multi-zero', 'expect-100', 'expect-in-1.0', 'chunk']


def no_length_conn_header(m):
    """close-delimited response carrying a Connection field other than "close" """
    vals = ref._field_values(m.headers, b"connection")
    return m.framing == 'close' and bool(vals) and vals[0].lower() != b"close"


def te_not_plain(m):
    """the Transfer-Encoding field is a list / repeated field whose final coding is chunked (not the single token "chunked")"""
    vals = ref._field_values(m.headers, b"transfer-encoding")
    return len(vals) != 1 or vals[0].lower() != b"chunked"


def reject_key(prefix, m):
    r = m.reject[0]
    k = REJECT_KEYS.get(r, r + "-accepted")
    if r in ('cl-nondigit', 'cl-empty', 'cl-plus-sign', 'cl-minus-sign') and 'cl-multi' in m.features:
        k = 'cl-invalid-among-multiple-accepted'
    if r == 'cl-nondigit' and 'nul' in m.either:
        k = 'cl-nul-truncated-accepted'
    if r == 'cl-nondigit' and 'obs-fold' in m.either:
        k = 'cl-obs-fold-accepted'
    return prefix + ":" + k


def primary_feature(m):
    if 'te-leading-htab' in m.features and m.framing == 'chunked':
        return 'te-leading-htab'
    if m.framing == 'chunked' and te_not_plain(m):
        return 'te-list'
    for f in FEATURE_PRIORITY:
        if f in m.features:
            return f
    if m.kind == 'request':
        if m.method == b"CONNECT":
            return "connect"
        if m.target == b"*":
            return "asterisk-form"
        if m.target and m.target[:1] != b"/":
            return "absolute-form"
        if m.version == (1, 0):
            return "http10"
        if m.method not in gen.KNOWN_TYPES:
            return "ext-method"
    return "plain"


# ----------------------------------------------------------------- C23 server oracle
def judge_server_result(prefix, data, r, ext, stats, limits=None):
    """Judge one execution (one segmentation) of a request stream against the reference.
    Returns a list of (key, text)."""
    viol = []
    msgs = ref.parse_request_stream(data)
    got = r["reqs"]
    sts = [s for s in out_statuses(r["out"]) if s != 100]
    i = 0
    optional = False
    stopped = False
    suspect = None       # the previous message was delivered "correctly" only because its decoded body is empty, see below
    for k, m in enumerate(msgs):
        ctx = "message #%d at offset %d of stream %s" % (k, m.start, short(data, 400))
        v = m.verdict
        stats["ref_" + v] = stats.get("ref_" + v, 0) + 1
        unknown_method = (m.method is not None and m.method not in gen.KNOWN_TYPES)
        if v == 'incomplete':
            if i < len(got):
                viol.append((prefix + ":incomplete-message-delivered", "a request was delivered for a message the stream never completes: %s; %s" % (describe_req(got[i]), ctx)))
            stopped = True
            break
        if v == 'reject':
            if i < len(got):
                key = reject_key(prefix, m)
                if m.method in (b"HEAD", b"TRACE") and m.reject[0] != 'ws-before-colon':
                    # same root cause as the ignored body: the framing fields of HEAD/TRACE requests are never looked at
                    key = prefix + ":request-body-ignored:" + m.method.decode()
                viol.append((key, "RFC requires rejection (%s) but the callback got: %s; %s" % (",".join(m.reject), describe_req(got[i]), ctx)))
            else:
                stats["rejected_as_required"] = stats.get("rejected_as_required", 0) + 1
                if i < len(sts) and 200 <= sts[i] < 300:
                    viol.append((prefix + ":must-reject-answered-2xx", "status %d; %s" % (sts[i], ctx)))
            stopped = True
            break
        if m.opaque:
            stats["opaque"] = stats.get("opaque", 0) + 1
            stopped = True
            break
        # accept or either with a defined parse
        if i >= len(got):
            # (the suspicion needs a message that MUST be delivered: one the server may reject on its own account proves nothing)
            if suspect and not optional and v == 'accept' and not (unknown_method and not ext):
                viol.append((prefix + ":" + suspect, "the framing bytes of the previous message (empty decoded body) were not consumed and got parsed as a request, "
                             "so this message was not delivered; %s" % ctx))
            elif v == 'accept' and not optional and not (unknown_method and not ext):
                st = sts[i] if i < len(sts) else None
                viol.append((prefix + ":valid-request-rejected:" + primary_feature(m),
                             "a request the RFC grammar produces was not delivered (response status %s); features=%s; %s" % (st, sorted(m.features), ctx)))
            else:
                stats["either_rejected"] = stats.get("either_rejected", 0) + 1
            stopped = True
            break
        q = got[i]
        i += 1
        stats["delivered_judged"] = stats.get("delivered_judged", 0) + 1
        if v == 'either':
            stats["either_delivered"] = stats.get("either_delivered", 0) + 1
        et = gen.KNOWN_TYPES.get(m.method, gen.EXT_TYPE)
        ok = True
        if suspect and (q["t"] != et or q["u"] != m.target):
            viol.append((prefix + ":" + suspect, "the framing bytes of the previous message (empty decoded body) were not consumed and got parsed as a request: %s; %s" % (describe_req(q), ctx)))
            stopped = True
            break
        if q["t"] != et:
            viol.append((prefix + ":method-mismatch", "expected %r (type %#x) delivered type %#x; %s" % (m.method, et, q["t"], ctx)))
            ok = False
        if q["u"] != m.target:
            viol.append((prefix + ":target-mismatch", "expected %r delivered %r; %s" % (m.target, q["u"], ctx)))
            ok = False
        if q["v"] != m.version:
            viol.append((prefix + ":version-mismatch", "expected %r delivered %r; %s" % (m.version, q["v"], ctx)))
        compare_fields(prefix, m, m.headers, q["h"], viol, ctx)
        if q["b"] != m.body:
            ok = False
            if m.method in (b"HEAD", b"TRACE") and q["b"] == b"" and m.body:
                key = "request-body-ignored:" + m.method.decode()
            elif m.framing == 'chunked' and te_not_plain(m):
                key = "te-list-ending-chunked-misframed"
            elif m.framing == 'chunked' and any(n.lower() == b"transfer-encoding" and gv != ev for (n, ev), (_n, gv) in zip(m.headers, q["h"])):
                key = "te-value-not-normalised-misframed"
            elif unknown_method and not q["b"]:
                key = "request-body-ignored:ext-method"
            else:
                key = "body-mismatch:" + str(m.framing)
            viol.append((prefix + ":" + key, "expected body %s delivered %s; %s" % (short(m.body), short(q["b"]), ctx)))
        if not ok:
            stopped = True
            break
        if getattr(m, 'opaque_after', False):
            stats["judged_then_opaque"] = stats.get("judged_then_opaque", 0) + 1
            stopped = True
            break
        if m.closes:
            optional = True
        suspect = None
        if m.wire_body > 0 and not m.body:
            # nothing distinguishes "body read and empty" from "body framing ignored" in the delivered request; the next message tells
            if m.method in (b"HEAD", b"TRACE"):
                suspect = "request-body-ignored:" + m.method.decode()
            elif m.framing == 'chunked' and 'te-leading-htab' in m.features:
                suspect = "te-value-not-normalised-misframed"
            elif m.framing == 'chunked' and te_not_plain(m):
                suspect = "te-list-ending-chunked-misframed"
            elif unknown_method and not ext:
                suspect = None
    if not stopped and i < len(got):
        viol.append((prefix + ":extra-request-delivered", "delivered %d requests but the stream contains %d complete messages; extra: %s; stream %s" % (
            len(got), i, describe_req(got[i]), short(data, 400))))
    return viol


def judge_metamorphic(prefix, c, sigfn, viol, res):
    sigs = {}
    for name, _ in c.segs:
        r = c.results.get(name)
        if r is None:
            continue
        if r.get("noidle"):
            res.inconclusive.append("case %d.%s: harness could not reach quiescence (noidle=%s)" % (c.idx, name, r.get("noidle")))
            return
        sigs[name] = sigfn(r)
    base = sigs.get('one')
    for name, s in sigs.items():
        if s != base:
            viol.append((prefix + ":segmentation-dependent", "segmentation '%s' differs from one-shot delivery: %s  VS one-shot %s ; stream %s" % (
                name, short(s, 500), short(base, 500), short(c.data, 400))))
            break


# ----------------------------------------------------------------- C24 client oracle
def client_observed(r, nrq):
    obs = [dict(kind='pending') for _ in range(nrq)]
    for e in r["ev"]:
        i = e["i"]
        if e["k"] == "err":
            obs[i] = dict(kind='failed', err=e["e"])
        elif e["k"] == "done":
            if "code" in e and e["code"] != 0:
                obs[i] = dict(kind='delivered', code=e["code"], line=e["line"], v=tuple(e["v"]), h=e["h"], b=e["b"], hs=e.get("hs"), bs=e.get("bs"))
            elif obs[i]["kind"] != 'failed':
                obs[i] = dict(kind='failed', err=-1)
    return obs


def client_signature(r, nrq):
    out = []
    for o in client_observed(r, nrq):
        if o["kind"] == 'delivered':
            out.append(('delivered', o["code"], o["line"], o["v"], tuple(o["h"]), o["b"]))
        elif o["kind"] == 'failed':
            out.append(('failed',))
        else:
            out.append(('pending',))
    return tuple(out)


def describe_obs(o):
    if o["kind"] == 'delivered':
        return "delivered code=%d reason=%s HTTP/%d.%d headers=%s body=%s" % (o["code"], short(o["line"], 40), o["v"][0], o["v"][1], short(o["h"], 200), short(o["b"], 80))
    return o["kind"] + (" err=%s" % o.get("err") if o["kind"] == 'failed' else "")


def judge_client_result(prefix, c, r, stats):
    viol = []
    closed = c.end in ('X', 'F')
    obs = client_observed(r, len(c.requests))
    pos = 0
    state = 'active'
    suspect = None
    for i, method in enumerate(c.requests):
        o = obs[i]
        if state != 'active':
            stats["unjudged_after_" + state] = stats.get("unjudged_after_" + state, 0) + 1
            continue
        m = ref.parse_response(c.data, pos, method, closed)
        ctx = "request #%d (%s), response at offset %d of stream %s end=%s" % (i, method.decode(), pos, short(c.data, 400), c.end)
        v = m.verdict
        stats["ref_" + v] = stats.get("ref_" + v, 0) + 1
        if v == 'incomplete':
            if o["kind"] == 'delivered':
                if m.interim and o["code"] in [x.code for x in m.interim]:
                    key = "interim-1xx-treated-as-final:%d" % o["code"]
                elif no_length_conn_header(m) and o["b"] == b"":
                    key = "no-length-with-connection-field-treated-as-empty"
                elif 'te-not-chunked-close-delimited' in m.features and ref._field_values(m.headers, b"content-length"):
                    key = "te-not-chunked-content-length-used"
                elif m.phase in ('body-cl', 'chunk-data', 'chunk-line', 'trailers') or m.framing in ('cl', 'chunked'):
                    key = "truncated-response-delivered"
                else:
                    key = "incomplete-response-delivered"
                viol.append((prefix + ":" + key, "%s although the response is incomplete (phase %s); %s" % (describe_obs(o), m.phase, ctx)))
            elif closed and o["kind"] == 'pending':
                viol.append((prefix + ":no-completion-after-close", "peer closed inside the response (phase %s) but the request never completed; %s" % (m.phase, ctx)))
            else:
                stats["incomplete_" + o["kind"]] = stats.get("incomplete_" + o["kind"], 0) + 1
            state = 'dead'
            continue
        if v == 'reject':
            if o["kind"] == 'delivered':
                viol.append((reject_key(prefix, m), "RFC requires the response to be discarded (%s) but: %s; %s" % (",".join(m.reject), describe_obs(o), ctx)))
            else:
                stats["rejected_as_required"] = stats.get("rejected_as_required", 0) + 1
            state = 'dead'
            continue
        if m.opaque:
            stats["opaque"] = stats.get("opaque", 0) + 1
            state = 'opaque'
            continue
        if suspect and (o["kind"] != 'delivered' or o["code"] != m.code):
            viol.append((prefix + ":" + suspect, "the body framing bytes of the previous response (empty decoded body) were not consumed and were taken for this "
                         "request's response: %s; %s" % (describe_obs(o), ctx)))
            state = 'dead'
            continue
        if o["kind"] != 'delivered':
            if v == 'accept':
                if o["kind"] == 'pending':
                    viol.append((prefix + ":complete-response-not-delivered:" + primary_feature(m), "complete valid response but the request is still pending; features=%s; %s" % (sorted(m.features), ctx)))
                else:
                    viol.append((prefix + ":valid-response-failed:" + primary_feature(m), "a response the RFC grammar produces made the request fail (err=%s); features=%s; %s" % (
                        o.get("err"), sorted(m.features), ctx)))
            else:
                stats["either_failed"] = stats.get("either_failed", 0) + 1
            state = 'dead'
            continue
        stats["delivered_judged"] = stats.get("delivered_judged", 0) + 1
        if v == 'either':
            stats["either_delivered"] = stats.get("either_delivered", 0) + 1
        ok = True
        if o["code"] != m.code:
            if m.interim and o["code"] in [x.code for x in m.interim]:
                viol.append((prefix + ":interim-1xx-treated-as-final:%d" % o["code"], "%s but the final response is %d; %s" % (describe_obs(o), m.code, ctx)))
            else:
                viol.append((prefix + ":status-mismatch", "expected %d, %s; %s" % (m.code, describe_obs(o), ctx)))
            state = 'dead'
            continue
        if o["line"] != m.reason:
            viol.append((prefix + ":reason-mismatch", "expected %r delivered %r; %s" % (m.reason, o["line"], ctx)))
        if o["v"] != m.version:
            viol.append((prefix + ":version-mismatch", "expected %r delivered %r; %s" % (m.version, o["v"], ctx)))
        ih = []
        for x in m.interim:
            ih += x.headers
        goth = o["h"]
        if ih and goth[:len(ih)] == ih and len(goth) >= len(ih) + len(m.headers):
            viol.append((prefix + ":interim-headers-merged-into-final", "fields of the interim response(s) %s appear among the final response's fields; %s" % (short(ih), ctx)))
            goth = goth[len(ih):]
        compare_fields(prefix, m, m.headers, goth, viol, ctx)
        if o["b"] != m.body:
            ok = False
            if m.framing == 'chunked' and te_not_plain(m):
                key = "te-list-ending-chunked-misframed"
            elif no_length_conn_header(m) and o["b"] == b"":
                key = "no-length-with-connection-field-treated-as-empty"
            elif 'te-not-chunked-close-delimited' in m.features and ref._field_values(m.headers, b"content-length"):
                key = "te-not-chunked-content-length-used"
            elif m.framing == 'close' and o["b"] == b"":
                key = "close-delimited-body-dropped"
            elif method == b"CONNECT" and o["b"] == b"":
                key = "connect-non2xx-body-ignored"
            elif m.framing == 'chunked' and any(n.lower() == b"transfer-encoding" and gv != ev for (n, ev), (_n, gv) in zip(m.headers, o["h"])):
                key = "te-value-not-normalised-misframed"
            else:
                key = "body-mismatch:" + str(m.framing)
            viol.append((prefix + ":" + key, "expected body %s delivered %s; %s" % (short(m.body), short(o["b"]), ctx)))
        if not ok:
            state = 'dead'
            continue
        pos = m.end
        if m.closes:
            state = 'closed'
        suspect = None
        if m.wire_body > 0 and not m.body:
            # "body read and empty" and "body framing ignored" look the same in the callback; the next request tells
            if method == b"CONNECT":
                suspect = "connect-non2xx-body-ignored"
            elif m.framing == 'chunked' and 'te-leading-htab' in m.features:
                suspect = "te-value-not-normalised-misframed"
            elif m.framing == 'chunked' and te_not_plain(m):
                suspect = "te-list-ending-chunked-misframed"
    return viol


# ----------------------------------------------------------------- replay / bookkeeping shared by the three checks
def case_replay(prop, c):
    return dict(kind="http-case", prop=prop, mode=c.mode, opts=c.opts, data=hx(c.data), end=c.end,
                requests=[m.decode() for m in c.requests], segs=[[n, [hx(s) for s in segs]] for n, segs in c.segs], cfg=c.cfg)


def case_from_replay(p):
    c = Case(0, p["mode"], unhx(p["data"]), p["opts"], p.get("end"), [m.encode() for m in p.get("requests", [])], cfg=p.get("cfg") or {})
    c.segs = [(n, [unhx(s) for s in segs]) for n, segs in p["segs"]]
    return c


def stream_hash(c):
    h = hashlib.sha1(c.mode.encode() + c.opts.encode() + b"|" + c.data + b"|" + str(c.end).encode() + b"|" + b",".join(c.requests)).digest()
    return int.from_bytes(h[:8], "little")


def generic_replay(info, judge_case):
    """Re-execute one recorded violation.  judge_case(case, res) -> [(key, text)]."""
    rp = info.get("replay") or {}
    prop = info["property"]
    vlib.build(FLAVOR, [HARNESS])
    res = vlib.Result(prop)
    if rp.get("kind") == "http-case":
        c = case_from_replay(rp)
        run_cases(res, prop, [c], "replay")
        for name, _ in c.segs:
            r = c.results.get(name)
            print("--- segmentation %s: %s" % (name, json.dumps(r, default=lambda b: repr(b))[:1500] if r else "no trace"))
        viol = judge_case(c, res)
        keys = [k for k, _ in viol] + [v["key"] for v in res.viol]
        for k, t in viol:
            print("violation %s: %s" % (k, t[:800]))
        if info["key"] in keys:
            print("VIOLATION property=%s replay=(replayed) key=%s" % (prop, info["key"]))
            return 1
        print("not reproduced (keys now: %s)" % sorted(set(keys)))
        return 0
    pl = rp.get("payload") or {}
    line = pl.get("line")
    if not line and pl.get("script") and os.path.exists(pl["script"]):
        lines = [l for l in open(pl["script"]).read().splitlines() if l and not l.startswith("#")]
        k = rp.get("only", -1)
        line = lines[k] if 0 <= k < len(lines) else None
    if not line:
        print("replay: nothing to re-execute in %r" % (rp,))
        return 2
    wd = vlib.workdir(prop)
    path = os.path.join(wd, "%s-replay-line.script" % prop)
    open(path, "w").write(line + "\n")
    outs = vlib.run_jobs(res, FLAVOR, HARNESS, [dict(args=["--arg", path], tag="%s-replay-line" % prop)], env_extra=asan_env())
    sys.stdout.write(open(outs[0]["out"]).read()[-4000:])
    sys.stderr.write(open(outs[0]["err"]).read()[-6000:])
    if any(v["key"] == info["key"] for v in res.viol):
        print("VIOLATION property=%s replay=(replayed) key=%s" % (prop, info["key"]))
        return 1
    print("not reproduced (keys now: %s)" % sorted(set(v["key"] for v in res.viol)))
    return 0


# ----------------------------------------------------------------- C25 size-limit oracle
READ_QUANTUM = 16384     # CALIBRATED: a bufferevent sets its input evbuffer's max_read to max_single_read (16384): one read event moves at most that
SLACK = 256


def measure(kind, data):
    """(hdr_content, hdr_wire, body_len) of the first message according to the reference parser"""
    m = ref.parse_request(data, 0) if kind == 'request' else ref.parse_response(data, 0, b"GET", True)
    return m.hdr_content, m.hdr_wire, len(m.body or b"")


def _limits(cfg):
    mh = cfg.get("mh", -1)
    mb = cfg.get("mb", -1)
    return (None if mh < 0 else mh), (None if mb < 0 else mb)


def _lower_bound_checks(prefix, cfg, target, fields, body, viol, ctx):
    """Checks that need no reference: what was delivered itself must fit the limits."""
    mh, mb = _limits(cfg)
    low = len(target or b"") + sum(len(n) + len(v) for n, v in fields)
    if mh is not None and low > mh:
        viol.append((prefix + ":delivered-exceeds-max-headers-size", "delivered start-line+fields carry at least %d bytes > max_headers_size %d; %s" % (low, mh, ctx)))
    if mb is not None and len(body) > mb:
        viol.append((prefix + ":delivered-exceeds-max-body-size", "delivered body has %d bytes > max_body_size %d; %s" % (len(body), mb, ctx)))


def _buffer_bound(prefix, cfg, r, last, viol, ctx):
    mh, mb = _limits(cfg)
    if mh is None or mb is None:
        return
    # CALIBRATED: two read quanta.  While a reply to the previous pipelined request is being flushed evhttp keeps EV_READ enabled
    # (close detection) with no read callback, so one more read can land in the input buffer before parsing resumes.
    bound = mh + mb + 2 * READ_QUANTUM + SLACK
    hw = max(r.get("hwx", 0), r.get("hw", 0))
    if hw > bound:
        phase = last.phase if (last is not None and last.verdict == 'incomplete') else 'complete-message'
        viol.append((prefix + ":unbounded-buffering:" + phase,
                     "input evbuffer reached %d bytes with max_headers_size=%d max_body_size=%d (bound %d = limits + two read quanta + %d); %s" % (
                         hw, mh, mb, bound, SLACK, ctx)))


def judge_limits_server(prefix, c, r, stats):
    """-> (violations, band) ; band=True when a message sits between the two ways of measuring a header section
    (with / without line terminators), where accept and reject are both fine and may depend on the segmentation."""
    viol = []
    cfg = c.cfg
    mh, mb = _limits(cfg)
    data = c.data
    msgs = ref.parse_request_stream(data)
    got = r["reqs"]
    sts = [s for s in out_statuses(r["out"]) if s != 100]
    ctx0 = "limits mh=%s mb=%s ling=%s stream %s" % (cfg.get("mh"), cfg.get("mb"), cfg.get("ling"), short(data, 200))
    for q in got:
        _lower_bound_checks(prefix, cfg, q["u"], q["h"], q["b"], viol, ctx0)
    band = False
    i = 0
    last = msgs[-1] if msgs else None
    for k, m in enumerate(msgs):
        ctx = "message #%d; %s" % (k, ctx0)
        v = m.verdict
        if v == 'incomplete':
            if i < len(got):
                viol.append((prefix + ":incomplete-message-delivered", "%s; %s" % (describe_req(got[i]), ctx)))
            # an unfinished element already beyond the limit must not be waited for indefinitely while buffering: see buffer bound
            if m.phase in ('body-cl',) and mb is not None and m.announced_end is not None and m.announced_end - m.hdr_end > mb and cfg.get("ling"):
                _check_lingering(prefix, cfg, r, m, viol, ctx)
            break
        if v != 'accept' or m.closes:
            stats["unjudged"] = stats.get("unjudged", 0) + 1
            # the band (limit between the two measures of the header section) exists whatever the reference's verdict is:
            # inside it accept/reject may depend on the segmentation, so the metamorphic comparison must be skipped too
            if mh is not None and getattr(m, "hdr_content", None) is not None and m.hdr_content <= mh < (m.hdr_wire + getattr(m, "trailer_wire", 0)):
                band = True
            break
        n = len(m.body)
        over_h = mh is not None and m.hdr_content > mh
        under_h = mh is None or (m.hdr_wire + m.trailer_wire) <= mh
        over_b = mb is not None and n > mb
        if over_h or over_b:
            stats["over_limit_messages"] = stats.get("over_limit_messages", 0) + 1
            if i < len(got):
                key = "header-over-limit-delivered" if over_h else "body-over-limit-delivered:" + str(m.framing)
                viol.append((prefix + ":" + key, "header content %d bytes, body %d bytes; delivered %s; %s" % (m.hdr_content, n, describe_req(got[i]), ctx)))
            else:
                st = sts[i] if i < len(sts) else None
                stats["over_limit_status_%s" % st] = stats.get("over_limit_status_%s" % st, 0) + 1
                if st is not None and not (400 <= st < 600):
                    viol.append((prefix + ":over-limit-answered-%s" % st, "an over-limit message must be answered 413/400 or the connection closed; %s" % ctx))
                if st is None and not r["closed_before_fin"] and r.get("alive_at_end"):
                    stats["over_limit_waiting_until_eof"] = stats.get("over_limit_waiting_until_eof", 0) + 1
            if over_b and not over_h and m.framing == 'cl' and cfg.get("ling"):
                _check_lingering(prefix, cfg, r, m, viol, ctx)
            break
        if under_h:
            if i >= len(got):
                st = sts[i] if i < len(sts) else None
                viol.append((prefix + ":within-limit-message-rejected", "header section %d bytes on the wire (+%d trailer), body %d bytes, status %s; %s" % (
                    m.hdr_wire, m.trailer_wire, n, st, ctx)))
                break
            q = got[i]
            i += 1
            stats["within_limit_delivered"] = stats.get("within_limit_delivered", 0) + 1
            if q["u"] != m.target or q["b"] != m.body:
                viol.append((prefix + ":delivered-message-differs", "expected target %s body %s, delivered %s; %s" % (short(m.target, 40), short(m.body, 60), describe_req(q), ctx)))
                break
            continue
        # band
        band = True
        stats["band_messages"] = stats.get("band_messages", 0) + 1
        if i < len(got) and got[i]["u"] == m.target and got[i]["b"] == m.body:
            i += 1
            continue
        break
    _buffer_bound(prefix, cfg, r, last, viol, ctx0)
    return viol, band


def _check_lingering(prefix, cfg, r, m, viol, ctx):
    """with lingering close the over-limit body is drained, but never beyond its announced end"""
    if m.announced_end is None:
        return
    if r.get("del", 0) > m.announced_end:
        viol.append((prefix + ":lingering-drain-beyond-announced-length", "%d bytes were consumed from the input buffer but the over-limit message ends at offset %d; %s" % (
            r.get("del", 0), m.announced_end, ctx)))


def judge_limits_client(prefix, c, r, stats):
    viol = []
    cfg = c.cfg
    mh, mb = _limits(cfg)
    closed = c.end in ('X', 'F')
    obs = client_observed(r, len(c.requests))
    ctx0 = "limits mh=%s mb=%s requests=%s end=%s stream %s" % (cfg.get("mh"), cfg.get("mb"), [x.decode() for x in c.requests], c.end, short(c.data, 200))
    for o in obs:
        if o["kind"] == 'delivered':
            _lower_bound_checks(prefix, cfg, o["line"], o["h"], o["b"], viol, ctx0)
    band = False
    pos = 0
    last = None
    for i, method in enumerate(c.requests):
        o = obs[i]
        m = ref.parse_response(c.data, pos, method, closed)
        last = m
        ctx = "request #%d; %s" % (i, ctx0)
        v = m.verdict
        if v == 'incomplete':
            if o["kind"] == 'delivered':
                viol.append((prefix + ":incomplete-response-delivered", "%s; %s" % (describe_obs(o), ctx)))
            break
        if v != 'accept' or m.interim:
            stats["unjudged"] = stats.get("unjudged", 0) + 1
            if mh is not None and getattr(m, "hdr_content", None) is not None and m.hdr_content <= mh < (m.hdr_wire + getattr(m, "trailer_wire", 0)):
                band = True   # see judge_limits_server
            break
        n = len(m.body)
        over_h = mh is not None and m.hdr_content > mh
        under_h = mh is None or (m.hdr_wire + m.trailer_wire) <= mh
        over_b = mb is not None and n > mb
        if over_h or over_b:
            stats["over_limit_messages"] = stats.get("over_limit_messages", 0) + 1
            if o["kind"] == 'delivered':
                key = "header-over-limit-delivered" if over_h else "body-over-limit-delivered:" + str(m.framing)
                viol.append((prefix + ":" + key, "header content %d bytes, body %d bytes; %s; %s" % (m.hdr_content, n, describe_obs(o), ctx)))
            else:
                stats["over_limit_" + o["kind"]] = stats.get("over_limit_" + o["kind"], 0) + 1
            break
        if under_h:
            if o["kind"] != 'delivered':
                viol.append((prefix + ":within-limit-message-rejected", "header section %d bytes on the wire, body %d bytes, outcome %s; %s" % (m.hdr_wire, n, describe_obs(o), ctx)))
                break
            stats["within_limit_delivered"] = stats.get("within_limit_delivered", 0) + 1
            if o["code"] != m.code or o["b"] != m.body:
                viol.append((prefix + ":delivered-message-differs", "expected %d body %s, %s; %s" % (m.code, short(m.body, 60), describe_obs(o), ctx)))
                break
            pos = m.end
            if m.closes:
                break
            continue
        band = True
        stats["band_messages"] = stats.get("band_messages", 0) + 1
        if o["kind"] == 'delivered' and o["code"] == m.code and o["b"] == m.body and not m.closes:
            pos = m.end
            continue
        break
    _buffer_bound(prefix, cfg, r, last, viol, ctx0)
    return viol, band


def run_batched(res, prop, case_iter, tier, batch, judge_case, account):
    """Pull cases from the generator `batch` at a time (bounded memory), run them, judge them, drop them."""
    nexec = 0
    b = 0
    chunk = []

    def flush():
        nonlocal nexec, b, chunk
        if not chunk:
            return
        nexec += run_cases(res, prop, chunk, "%s-b%d" % (tier, b))
        for c in chunk:
            if len(c.results) != len(c.segs):
                res.add_stat("cases_without_trace", len(c.segs) - len(c.results))
                continue
            account(c, res)
            for k, t in judge_case(c, res):
                if sum(1 for v in res.viol if v["key"] == k) < 3:
                    res.add_viol(k, t, case_replay(prop, c))
        b += 1
        chunk = []
    for c in case_iter:
        chunk.append(c)
        if len(chunk) >= batch:
            flush()
    flush()
    res.evaluations = nexec
    missing = res.stats.get("cases_without_trace", 0)
    if missing:
        res.inconclusive.append("%d executions produced no trace" % missing)
