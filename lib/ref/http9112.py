"""RFC 9112 / RFC 9110 reference parser for HTTP/1.x message streams with a
tri-state verdict per message (DESIGN §2.6, Appendix A).

Independent of libevent: written from the RFC text.  For every message of a
stream it answers
  * verdict 'accept'     - the grammar of RFC 9112 §2-§7 produces it; the exact parse is given
  * verdict 'reject'     - a MUST-level rule forbids processing it (reasons name the rule)
  * verdict 'either'     - the RFC leaves the recipient a choice (MAY/SHOULD, or "reject or
                           repair"); when the alternative to rejecting is defined by the RFC the
                           repaired parse is given (lenient parse), otherwise the message is
                           `opaque` and nothing after it can be judged
  * status 'incomplete'  - the stream ends inside the message
Only MUST-level requirements ever become 'reject'.

Rules implemented (section numbers of RFC 9112 unless noted):
  R1  §2.2  lines end in CRLF; a bare LF MAY be accepted                      -> either(bare-lf)
  R2  §2.2  bare CR: invalid, or replace by SP                                -> either(bare-cr) value with SP
  R3  §2.2  empty line(s) before a request-line SHOULD be ignored             -> either(leading-empty-line)
  R4  §2.2  whitespace-preceded line between start-line and first field:
            reject or consume without processing                               -> either(leading-fold), line dropped
  R5  §3    request-line = token SP target SP HTTP/d.d ; invalid => SHOULD 400 -> either, opaque
  R6  §5.1  whitespace between field name and colon: server MUST reject        -> reject(ws-before-colon)
            (responses: proxies remove it; a user agent is not told what to do   -> either, opaque)
  R7  §5.2  obs-fold in a request: reject or replace by SP                     -> either(obs-fold) value unfolded
            in a response: user agent MUST replace by SP                       -> accept, value unfolded (soft ws)
  R8  9110 §5.5 CR/LF/NUL in a field value: reject or replace by SP           -> either(nul) value with SP
            other CTLs MAY be retained                                         -> either(ctl) retained
  R9  §6.1  Transfer-Encoding in an HTTP/1.0 message: framing faulty           -> either, opaque
  R10 §6.3.4 request with Transfer-Encoding whose final coding is not chunked -> reject(te-not-final-chunked)
            response: body is close-delimited
  R11 §6.3.3 Transfer-Encoding and Content-Length both present: TE overrides,
            "ought to be handled as an error"                                  -> either(te-and-cl), TE framing
  R12 §6.3.5 / 9110 §8.6 invalid Content-Length (not 1*DIGIT, differing
            values) without Transfer-Encoding                                  -> reject(cl-*)
            several identical values (list or repeated field) MAY be accepted  -> either(cl-identical-list)
  R13 §7.1  chunk-size = 1*HEXDIG, chunk-ext MUST be parsed/ignored, BWS allowed,
            trailer section after the last chunk                               -> accept
            chunk-size that is not 1*HEXDIG                                    -> reject(chunk-size-invalid)
            other framing damage of the chunked coding                         -> either, opaque
  R14 9110 §6.5.1 trailer fields MUST NOT be merged into the header section
            unless the field definition permits                                -> trailers reported separately
  R15 9110 §15.2 a client MUST be able to parse 1xx interim responses before the final one
  R16 §6.3.1 HEAD / 1xx / 204 / 304 responses have no body; 2xx to CONNECT switches to a tunnel
  R17 §6.3.7/8 request without TE/CL has no body; response without is close-delimited
  R18 §8    a response cut short (CL not reached, chunked not terminated) is incomplete -> failure
"""
import re

TCHAR = frozenset(b"!#$%&'*+-.^_`|~0123456789ABCDEFGHIJKLMNOPQRSTUVWXYZabcdefghijklmnopqrstuvwxyz")
HEXDIG = frozenset(b"0123456789abcdefABCDEF")
DIGITS = frozenset(b"0123456789")
_TOKEN_RE = re.compile(rb"[!#$%&'*+\-.^_`|~0-9A-Za-z]+")
_REQLINE_RE = re.compile(rb"([!#$%&'*+\-.^_`|~0-9A-Za-z]+) ([\x21-\x7e\x80-\xff]+) HTTP/([0-9])\.([0-9])")
_STATUS_RE = re.compile(rb"HTTP/([0-9])\.([0-9]) ([0-9]{3})(?: ([\t \x21-\x7e\x80-\xff]*))?")
_PCT = rb"%[0-9A-Fa-f]{2}"
_PCHARS = rb"[A-Za-z0-9\-._~!$&'()*+,;=:@]"
_ORIGIN_RE = re.compile(rb"(?:/(?:" + _PCHARS + rb"|" + _PCT + rb")*)+(?:\?(?:" + _PCHARS + rb"|[/?]|" + _PCT + rb")*)?")
_ABS_RE = re.compile(rb"https?://[A-Za-z0-9\-.]+(?::[0-9]{1,5})?(?:/(?:" + _PCHARS + rb"|" + _PCT + rb")*)*(?:\?(?:" + _PCHARS + rb"|[/?]|" + _PCT + rb")*)?")
_AUTH_RE = re.compile(rb"[A-Za-z0-9\-.]+:[0-9]{1,5}")


class Msg(object):
    """One parsed message.  Fields not determinable are None."""

    def __init__(self, kind, start):
        self.kind = kind              # 'request' | 'response'
        self.start = start
        self.end = None               # offset just after the message (None: framing unknown / incomplete)
        self.status = 'ok'            # 'ok' | 'incomplete'
        self.reject = []              # MUST-level reasons
        self.either = []              # MAY/SHOULD/repair reasons
        self.opaque = False           # an 'either' reason without an RFC-defined repaired parse
        self.opaque_after = False     # this message has a defined parse, what follows it on the stream cannot be judged
        self.features = set()
        self.method = None
        self.target = None
        self.version = None
        self.code = None
        self.reason = None
        self.headers = []             # [(name, value)] header section, OWS removed, obs-fold unfolded to one SP
        self.trailers = []
        self.body = None
        self.framing = None           # 'none' | 'cl' | 'chunked' | 'close'
        self.soft_ws = False          # field values compared modulo runs of SP/HTAB (obs-fold repaired)
        self.hdr_end = None           # offset after the blank line ending the header section
        self.hdr_wire = 0             # bytes of the header section on the wire incl. start line and terminators
        self.hdr_content = 0          # same without the line terminators (sum of line lengths)
        self.closes = False           # connection does not persist after this message
        self.interim = []             # (responses) skipped 1xx messages [(code, headers)]
        self.wire_body = 0            # bytes occupied by the body on the wire
        self.close_delimited = False
        self.partial_body_len = 0
        self.trailer_wire = 0         # bytes of the trailer section on the wire (incl. its terminating blank line)
        self.phase = 'start-line'      # where parsing stood when the stream ended (status 'incomplete')
        self.announced_end = None     # hdr_end + Content-Length when that is known (even if the body is incomplete)

    @property
    def verdict(self):
        if self.status != 'ok':
            return 'incomplete'
        if self.reject:
            return 'reject'
        if self.either:
            return 'either'
        return 'accept'

    def __repr__(self):
        return "<Msg %s %s %r %r rej=%s eith=%s opq=%s end=%s>" % (self.kind, self.verdict, self.method or self.code,
                                                                   self.target, self.reject, self.either, self.opaque, self.end)


class _Incomplete(Exception):
    pass


def _read_line(buf, pos):
    """-> (line without terminator, next pos, 'crlf'|'lf') or raise _Incomplete."""
    i = buf.find(b"\n", pos)
    if i < 0:
        raise _Incomplete()
    if i > pos and buf[i - 1] == 0x0d:
        return buf[pos:i - 1], i + 1, 'crlf'
    return buf[pos:i], i + 1, 'lf'


def _ows_strip(v):
    return v.strip(b" \t")


def _collapse_ws(v):
    return re.sub(rb"[ \t]+", b" ", v).strip(b" ")


def _parse_fields(m, buf, pos, is_request, first_section=True):
    """Parse a header or trailer section starting at pos.  Returns (fields, pos_after_blank_line).
    Flags are recorded on m.  Raises _Incomplete."""
    fields = []
    first = True
    content = 0
    start = pos
    while True:
        line, npos, eol = _read_line(buf, pos)
        content += len(line)
        if eol == 'lf':
            _add(m.either, 'bare-lf')
        pos = npos
        if line == b"":
            break
        if line[0] in (0x20, 0x09):
            if first and not fields:
                # R4: whitespace-preceded line before the first field
                _add(m.either, 'leading-fold')
                continue
            if not fields:
                _add(m.either, 'leading-fold')
                continue
            # R7 obs-fold
            if is_request:
                _add(m.either, 'obs-fold')
            else:
                m.features.add('obs-fold')
            m.soft_ws = True
            name, val = fields[-1]
            fields[-1] = (name, (val + b" " + _ows_strip(line)).strip(b" "))
            continue
        first = False
        colon = line.find(b":")
        if colon <= 0:
            _add(m.either, 'bad-field-line')
            m.opaque = True
            continue
        name = line[:colon]
        val = line[colon + 1:]
        if name[-1] in (0x20, 0x09):
            stripped = name.rstrip(b" \t")
            if stripped and all(c in TCHAR for c in stripped):
                if is_request:
                    _add(m.reject, 'ws-before-colon')       # R6
                else:
                    # no rule tells a user agent what to do with it (proxies MUST remove it): not judged
                    _add(m.either, 'ws-before-colon')
                    m.opaque = True
                name = stripped
            else:
                _add(m.either, 'bad-field-name')
                m.opaque = True
        elif not all(c in TCHAR for c in name):
            _add(m.either, 'bad-field-name')
            m.opaque = True
        if name.lower() == b"transfer-encoding" and val.lstrip(b" ")[:1] == b"\t":
            m.features.add('te-leading-htab')
        if b"\x00" in val:
            _add(m.either, 'nul')                           # R8
            val = val.replace(b"\x00", b" ")
        if b"\r" in val:
            _add(m.either, 'bare-cr')                       # R2
            val = val.replace(b"\r", b" ")
        if any((c < 0x20 and c != 0x09) or c == 0x7f for c in val):
            _add(m.either, 'ctl')
        fields.append((name, _ows_strip(val)))
    return fields, pos, content, pos - start


def _add(lst, x):
    if x not in lst:
        lst.append(x)


def _field_values(fields, lname):
    return [v for (n, v) in fields if n.lower() == lname]


def _connection_tokens(fields):
    toks = []
    for v in _field_values(fields, b"connection"):
        toks += [t.strip(b" \t").lower() for t in v.split(b",")]
    return toks


def _te_codings(fields):
    """-> list of coding tokens (lower-case, parameters dropped) or None when the list is malformed."""
    vals = _field_values(fields, b"transfer-encoding")
    out = []
    for v in vals:
        for el in v.split(b","):
            el = el.strip(b" \t")
            if el == b"":
                continue                                    # empty list elements are ignored (9110 §5.6.1)
            name = el.split(b";")[0].strip(b" \t")
            if not _TOKEN_RE.fullmatch(name):
                return None
            out.append((name.lower(), b";" in el))
    return out


def _content_length(m, fields):
    """R12.  -> (n or None).  Records reject/either reasons."""
    vals = _field_values(fields, b"content-length")
    elems = []
    for v in vals:
        parts = [p.strip(b" \t") for p in v.split(b",")]
        elems += parts
    nums = set()
    bad = None
    for e in elems:
        if e and all(c in DIGITS for c in e):
            nums.add(int(e))
            continue
        if e[:1] == b"+" and e[1:] and all(c in DIGITS for c in e[1:]):
            bad = bad or 'cl-plus-sign'
        elif e[:1] == b"-" and e[1:] and all(c in DIGITS for c in e[1:]):
            bad = bad or 'cl-minus-sign'
        elif e == b"":
            bad = bad or 'cl-empty'
        else:
            bad = bad or 'cl-nondigit'
    if bad:
        _add(m.reject, bad)
        if len(elems) > 1:
            m.features.add('cl-multi')
        return None
    if len(nums) > 1:
        _add(m.reject, 'cl-conflict')
        return None
    if len(elems) > 1:
        _add(m.either, 'cl-identical-list')
    return nums.pop()


_EXT_RE = re.compile(rb"(?:[ \t]*;[ \t]*[!#$%&'*+\-.^_`|~0-9A-Za-z]+(?:[ \t]*=[ \t]*(?:[!#$%&'*+\-.^_`|~0-9A-Za-z]+|\"(?:[^\"\\\x00-\x08\x0a-\x1f\x7f]|\\[\t \x21-\x7e\x80-\xff])*\"))?)*[ \t]*")


def _parse_chunked(m, buf, pos, is_request):
    """R13/R14.  Returns pos after the trailer section; sets m.body, m.trailers.  Raises _Incomplete.
    On damage sets reject/either(+opaque) and returns None."""
    body = []
    while True:
        m.phase = 'chunk-line'
        line, npos, eol = _read_line(buf, pos)
        if eol == 'lf':
            _add(m.either, 'bare-lf')
        # chunk-size
        k = 0
        while k < len(line) and line[k] in HEXDIG:
            k += 1
        if k == 0:
            if line == b"":
                # an empty line where a chunk-size is expected (extra CRLF between chunks): not in the grammar,
                # no MUST about it; tolerant parsers skip it
                _add(m.either, 'chunk-extra-empty-line')
                m.opaque = True
                return None
            _add(m.reject, 'chunk-size-invalid')
            return None
        rest = line[k:]
        if rest:
            if _EXT_RE.fullmatch(rest) and (b";" in rest):
                m.features.add('chunk-ext')
                if rest[:1] in (b" ", b"\t"):
                    m.features.add('chunk-ext-bws')
            elif rest.strip(b" \t") == b"":
                # trailing whitespace after the size: not in the grammar, harmless
                _add(m.either, 'chunk-size-trailing-ws')
            else:
                _add(m.either, 'chunk-ext-malformed')
                m.opaque = True
                return None
        if k > 1 and line[0] == 0x30 and int(line[:k], 16) != 0:
            m.features.add('chunk-size-leading-zero')
        size = int(line[:k], 16)
        pos = npos
        if size == 0:
            if k > 1:
                m.features.add('last-chunk-multi-zero')
            break
        m.phase = 'chunk-data'
        m.partial_body_len = sum(len(x) for x in body) + min(size, len(buf) - pos)
        if len(buf) - pos < size:
            raise _Incomplete()
        body.append(buf[pos:pos + size])
        pos += size
        # CRLF after chunk-data
        if len(buf) - pos < 1:
            raise _Incomplete()
        if buf[pos:pos + 2] == b"\r\n":
            pos += 2
        elif buf[pos:pos + 1] == b"\n":
            _add(m.either, 'bare-lf')
            pos += 1
        elif buf[pos:pos + 1] == b"\r" and len(buf) - pos < 2:
            raise _Incomplete()
        else:
            _add(m.either, 'chunk-data-not-terminated')
            m.opaque = True
            return None
        m.features.add('chunk')
    m.phase = 'trailers'
    sub = Msg(m.kind, pos)
    trailers, pos, _c, _w = _parse_fields(sub, buf, pos, is_request, first_section=False)
    m.trailer_wire = _w
    for r in sub.reject:
        _add(m.reject, r)
    for r in sub.either:
        _add(m.either, r)
    if sub.opaque or 'leading-fold' in sub.either:
        # a whitespace-preceded first trailer line has nothing to fold into: invalid, no repair defined
        m.opaque = True
    if sub.soft_ws:
        m.soft_ws = True
    if trailers:
        m.features.add('trailers')
    m.trailers = trailers
    m.body = b"".join(body)
    return pos


def classify_target(method, target):
    """-> None when the target is in a form RFC 9112 §3.2 allows for the method and uses only URI
    characters; otherwise a reason string."""
    if method == b"CONNECT":
        return None if _AUTH_RE.fullmatch(target) else 'target-form'
    if target == b"*":
        return None if method == b"OPTIONS" else 'target-form'
    if target[:1] == b"/":
        return None if _ORIGIN_RE.fullmatch(target) else 'target-chars'
    if _ABS_RE.fullmatch(target):
        return None
    return 'target-form'


def parse_request(buf, pos=0):
    m = Msg('request', pos)
    try:
        # R3 leading empty lines
        while True:
            line, npos, eol = _read_line(buf, pos)
            if line != b"":
                break
            _add(m.either, 'leading-empty-line')
            if eol == 'lf':
                _add(m.either, 'bare-lf')
            pos = npos
        hdr_start = pos
        if eol == 'lf':
            _add(m.either, 'bare-lf')
        mm = _REQLINE_RE.fullmatch(line)
        if mm and len(line) < 14:
            m.features.add('request-line-shorter-than-14')
        if not mm:
            _add(m.either, 'bad-request-line')              # R5
            m.opaque = True
            m.end = None
            return m
        m.method, m.target = mm.group(1), mm.group(2)
        m.version = (int(mm.group(3)), int(mm.group(4)))
        if m.version[0] != 1:
            _add(m.either, 'version-major')
            m.opaque = True
            return m
        if m.version[1] > 1:
            _add(m.either, 'version-minor')
        t = classify_target(m.method, m.target)
        if t:
            _add(m.either, t)
        pos = npos
        m.phase = 'headers'
        m.headers, pos, content, wire = _parse_fields(m, buf, pos, True)
        m.phase = 'body'
        m.hdr_end = pos
        m.hdr_wire = pos - hdr_start
        m.hdr_content = content + len(line)
        if m.opaque:
            return m
        # ---- framing (§6.3)
        te = _field_values(m.headers, b"transfer-encoding")
        cl = _field_values(m.headers, b"content-length")
        toks = _connection_tokens(m.headers)
        if m.version == (1, 0):
            m.closes = b"keep-alive" not in toks
        else:
            m.closes = b"close" in toks
        exp = [v.lower() for v in _field_values(m.headers, b"expect")]
        if exp:
            if all(v == b"100-continue" for v in exp) and m.version >= (1, 1):
                m.features.add('expect-100')
            elif m.version >= (1, 1):
                _add(m.either, 'expect-other')               # 9110 §10.1.1: MAY 417
            else:
                m.features.add('expect-in-1.0')
        if te:
            if m.version == (1, 0):
                # R9: the framing is faulty -> reject, or (6.3: Transfer-Encoding overrides Content-Length) process it with the
                # Transfer-Encoding framing and close.  What is NOT among the outcomes is framing the message by its
                # Content-Length / as bodiless and reading the chunks as the next request (seed C23-4).  So: either, with the
                # TE parse as the only accepted delivery, and nothing after it judged.
                _add(m.either, 'te-in-http10')
                m.opaque_after = True
            cod = _te_codings(m.headers)
            if not cod or cod[-1][0] != b"chunked":
                _add(m.reject, 'te-not-final-chunked')       # R10
                return m
            if cod[-1][1]:
                _add(m.either, 'te-chunked-params')
                m.opaque = True
                return m
            if len(cod) > 1:
                if any(c[0] == b"chunked" for c in cod[:-1]):
                    _add(m.either, 'te-chunked-twice')
                    m.opaque = True
                    return m
                _add(m.either, 'te-other-codings')           # SHOULD 501 for codings it does not understand
            if cl:
                _add(m.either, 'te-and-cl')                  # R11
            m.framing = 'chunked'
            if m.reject:
                return m
            body_start = pos
            e = _parse_chunked(m, buf, pos, True)
            if e is None:
                return m
            m.end = e
            m.wire_body = e - body_start
            return m
        if cl:
            n = _content_length(m, m.headers)
            if n is None:
                return m
            m.framing = 'cl'
            m.announced_end = pos + n
            m.phase = 'body-cl'
            if m.reject:
                return m
            if len(buf) - pos < n:
                raise _Incomplete()
            m.body = buf[pos:pos + n]
            m.end = pos + n
            m.wire_body = n
            return m
        m.framing = 'none'
        m.body = b""
        m.end = pos
        return m
    except _Incomplete:
        m.status = 'incomplete'
        m.end = None
        return m


def parse_request_stream(buf):
    """-> list of Msg; stops after the first message whose end is unknown."""
    out = []
    pos = 0
    while pos < len(buf):
        m = parse_request(buf, pos)
        out.append(m)
        if m.end is None or m.reject:
            break
        pos = m.end
    return out


def _parse_one_response(buf, pos, method, closed):
    """One response message (interim or final) starting at pos."""
    m = Msg('response', pos)
    try:
        line, npos, eol = _read_line(buf, pos)
        if eol == 'lf':
            _add(m.either, 'bare-lf')
        mm = _STATUS_RE.fullmatch(line)
        if not mm:
            _add(m.either, 'bad-status-line')
            m.opaque = True
            return m
        m.version = (int(mm.group(1)), int(mm.group(2)))
        m.code = int(mm.group(3))
        m.reason = mm.group(4)
        if m.reason is None:
            m.reason = b""
            _add(m.either, 'status-no-sp')                   # §4: server MUST send the SP; recipient free
        if m.version[0] != 1:
            _add(m.either, 'version-major')
            m.opaque = True
            return m
        if m.version[1] > 1:
            _add(m.either, 'version-minor')
        if m.code < 100:
            _add(m.either, 'status-below-100')
            m.opaque = True
            return m
        pos = npos
        m.phase = 'headers'
        m.headers, pos, content, wire = _parse_fields(m, buf, pos, False)
        m.phase = 'body'
        m.hdr_end = pos
        m.hdr_wire = pos - m.start
        m.hdr_content = content + len(line)
        if m.opaque:
            return m
        toks = _connection_tokens(m.headers)
        if m.version == (1, 0):
            m.closes = b"keep-alive" not in toks
        else:
            m.closes = b"close" in toks
        te = _field_values(m.headers, b"transfer-encoding")
        cl = _field_values(m.headers, b"content-length")
        # R16
        if method == b"HEAD" or 100 <= m.code < 200 or m.code in (204, 304):
            m.framing = 'none'
            m.body = b""
            m.end = pos
            if te or cl:
                m.features.add('framing-headers-on-bodyless')
            return m
        if method == b"CONNECT" and 200 <= m.code < 300:
            m.framing = 'none'
            m.body = b""
            m.end = pos
            m.features.add('connect-tunnel')
            m.closes = True      # the connection is a tunnel from here on; nothing after it is HTTP
            return m
        if te:
            if m.version == (1, 0):
                _add(m.either, 'te-in-http10')
                m.opaque = True
                return m
            cod = _te_codings(m.headers)
            if cl:
                _add(m.either, 'te-and-cl')
            if cod and cod[-1][0] == b"chunked" and not cod[-1][1]:
                if len(cod) > 1:
                    if any(c[0] == b"chunked" for c in cod[:-1]):
                        _add(m.either, 'te-chunked-twice')
                        m.opaque = True
                        return m
                    _add(m.either, 'te-other-codings')
                m.framing = 'chunked'
                body_start = pos
                e = _parse_chunked(m, buf, pos, False)
                if e is None:
                    return m
                m.end = e
                m.wire_body = e - body_start
                return m
            if cod is None:
                _add(m.either, 'te-malformed')
                m.opaque = True
                return m
            if cod and any(c[0] == b"chunked" for c in cod):
                # chunked applied but not last (a sender MUST NOT do that): nothing sensible to derive
                _add(m.either, 'te-chunked-not-final')
                m.opaque = True
                return m
            # final coding not chunked: close-delimited (§6.3.4)
            m.features.add('te-not-chunked-close-delimited')
            return _close_delimited(m, buf, pos, closed)
        if cl:
            n = _content_length(m, m.headers)
            if n is None:
                return m
            m.framing = 'cl'
            m.announced_end = pos + n
            m.phase = 'body-cl'
            if len(buf) - pos < n:
                raise _Incomplete()
            m.body = buf[pos:pos + n]
            m.end = pos + n
            m.wire_body = n
            return m
        return _close_delimited(m, buf, pos, closed)
    except _Incomplete:
        m.status = 'incomplete'
        m.end = None
        return m


def _close_delimited(m, buf, pos, closed):
    m.framing = 'close'
    m.close_delimited = True
    m.closes = True
    if not closed:
        m.status = 'incomplete'
        m.body = buf[pos:]
        return m
    m.body = buf[pos:]
    m.wire_body = len(m.body)
    m.end = len(buf)
    return m


def parse_response(buf, pos, method, closed):
    """The final response for one request: skips interim 1xx responses (R15).  `closed` says whether the
    peer closed the connection after the last byte of buf."""
    interim = []
    while True:
        m = _parse_one_response(buf, pos, method, closed)
        if m.status != 'ok' or m.opaque or m.reject or m.end is None:
            m.interim = interim
            return m
        if 100 <= m.code < 200:
            if m.code == 101:
                _add(m.either, 'switching-protocols')
                m.opaque = True
                m.interim = interim
                return m
            interim.append(m)
            if m.either:
                # an interim response the recipient may refuse: everything after is up to it
                m.interim = interim[:-1]
                return m
            pos = m.end
            if pos >= len(buf):
                inc = Msg('response', pos)
                inc.status = 'incomplete'
                inc.interim = interim
                return inc
            continue
        m.interim = interim
        if interim:
            m.features.add('after-interim')
        return m
