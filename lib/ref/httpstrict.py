"""Strict single-message HTTP/1.x reference parser for C26/C27/C30 (RFC 9112).

Independent of libevent (and of lib/ref/http9112.py, which belongs to the
C23-C25 checks).  It parses exactly ONE message from the front of a byte
string and reports how many bytes it consumed; the caller decides what
trailing bytes mean.

Tolerances (all are things RFC 9112 lets a *recipient* do; they are chosen so
that the oracle never demands more than the RFC does):
  * a bare LF is accepted as a line terminator (RFC 9112 2.2 MAY), a CR in
    front of it is dropped;
  * a bare CR inside a start line or field value is replaced by SP
    (RFC 9112 2.2: "MUST consider invalid or replace with SP");
  * obs-fold in a field value is unfolded to one SP (RFC 9112 5.2);
  * the request-target is opaque: everything between the first and the last
    SP of the request line (DESIGN App. A: targets with spaces are `either`).
Everything else is strict: field-name must be a token directly followed by
':', Content-Length must be 1*DIGIT (all copies equal), chunk framing must be
exact (hex size, CRLF after size and after data, last-chunk, trailer section).
"""
import re

TCHAR = frozenset(b"!#$%&'*+-.^_`|~0123456789ABCDEFGHIJKLMNOPQRSTUVWXYZabcdefghijklmnopqrstuvwxyz")


class ParseError(Exception):
    def __init__(self, code, msg=""):
        Exception.__init__(self, "%s: %s" % (code, msg))
        self.code = code
        self.msg = msg


class Msg(object):
    __slots__ = ("kind", "method", "target", "version", "status", "reason", "headers", "body", "framing",
                 "consumed", "notes", "trailers", "head_len")

    def __init__(self):
        self.kind = None
        self.method = self.target = self.version = self.reason = None
        self.status = None
        self.headers = []
        self.trailers = []
        self.body = b""
        self.framing = "none"
        self.consumed = 0
        self.head_len = 0
        self.notes = set()

    def get(self, name):
        n = name.lower()
        return [v for k, v in self.headers if k.lower() == n]


def is_token(b):
    return len(b) > 0 and all(c in TCHAR for c in b)


def _line(data, pos, notes):
    """one line starting at pos -> (content without terminator, next pos) ; None if no terminator yet"""
    i = data.find(b"\n", pos)
    if i < 0:
        return None, pos
    ln = data[pos:i]
    if ln.endswith(b"\r"):
        ln = ln[:-1]
    else:
        notes.add("bare-lf")
    if b"\r" in ln:
        notes.add("bare-cr")
        ln = ln.replace(b"\r", b" ")
    return ln, i + 1


def _fields(data, pos, notes):
    """header (or trailer) section starting at pos -> (list, next pos)"""
    out = []
    while True:
        ln, pos = _line(data, pos, notes)
        if ln is None:
            raise ParseError("truncated", "header section not terminated")
        if ln == b"":
            return out, pos
        if ln[:1] in (b" ", b"\t"):
            if not out:
                raise ParseError("whitespace-before-first-field", repr(ln[:40]))
            notes.add("obs-fold")
            k, v = out[-1]
            out[-1] = (k, (v + b" " + ln.strip(b" \t")).strip(b" \t"))
            continue
        c = ln.find(b":")
        if c < 0:
            raise ParseError("field-line-without-colon", repr(ln[:60]))
        name = ln[:c]
        if not is_token(name):
            if name[-1:] in (b" ", b"\t") and is_token(name.rstrip(b" \t")):
                raise ParseError("whitespace-before-colon", repr(name[:40]))
            raise ParseError("field-name-not-token", repr(name[:40]))
        val = ln[c + 1:].strip(b" \t")
        if b"\x00" in val:
            raise ParseError("nul-in-field-value", repr(name))
        out.append((name, val))


_VERSION = re.compile(rb"^HTTP/[0-9]\.[0-9]$")


def parse_one(data, kind, req_method=None, eof=False):
    """Parse one message of `kind` ('request'|'response') at the start of data.
    req_method: for responses, the method of the request it answers (HEAD matters).
    eof: the peer saw end-of-stream after `data` (needed for close-delimited bodies)."""
    m = Msg()
    m.kind = kind
    notes = m.notes
    ln, pos = _line(data, 0, notes)
    if ln is None:
        raise ParseError("truncated", "no start line")
    if kind == "response":
        parts = ln.split(b" ", 2)
        if len(parts) < 2 or not _VERSION.match(parts[0]):
            raise ParseError("bad-status-line", repr(ln[:80]))
        if not re.match(rb"^[0-9]{3}$", parts[1]):
            raise ParseError("bad-status-code", repr(ln[:80]))
        m.version = parts[0]
        m.status = int(parts[1])
        m.reason = parts[2] if len(parts) > 2 else b""
    else:
        a = ln.find(b" ")
        z = ln.rfind(b" ")
        if a < 0 or z <= a - 1 or a == z:
            raise ParseError("bad-request-line", repr(ln[:80]))
        m.method, m.target, m.version = ln[:a], ln[a + 1:z], ln[z + 1:]
        if not is_token(m.method):
            raise ParseError("bad-method", repr(m.method[:40]))
        if not _VERSION.match(m.version):
            raise ParseError("bad-version", repr(ln[-40:]))
    m.headers, pos = _fields(data, pos, notes)
    m.head_len = pos

    te = m.get(b"transfer-encoding")
    cl = m.get(b"content-length")
    clv = None
    if cl:
        vals = set()
        for v in cl:
            for p in v.split(b","):
                p = p.strip(b" \t")
                if not re.match(rb"^[0-9]+$", p):
                    raise ParseError("bad-content-length", repr(v[:40]))
                vals.add(int(p))
        if len(vals) != 1:
            raise ParseError("conflicting-content-length", repr(cl))
        clv = vals.pop()
    codings = []
    for v in te:
        codings += [c.strip(b" \t").lower() for c in v.split(b",") if c.strip(b" \t")]
    if te and cl:
        notes.add("te-and-cl")

    if kind == "response":
        nobody = (req_method == b"HEAD") or (100 <= m.status < 200) or m.status in (204, 304)
        if nobody:
            m.framing = "none"
            m.consumed = pos
            return m
        if te:
            if codings and codings[-1] == b"chunked":
                m.framing = "chunked"
            else:
                m.framing = "close"
        elif cl:
            m.framing = "length"
        else:
            m.framing = "close"
    else:
        if te:
            if not (codings and codings[-1] == b"chunked"):
                raise ParseError("request-te-not-chunked", repr(te))
            m.framing = "chunked"
        elif cl:
            m.framing = "length"
        else:
            m.framing = "none"

    if m.framing == "none":
        m.consumed = pos
    elif m.framing == "length":
        if len(data) - pos < clv:
            raise ParseError("truncated", "body shorter (%d) than Content-Length %d" % (len(data) - pos, clv))
        m.body = data[pos:pos + clv]
        m.consumed = pos + clv
    elif m.framing == "close":
        if not eof:
            raise ParseError("unterminated-close-delimited-body", "no Content-Length/chunked and the connection stays open")
        m.body = data[pos:]
        m.consumed = len(data)
    else:
        body = []
        while True:
            e = data.find(b"\r\n", pos)
            if e < 0:
                raise ParseError("truncated", "chunk size line")
            sl = data[pos:e]
            size = sl.split(b";", 1)[0].strip(b" \t")
            if not re.match(rb"^[0-9A-Fa-f]+$", size):
                raise ParseError("bad-chunk-size", repr(sl[:40]))
            n = int(size, 16)
            pos = e + 2
            if n == 0:
                break
            if len(data) - pos < n + 2:
                raise ParseError("truncated", "chunk data")
            body.append(data[pos:pos + n])
            pos += n
            if data[pos:pos + 2] != b"\r\n":
                raise ParseError("missing-crlf-after-chunk", repr(data[pos:pos + 8]))
            pos += 2
        m.trailers, pos = _fields(data, pos, notes)
        m.body = b"".join(body)
        m.consumed = pos
    return m


def parse_all(data, kind, req_methods=None, eof=False, limit=16):
    """parse consecutive messages; returns (list of Msg, rest bytes, ParseError or None)"""
    out = []
    pos = 0
    while pos < len(data) and len(out) < limit:
        rm = None
        if req_methods and len(out) < len(req_methods):
            rm = req_methods[len(out)]
        try:
            m = parse_one(data[pos:], kind, req_method=rm, eof=eof)
        except ParseError as e:
            return out, data[pos:], e
        out.append(m)
        pos += m.consumed
    return out, data[pos:], None


def norm_ws(b):
    """normal form used when a caller-supplied string itself contains CR/LF/folds: CR, LF and
    runs of SP/HT collapse to one SP"""
    return re.sub(rb"[ \t\r\n]+", b" ", b).strip(b" ")


_IMF = re.compile(rb"^(Mon|Tue|Wed|Thu|Fri|Sat|Sun), [0-9]{2} (Jan|Feb|Mar|Apr|May|Jun|Jul|Aug|Sep|Oct|Nov|Dec) "
                  rb"[0-9]{4} [0-9]{2}:[0-9]{2}:[0-9]{2} GMT$")


def is_imf_fixdate(v):
    return bool(_IMF.match(v))
