"""Reference model of the resolver configuration of an evdns_base (C39, also used by C38).

Independent of evdns.c: written from resolv.conf(5), hosts(5) and the doc comments of include/event2/dns.h
(option list of evdns_base_set_option, address formats of evdns_base_nameserver_ip_add, flags of
evdns_base_resolv_conf_parse).  Every scalar setting is a *set of acceptable values* (tri-state oracle):
a singleton where the documents decide, several values where they allow more than one reading, None
("unjudged") where they are silent and the input is outside the documented syntax.

Choices adopted from the current tree where the documents are silent are marked CALIBRATED.

`quirks` lets the caller ask "what would the configuration be if the parser had deviation X" so that a mismatch
can be given a specific violation key (never used to accept anything):
  nul_truncates   everything after the first NUL byte of a file is dropped
  ndots_reset     clearing / replacing the search list resets ndots to 1
  empty_int_zero  an integer option with an empty value is taken as 0
"""
import re, socket, struct

F_SEARCH, F_NS, F_MISC, F_HOSTS, F_NODEFAULT = 1, 2, 4, 8, 16
AF_INET, AF_INET6 = 2, 10
WS = b" \t"        # CALIBRATED: only blank and tab separate tokens ('\r', '\v', '\f' are ordinary characters)


def tokens(line):
    return [t for t in re.split(rb"[ \t]+", line) if t]


# ------------------------------------------------------------------ addresses
_V4 = re.compile(rb"(\d+)\.(\d+)\.(\d+)\.(\d+)\Z")


def _v4(s):
    """-> ('valid', bytes) | ('invalid',) | ('either',)"""
    m = _V4.match(s)
    if m:
        parts = [m.group(i) for i in range(1, 5)]
        if any(len(p) > 1 and p[:1] == b"0" for p in parts):
            return ("either",)           # leading zeros: decimal or octal or rejected
        if any(int(p) > 255 for p in parts):
            return ("invalid",)
        return ("valid", bytes(int(p) for p in parts))
    if re.match(rb"\d+(\.\d+)*\Z", s):
        return ("invalid",)              # dotted decimal with a wrong number of components / too many digits
    return None


def _v6(s):
    if not s or not re.match(rb"[0-9A-Fa-f:.]+\Z", s) or b":" not in s:
        return None
    try:
        return ("valid", socket.inet_pton(socket.AF_INET6, s.decode("ascii")))
    except (OSError, ValueError):
        return None


def _port(s):
    """-> int | 'invalid' | 'either'"""
    if re.match(rb"\d+\Z", s):
        if len(s) > 1 and s[:1] == b"0":
            return "either"
        n = int(s)
        return n if 1 <= n <= 65535 else "invalid"
    if re.match(rb"\d+", s):
        return "either"                  # digits followed by junk (atoi-style readers accept it)
    return "invalid"


def classify_addr(s, allow_port=True):
    """Formats documented for evdns_base_nameserver_ip_add: [v6]:port, [v6], v6, v4:port, v4.
    -> ('valid', family, addrbytes, port_or_0) | ('invalid',) | ('either',)"""
    def fuzzy():
        # not of a documented form: must be refused when it does not even look numeric, unjudged otherwise
        if s and re.match(rb"[0-9A-Fa-f:.\[\]%+xX-]+\Z", s) and re.search(rb"\d", s):
            return ("either",)
        return ("invalid",)
    if s.startswith(b"["):
        end = s.find(b"]")
        if end < 0:
            return ("invalid",)
        a = _v6(s[1:end])
        rest = s[end + 1:]
        if a is None:
            return ("invalid",) if b"%" not in s[1:end] else ("either",)
        if rest == b"":
            return ("valid", AF_INET6, a[1], 0)
        if not rest.startswith(b":"):
            return ("either",)           # junk after ']' (CALIBRATED: the current tree ignores it)
        p = _port(rest[1:])
        if p == "invalid" or p == "either" or not allow_port:
            return ("invalid",) if p == "invalid" else ("either",)
        return ("valid", AF_INET6, a[1], p)
    if s.count(b":") >= 2:
        a = _v6(s)
        if a:
            return ("valid", AF_INET6, a[1], 0)
        return fuzzy()
    if b":" in s:
        host, _, ps = s.partition(b":")
        a = _v4(host)
        if a is None:
            return fuzzy()
        if a[0] != "valid":
            return a
        p = _port(ps)
        if p == "invalid":
            return ("invalid",)
        if p == "either" or not allow_port:
            return ("either",)
        return ("valid", AF_INET, a[1], p)
    a = _v4(s)
    if a is None:
        return fuzzy()
    if a[0] != "valid":
        return a
    return ("valid", AF_INET, a[1], 0)


# ------------------------------------------------------------------ numbers
def classify_int(v):
    """-> ('valid', n) | ('invalid',) | ('either',) | ('empty',)"""
    if v == b"":
        return ("empty",)
    if re.match(rb"\d+\Z", v):
        n = int(v)
        if n >= 1 << 31 or (len(v) > 1 and v[:1] == b"0"):
            return ("either",)
        return ("valid", n)
    if re.match(rb"[ \t\n\v\f\r]*[+-]?\d+\Z", v):
        return ("either",)               # sign / leading white space: outside the documented syntax
    return ("invalid",)


_FLOATISH = re.compile(rb"[ \t\n\v\f\r]*[+-]?(\d+\.?\d*([eE][+-]?\d+)?|\.\d+([eE][+-]?\d+)?|0[xX][0-9a-fA-F]*\.?[0-9a-fA-F]*([pP][+-]?\d+)?|inf|infinity|nan(\([0-9A-Za-z_]*\))?)\Z", re.I)


def classify_seconds(v):
    """-> ('valid', {us,...}) | ('invalid',) | ('either',)"""
    if re.match(rb"\d+(\.\d+)?\Z", v) and len(v) < 40:
        d = float(v)
        if d < 0.001 or d >= 2147483647.0:
            return ("either",)           # below 1 ms the current tree refuses; the documents are silent
        sec = int(d)
        frac = (d - sec) * 1000000
        return ("valid", {sec * 1000000 + int(frac), sec * 1000000 + int(round(frac))})   # truncation or rounding of the fraction
    if _FLOATISH.match(v):
        return ("either",)
    return ("invalid",)


# ------------------------------------------------------------------ the model
OPTS = {
    # name: (kind, flag)
    b"ndots": ("int", F_SEARCH), b"timeout": ("tv", F_MISC), b"getaddrinfo-allow-skew": ("tv", F_MISC),
    b"max-timeouts": ("int", F_MISC), b"max-inflight": ("int", F_MISC), b"attempts": ("int", F_MISC),
    b"randomize-case": ("int", F_MISC), b"bind-to": ("addr", F_NS), b"initial-probe-timeout": ("tv", F_MISC),
    b"max-probe-timeout": ("int", F_MISC), b"probe-backoff-factor": ("int", F_MISC), b"so-rcvbuf": ("int", F_MISC),
    b"so-sndbuf": ("int", F_MISC), b"tcp-idle-timeout": ("tv", F_MISC), b"use-vc": ("flag", F_MISC),
    b"ignore-tc": ("flag", F_MISC), b"edns-udp-size": ("int", F_MISC),
}
FIELD = {b"timeout": "timeout", b"getaddrinfo-allow-skew": "skew", b"initial-probe-timeout": "probe_init", b"tcp-idle-timeout": "tcp_idle",
         b"max-timeouts": "max_timeouts", b"max-inflight": "max_inflight", b"attempts": "attempts", b"randomize-case": "randcase",
         b"max-probe-timeout": "max_probe", b"probe-backoff-factor": "backoff", b"so-rcvbuf": "rcvbuf", b"so-sndbuf": "sndbuf",
         b"edns-udp-size": "udpsize", b"ndots": "ndots"}
CLIP = {b"max-timeouts": (1, 255), b"max-inflight": (1, 65000), b"max-probe-timeout": (1, 3600), b"probe-backoff-factor": (1, 10),
        b"edns-udp-size": (512, 65535)}     # CALIBRATED: out-of-range values are clipped, not refused


def match_option(name):
    """documented names; the form "name:" (pre-2.0.3) and CALIBRATED "name:anything" (resolv.conf token) also select the option"""
    for o in OPTS:
        if name == o or name == o + b":" or name.startswith(o + b":"):
            return o
    return None


class Config:
    def __init__(self, quirks=()):
        self.q = set(quirks)
        self.ns = []                 # [(family, addr, port)] in order of addition; None = unjudged
        self.search = []             # list of domains (bytes); None = unjudged
        self.search_state = False    # CALIBRATED: the search state exists only after something touched it (internal; printed as ndots=none)
        self.hosts = []              # [(family, addr, name)]; None = unjudged
        self.bind = {None}
        self.tcpflags = {0}
        self.f = dict(ndots={1}, timeout={5000000}, skew={3000000}, probe_init={10000000}, tcp_idle={5000000}, max_timeouts={3},
                      max_inflight={64}, attempts={3}, randcase={1}, max_probe={3600}, backoff={3}, rcvbuf={0}, sndbuf={0}, udpsize={512})
        self.nonloop_after_bind = False

    # -------------------------------------------------- search list
    def _touch_search(self, reset):
        self.search_state = True
        if reset and "ndots_reset" in self.q:
            self.f["ndots"] = {1}

    def search_clear(self):
        self.search = []
        self._touch_search(True)

    def search_add_front(self, dom):
        """evdns_base_search_add: CALIBRATED the last added domain is tried first"""
        d = dom.lstrip(b".")
        if self.search is not None:
            self.search = [d] + self.search
        self._touch_search(False)

    def search_ndots_set(self, n):
        self.f["ndots"] = {n}
        self.search_state = True

    def search_from_hostname(self, hostname):
        """resolv.conf(5): by default the search list holds the local domain name = everything after the first '.' of gethostname()"""
        self.search = []
        self._touch_search(True)
        if b"." in hostname:
            d = hostname[hostname.index(b"."):].lstrip(b".")
            self.search = [d]

    # -------------------------------------------------- nameservers
    def add_ns(self, fam, addr, port):
        """-> True if added.  CALIBRATED: an address already configured is not added twice; no limit on the number kept"""
        e = (fam, addr, port or 53)
        if self.ns is None:
            return None
        if e in self.ns:
            return False
        self.ns.append(e)
        if self.bind != {None} and not is_loopback(fam, addr):
            self.nonloop_after_bind = True
        return True

    def nameserver_ip_add(self, s):
        """-> set of acceptable 'succeeded' booleans"""
        c = classify_addr(s)
        if c[0] == "valid" and self.bind != {None} and not is_loopback(c[1], c[2]):
            # bind-to is applied to this server's socket: whether bind() works depends on the machine and the families
            self.ns = None
            return {True, False}
        if c[0] == "valid":
            r = self.add_ns(c[1], c[2], c[3])
            return {True, False} if r is None else {r}
        if c[0] == "invalid":
            return {False}
        self.ns = None
        return {True, False}

    def ns_expected_order(self):
        """CALIBRATED: index 0 is the first server added, the others follow newest first"""
        if not self.ns:
            return list(self.ns or [])
        return [self.ns[0]] + list(reversed(self.ns[1:]))

    # -------------------------------------------------- options
    def set_option(self, name, val, flags=F_SEARCH | F_NS | F_MISC, from_file=False):
        """-> set of acceptable return codes of evdns_base_set_option ({0}, {-1} or {0,-1})"""
        o = match_option(name)
        if o is None:
            return {0, -1}               # unknown option: nothing may change; the return code is not documented
        kind, flag = OPTS[o]
        if kind == "flag":
            if not flags & flag:
                return {0, -1}
            if val:
                return {-1}
            bit = 2 if o == b"use-vc" else 4
            self.tcpflags = {x | bit for x in self.tcpflags}
            return {0}
        if val is None:
            return {0, -1}               # caller error for a valued option (not generated)
        if kind == "addr":
            if not flags & flag:
                return {0, -1}
            c = classify_addr(val)
            if c[0] == "valid":
                self.bind = {(c[1], c[2], c[3])}
                return {0}
            if c[0] == "invalid":
                return {-1}
            self.bind = None
            return {0, -1}
        if kind == "tv":
            c = classify_seconds(val)
            if c[0] == "invalid":
                return {-1}
            if not flags & flag:
                return {0, -1} if c[0] == "either" else {0}
            fld = FIELD[o]
            if c[0] == "either":
                self.f[fld] = None
                return {0, -1}
            vals = set(c[1])
            if o == b"timeout" and from_file and min(vals) > 30000000:
                vals.add(30000000)                       # resolv.conf(5): silently capped to 30
            if o == b"initial-probe-timeout":
                big = {v for v in vals if v >= 3601000000}
                if big:                                  # CALIBRATED: capped near one hour (seconds capped, fraction kept)
                    vals = (vals - big) | {3600000000 + v % 1000000 for v in big} | {3600000000}
                mp = self.f["max_probe"]
                if mp is None:
                    vals = None
                elif any(v > m * 1000000 for v in vals for m in mp):
                    vals = None                          # above max-probe-timeout: documents do not say which wins here
            self.f[fld] = vals
            return {0}
        # integers
        c = classify_int(val)
        if c[0] == "empty":
            if "empty_int_zero" in self.q:
                c = ("valid", 0)
            else:
                return {-1}              # "ndots", "attempts" ... need a number (dns.h: only use-vc / ignore-tc take no value)
        if c[0] == "invalid":
            return {-1}
        fld = FIELD[o]
        if not flags & flag:
            return {0, -1} if c[0] == "either" else {0}
        if c[0] == "either":
            self.f[fld] = None
            if o == b"max-probe-timeout":
                self.f["probe_init"] = None
            return {0, -1}
        n = c[1]
        if o in CLIP:
            lo, hi = CLIP[o]
            vals = {min(max(n, lo), hi)}
        elif o == b"ndots":
            vals = {n, 15} if n > 15 else {n}           # resolv.conf(5): silently capped to 15
            self.search_state = True
        elif o == b"attempts":
            if n == 0:
                vals = None                              # zero attempts: undocumented
            else:
                vals = {min(n, 255)} | ({5} if n > 5 else set())   # resolv.conf(5) caps at 5; CALIBRATED cap 255
        elif o == b"randomize-case":
            vals = {n}
        else:
            vals = {n}
        self.f[fld] = vals
        if o == b"max-probe-timeout" and vals:
            mp = next(iter(vals))
            pi = self.f["probe_init"]
            if pi is not None:
                # dns.h: "will change initial-probe-timeout when this value is smaller"
                new = set()
                for v in pi:
                    if v // 1000000 > mp:
                        new.add(mp * 1000000)
                    elif v > mp * 1000000:
                        new |= {v, mp * 1000000}         # only the fraction exceeds: either
                    else:
                        new.add(v)
                self.f["probe_init"] = new
        return {0}

    # -------------------------------------------------- hosts
    def clear_hosts(self):
        self.hosts = []

    def _hosts_line(self, line):
        tk = tokens(line)
        if not tk or tk[0].startswith(b"#"):
            return
        c = classify_addr(tk[0], allow_port=False)
        if c[0] == "invalid" or (c[0] == "valid" and c[3]):
            return
        if c[0] == "either" or tk[0].startswith(b"["):
            self.hosts = None            # address outside hosts(5): unjudged
            return
        for t in tk[1:]:
            if t.startswith(b"#"):
                return
            cut = t.find(b"#")
            name = t if cut < 0 else t[:cut]
            if self.hosts is not None:
                self.hosts.append((c[1], c[2], name))
            if cut >= 0:
                return

    def load_hosts(self, content, nul_mode="prefix"):
        """content None = evdns_base_load_hosts(NULL) or unreadable file: minimal localhost entries.
        -> acceptable return codes (0 ok / negative)"""
        if content is None:
            if self.hosts is not None:
                self.hosts += [(AF_INET, bytes([127, 0, 0, 1]), b"localhost"), (AF_INET6, bytes(15) + b"\x01", b"localhost")]
            return
        for line in self._lines(content, nul_mode):
            self._hosts_line(line)

    def _lines(self, content, nul_mode):
        if "nul_truncates" in self.q and b"\0" in content:
            content = content[:content.index(b"\0")]
        out = []
        for line in content.split(b"\n"):
            if b"\0" in line:
                # a NUL is not part of either syntax: the line is malformed; skipping it or reading it up to the NUL are both accepted
                if nul_mode == "skip":
                    continue
                line = line[:line.index(b"\0")]
            out.append(line)
        return out

    def hosts_lookup(self, name):
        """all entries whose name equals `name` ignoring ASCII case, in file order"""
        if self.hosts is None:
            return None
        n = name.lower()
        return [(f, a) for (f, a, h) in self.hosts if h.lower() == n]

    # -------------------------------------------------- resolv.conf
    def resolv_conf_parse(self, content, flags, hostname=b"vm", etc_hosts=None, nul_mode="prefix"):
        """content None = file missing.  -> set of acceptable return codes"""
        add_default = bool(flags & F_NS) and not flags & F_NODEFAULT
        if flags & F_HOSTS:
            self.load_hosts(etc_hosts, nul_mode)         # the system hosts file (None if unreadable)
        if content is None:
            if flags & F_SEARCH:
                self.search_from_hostname(hostname)
            if add_default:
                self.add_ns(AF_INET, bytes([127, 0, 0, 1]), 53)
            return {1}
        for line in self._lines(content, nul_mode):
            tk = tokens(line)
            if not tk:
                continue
            kw = tk[0]
            if kw == b"nameserver" and flags & F_NS:
                if len(tk) >= 2:
                    self.nameserver_ip_add(tk[1])
            elif kw == b"domain" and flags & F_SEARCH:
                if len(tk) >= 2:
                    self._set_search([tk[1]])
            elif kw == b"search" and flags & F_SEARCH:
                if len(tk) >= 2:
                    self._set_search(tk[1:])
                else:
                    self.search = None                   # "search" without a domain: malformed or "empty list": unjudged
                    self._touch_search(True)
            elif kw == b"options":
                for t in tk[1:]:
                    name, sep, val = t.partition(b":")
                    self.set_option(t, val, flags, from_file=True)
        rc = {0}
        if self.ns is None:
            rc = {0, 6}
        elif not self.ns and add_default:
            self.add_ns(AF_INET, bytes([127, 0, 0, 1]), 53)
            rc = {6}
        if flags & F_SEARCH:
            if self.search is None:
                pass
            elif not self.search:
                self.search_from_hostname(hostname)
        return rc

    def _set_search(self, doms):
        ds = [d.lstrip(b".") for d in doms]
        if any(d == b"" for d in ds) or any(b"#" in d or b";" in d for d in ds):
            self.search = None                           # "." / comment-looking tokens: outside the documented syntax
        else:
            self.search = ds                             # CALIBRATED: no limit on the number of domains
        self._touch_search(True)


def is_loopback(fam, addr):
    return (fam == AF_INET and addr[0] == 127) or (fam == AF_INET6 and addr == bytes(15) + b"\x01")


def search_candidates(name, search, ndots):
    """documented search order (dns.h "Searching"): names with at least ndots dots are tried as given first"""
    if not search:
        return [name]
    joined = [name + (b"" if name.endswith(b".") else b".") + d for d in search]
    if name.count(b".") >= ndots:
        return [name] + joined
    return joined + [name]


# ------------------------------------------------------------------ comparison with a DUMP of the harness
def parse_dump(lines):
    """lines of one DUMP (NSCOUNT / NSADDR / CFG / HE / HECOUNT) -> dict"""
    d = dict(ns=[], he=[], cfg={}, nscount=None, refused_last=None)
    for ln in lines:
        t = ln.split()
        if t[0] == "NSCOUNT":
            d["nscount"] = int(t[1])
        elif t[0] == "NSADDR":
            i, r, fam = int(t[1]), int(t[2]), int(t[3])
            if r > 0:
                d["ns"].append((fam, bytes.fromhex(t[4]), int(t[5]), r))
            else:
                d["refused_last"] = (i, r)
        elif t[0] == "CFG":
            for kv in t[1:]:
                k, _, v = kv.partition("=")
                d["cfg"][k] = v
        elif t[0] == "HE":
            d["he"].append((int(t[2]), bytes.fromhex(t[3]), b"" if t[4] == "E" else bytes.fromhex(t[4])))
    return d


def compare(cfg, dump):
    """-> list of (field, text) mismatches between the acceptable sets of `cfg` and what the harness printed"""
    bad = []
    c = dump["cfg"]
    # nameservers
    if cfg.ns is not None and not cfg.nonloop_after_bind:
        got = [(f, a, p) for (f, a, p, r) in dump["ns"]]
        if dump["nscount"] != len(cfg.ns) or sorted(got) != sorted(cfg.ns):
            bad.append(("nameservers", "expected %s got %s (count %s)" % (fmt_ns(cfg.ns), fmt_ns(got), dump["nscount"])))
        elif got != cfg.ns_expected_order():
            bad.append(("nameserver-order", "expected %s got %s" % (fmt_ns(cfg.ns_expected_order()), fmt_ns(got))))
        for (f, a, p, r) in dump["ns"]:
            if r != (16 if f == AF_INET else 28):
                bad.append(("nameserver-addrlen", "family %d returned length %d" % (f, r)))
        if dump["refused_last"] is None or dump["refused_last"][1] != -1:
            bad.append(("nameserver-index-range", "index == count not refused with -1: %r" % (dump["refused_last"],)))
    # search list / ndots
    if cfg.search is not None:
        got = [] if c.get("search") == "-" else [b"" if x == "E" else bytes.fromhex(x) for x in c.get("search", "-").split(",")]
        if got != cfg.search:
            bad.append(("search", "expected %r got %r" % (cfg.search, got)))
        elif c.get("nsearch") != str(len(cfg.search)):
            bad.append(("search-count", "num_domains %s for %d domains" % (c.get("nsearch"), len(cfg.search))))
    nd = c.get("ndots")
    if cfg.f["ndots"] is not None:
        if nd == "none":
            if cfg.f["ndots"] != {1}:
                bad.append(("ndots", "expected %s, no search state exists" % sorted(cfg.f["ndots"])))
        elif int(nd) not in cfg.f["ndots"]:
            bad.append(("ndots", "expected %s got %s" % (sorted(cfg.f["ndots"]), nd)))
    for k, acc in cfg.f.items():
        if k == "ndots" or acc is None:
            continue
        v = int(c[k])
        if k == "randcase":
            if bool(v) not in {bool(x) for x in acc}:
                bad.append((k, "expected %s got %d" % (sorted(acc), v)))
        elif v not in acc:
            bad.append((k, "expected %s got %d" % (sorted(acc), v)))
    if cfg.f["max_inflight"] is not None and int(c["nheads"]) not in {(x + 4) // 5 for x in cfg.f["max_inflight"]}:
        bad.append(("max_inflight_heads", "n_req_heads %s for max-inflight %s" % (c["nheads"], sorted(cfg.f["max_inflight"]))))
    if int(c["tcpflags"]) not in cfg.tcpflags:
        bad.append(("tcpflags", "expected %s got %s" % (sorted(cfg.tcpflags), c["tcpflags"])))
    if cfg.bind is not None:
        b = c["bind"]
        got = None
        if b != "-":
            fam, a, p = b.split("/")
            got = (AF_INET if fam == "4" else AF_INET6, bytes.fromhex(a), int(p))
        if got not in cfg.bind:
            bad.append(("bind-to", "expected %r got %r" % (sorted(cfg.bind, key=repr), got)))
    # hosts
    if cfg.hosts is not None and dump["he"] != cfg.hosts:
        bad.append(("hosts", "expected %s got %s" % (fmt_hosts(cfg.hosts), fmt_hosts(dump["he"]))))
    return bad


def fmt_addr(f, a):
    try:
        return socket.inet_ntop(socket.AF_INET if f == AF_INET else socket.AF_INET6, a)
    except Exception:
        return a.hex()


def fmt_ns(l):
    return "[" + ", ".join("%s#%d" % (fmt_addr(f, a), p) for (f, a, p) in l) + "]"


def fmt_hosts(l):
    return "[" + ", ".join("%s=%r" % (fmt_addr(f, a), n) for (f, a, n) in l[:12]) + (" ...%d" % len(l) if len(l) > 12 else "") + "]"
