"""Strict DNS wire-format reference (RFC 1035 / 2181 / 6891) used by the evdns
client oracles C33/C34/C36.  Independent of libevent: written from the RFCs.

decode_message(data)  -> Message (tolerant container: records what could be
                         parsed and where/why parsing stopped)
decode_name(data, off) -> (labels, next_off) or raises WireError
encode_name(labels)    -> bytes
"""
import struct

T_A, T_NS, T_CNAME, T_SOA, T_PTR, T_MX, T_TXT, T_AAAA, T_OPT = 1, 2, 5, 6, 12, 15, 16, 28, 41
C_IN = 1


class WireError(Exception):
    def __init__(self, kind, msg=""):
        Exception.__init__(self, "%s %s" % (kind, msg))
        self.kind = kind


def decode_name(data, off, strict_forward=False):
    """Decode a possibly compressed name starting at off.
    Returns (labels:list[bytes], next_off).  Raises WireError(kind) with kind in
    truncated | bad-label-type | pointer-out-of-range | pointer-loop | name-too-long |
    pointer-forward (only when strict_forward)."""
    labels = []
    nxt = None
    seen = set()
    wire_len = 1
    j = off
    n = len(data)
    while True:
        if j >= n:
            raise WireError("truncated", "name runs past the message")
        if j in seen:
            raise WireError("pointer-loop")
        seen.add(j)
        l = data[j]
        if l == 0:
            j += 1
            break
        if l & 0xc0 == 0xc0:
            if j + 1 >= n:
                raise WireError("truncated", "pointer cut")
            tgt = ((l & 0x3f) << 8) | data[j + 1]
            if nxt is None:
                nxt = j + 2
            if tgt >= n:
                raise WireError("pointer-out-of-range")
            if strict_forward and tgt >= j:
                raise WireError("pointer-forward")
            j = tgt
            continue
        if l & 0xc0:
            raise WireError("bad-label-type", "0x%02x" % l)
        if j + 1 + l > n:
            raise WireError("truncated", "label cut")
        labels.append(bytes(data[j + 1:j + 1 + l]))
        wire_len += 1 + l
        if wire_len > 255:
            raise WireError("name-too-long")
        j += 1 + l
    return labels, (nxt if nxt is not None else j)


def encode_name(labels):
    out = b""
    for l in labels:
        out += bytes([len(l)]) + l
    return out + b"\0"


def text_to_labels(name):
    """Presentation bytes (no escapes interpreted) -> labels, or None when the name cannot be
    encoded as valid labels: empty label other than one trailing dot, label > 63, wire form > 255."""
    if name in (b"", b"."):
        return []
    if name.endswith(b"."):
        name = name[:-1]
    labels = name.split(b".")
    if any(len(l) == 0 or len(l) > 63 for l in labels):
        return None
    if sum(len(l) + 1 for l in labels) + 1 > 255:
        return None
    return labels


def name_problem(name):
    """Why text_to_labels fails: 'empty-label' | 'label-too-long' | 'name-too-long' | None."""
    if name in (b"", b"."):
        return None
    n = name[:-1] if name.endswith(b".") else name
    labels = n.split(b".")
    if any(len(l) == 0 for l in labels):
        return "empty-label"
    if any(len(l) > 63 for l in labels):
        return "label-too-long"
    if sum(len(l) + 1 for l in labels) + 1 > 255:
        return "name-too-long"
    return None


def labels_text(labels):
    return b".".join(labels)


class RR:
    __slots__ = ("name", "type", "cls", "ttl", "rdlen", "rdata", "rdoff", "section", "target", "soa_minimum", "flaw")

    def __repr__(self):
        return "RR(%s t%d c%d ttl%d rdlen%d)" % (labels_text(self.name), self.type, self.cls, self.ttl, self.rdlen)


class Message:
    """Result of a tolerant decode.  `error` is None when the whole message (header, all
    counted questions and records, no trailing bytes) parsed strictly."""

    def __init__(self):
        self.id = self.flags = None
        self.counts = (0, 0, 0, 0)
        self.questions = []      # (labels, qtype, qclass)
        self.answers = []
        self.authority = []
        self.additional = []
        self.error = None        # (kind, section, index)
        self.end = 0             # offset where parsing stopped
        self.trailing = 0

    @property
    def qr(self): return (self.flags >> 15) & 1
    @property
    def opcode(self): return (self.flags >> 11) & 15
    @property
    def tc(self): return (self.flags >> 9) & 1
    @property
    def rd(self): return (self.flags >> 8) & 1
    @property
    def rcode(self): return self.flags & 15


def decode_message(data, tolerant=False):
    """tolerant=True: RDATA that does not fit its type (rdlength mismatch, undecodable name inside
    RDATA) is recorded in rr.flaw and framing continues by RDLENGTH; everything else still stops the decode."""
    m = Message()
    data = bytes(data)
    if len(data) < 12:
        m.error = ("truncated", "header", 0)
        if len(data) >= 2:
            m.id = struct.unpack(">H", data[:2])[0]
        if len(data) >= 4:
            m.flags = struct.unpack(">H", data[2:4])[0]
        return m
    m.id, m.flags, qd, an, ns, ar = struct.unpack(">HHHHHH", data[:12])
    m.counts = (qd, an, ns, ar)
    j = 12
    try:
        for i in range(qd):
            sec, idx = "question", i
            labels, j = decode_name(data, j)
            if j + 4 > len(data):
                raise WireError("truncated", "question fixed part")
            qt, qc = struct.unpack(">HH", data[j:j + 4])
            j += 4
            m.questions.append((labels, qt, qc))
        for sec, cnt, lst in (("answer", an, m.answers), ("authority", ns, m.authority), ("additional", ar, m.additional)):
            for i in range(cnt):
                idx = i
                rr = RR()
                rr.section = sec
                rr.name, j = decode_name(data, j)
                if j + 10 > len(data):
                    raise WireError("truncated", "rr fixed part")
                rr.type, rr.cls, rr.ttl, rr.rdlen = struct.unpack(">HHIH", data[j:j + 10])
                j += 10
                if j + rr.rdlen > len(data):
                    if tolerant and rr.type in (T_CNAME, T_PTR):
                        # RDLENGTH points past the message but a name may still sit there: expose it (flawed)
                        try:
                            rr.target, _ = decode_name(data, j)
                            rr.rdoff, rr.rdata, rr.soa_minimum, rr.flaw = j, data[j:], None, "rdlength-overrun"
                            lst.append(rr)
                        except WireError:
                            pass
                    raise WireError("truncated", "rdata")
                rr.rdoff = j
                rr.rdata = data[j:j + rr.rdlen]
                rr.target = None
                rr.soa_minimum = None
                rr.flaw = None
                try:
                    if rr.type in (T_CNAME, T_PTR, T_NS):
                        rr.target, e = decode_name(data, j)
                        if e != j + rr.rdlen:
                            raise WireError("rdlength-mismatch", "name rdata")
                    elif rr.type == T_SOA:
                        _, e = decode_name(data, j)
                        _, e = decode_name(data, e)
                        if e + 20 != j + rr.rdlen:
                            raise WireError("rdlength-mismatch", "soa")
                        rr.soa_minimum = struct.unpack(">I", data[e + 16:e + 20])[0]
                    elif rr.type == T_A and rr.cls == C_IN and rr.rdlen != 4:
                        raise WireError("rdlength-mismatch", "A")
                    elif rr.type == T_AAAA and rr.cls == C_IN and rr.rdlen != 16:
                        raise WireError("rdlength-mismatch", "AAAA")
                except WireError as fe:
                    if not tolerant:
                        raise
                    rr.flaw = fe.kind
                j += rr.rdlen
                lst.append(rr)
    except WireError as e:
        m.error = (e.kind, sec, idx)
        m.end = j
        return m
    m.end = j
    m.trailing = len(data) - j
    if m.trailing:
        m.error = ("trailing-bytes", "end", m.trailing)
    return m


def build_query_name_fold(labels):
    return [bytes(c | 0x20 if 65 <= c <= 90 else c for c in l) for l in labels]


def names_equal(a, b, fold):
    if fold:
        return build_query_name_fold(a) == build_query_name_fold(b)
    return a == b
