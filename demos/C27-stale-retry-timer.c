#include <event2/event.h>
#include <event2/http.h>
#include <event2/buffer.h>
#include <event2/util.h>
#include <stdio.h>
#include <string.h>
#include <arpa/inet.h>
#include <unistd.h>
static struct event_base *base; static struct evhttp *srv; static struct evhttp_connection *evcon;
static struct evhttp_request *reqA; static int port, b_done, b_code = -1, a_calls;
static int srv_conn_closed;
static void closecb(struct evhttp_connection *c, void *arg){ srv_conn_closed = 1; fprintf(stderr, "server: connection closed by peer before the reply\n"); }
static void reply_later(evutil_socket_t fd, short w, void *arg){ struct evhttp_request *r = arg; if (srv_conn_closed) return; evhttp_send_reply(r, 200, "OK", NULL); }
static void handler(struct evhttp_request *r, void *arg){ struct timeval tv = {1, 500000}; fprintf(stderr, "server: got %s\n", evhttp_request_get_uri(r)); evhttp_connection_set_closecb(evhttp_request_get_connection(r), closecb, NULL); event_base_once(base, -1, EV_TIMEOUT, reply_later, r, &tv); }
static void cbA(struct evhttp_request *r, void *arg){ a_calls++; fprintf(stderr, "A callback req=%p\n", (void*)r); }
static void cbB(struct evhttp_request *r, void *arg){ b_done++; b_code = r ? evhttp_request_get_response_code(r) : 0; fprintf(stderr, "B callback req=%p code=%d\n", (void*)r, b_code); }
static void step(evutil_socket_t fd, short w, void *arg){
	srv = evhttp_new(base); evhttp_set_gencb(srv, handler, NULL);
	if (evhttp_bind_socket(srv, "127.0.0.1", (ev_uint16_t)port)) { fprintf(stderr, "bind failed\n"); _exit(2); }
	fprintf(stderr, "server up; cancelling A\n");
	evhttp_cancel_request(reqA);
}
int main(void){
	struct sockaddr_in sin; socklen_t sl = sizeof(sin); int s; struct timeval t200 = {0, 200000}, t1 = {1, 0}, t5 = {5, 0};
	struct evhttp_request *reqB;
	base = event_base_new();
	s = socket(AF_INET, SOCK_STREAM, 0); memset(&sin, 0, sizeof(sin)); sin.sin_family = AF_INET; sin.sin_addr.s_addr = htonl(0x7f000001);
	bind(s, (struct sockaddr*)&sin, sizeof(sin)); getsockname(s, (struct sockaddr*)&sin, &sl); port = ntohs(sin.sin_port); close(s);
	evcon = evhttp_connection_base_new(base, NULL, "127.0.0.1", (ev_uint16_t)port);
	evhttp_connection_set_retries(evcon, 3); evhttp_connection_set_initial_retry_tv(evcon, &t1);
	reqA = evhttp_request_new(cbA, NULL); reqB = evhttp_request_new(cbB, NULL);
	evhttp_make_request(evcon, reqA, EVHTTP_REQ_GET, "/a"); evhttp_make_request(evcon, reqB, EVHTTP_REQ_GET, "/b");
	event_base_once(base, -1, EV_TIMEOUT, step, NULL, &t200);
	event_base_loopexit(base, &t5); event_base_dispatch(base);
	fprintf(stderr, "B done=%d code=%d\n", b_done, b_code);
	if (b_done != 1 || b_code != 200) { fprintf(stderr, "FAIL: request B, sent to a live server over a fresh connection, did not complete with 200\n"); return 1; }
	fprintf(stderr, "PASS\n"); return 0;
}
