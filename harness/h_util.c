/* h_util: C40 (textual address conversion), C41 (ASCII / sockaddr helpers),
 * C46 (bounded random choices).  Generators and oracles live in this file;
 * --mode selects the sub-workload.  The oracles are the platform's
 * inet_pton (C40), table-free reference definitions (C41) and range/draw
 * counting plus functional end-to-end observation (C46).
 *
 * Memory discipline: under ASan every string handed to the library is an
 * exact-size heap block and every output buffer is an exact-size heap block,
 * so any over-read/over-write is a sanitizer report.  In the plain flavor
 * (big enumerations) output buffers sit between canary bytes instead. */
#include "vh.h"
#include <limits.h>
#include <errno.h>
#include <unistd.h>
#include <signal.h>
#include <fcntl.h>
#include <poll.h>
#include <sys/socket.h>
#include <netinet/in.h>
#include <arpa/inet.h>
#include <net/if.h>
#include <event2/event.h>
#include <event2/util.h>
#include <event2/bufferevent.h>
#include <event2/buffer.h>
#include <event2/thread.h>
#include "util-internal.h"
#include "event-internal.h"
#include "bufferevent-internal.h"

#if defined(__SANITIZE_ADDRESS__)
#define HAVE_ASAN 1
#else
#define HAVE_ASAN 0
#endif


/* vh_viol prints at most 200 lines per process: keep at most 3 witnesses per
 * key so that a frequent known finding cannot crowd out a different key. */
static int viol_gate(const char *key)
{
	static struct { char k[120]; int n; } t[64];
	static int nt;
	int i;
	for (i = 0; i < nt; i++) if (!strcmp(t[i].k, key)) break;
	if (i == nt) { if (nt == 64) return 1; snprintf(t[nt].k, sizeof(t[nt].k), "%s", key); t[nt].n = 0; nt++; }
	vh_stat("violating_evaluations");
	return t[i].n++ < 3;
}
#define VIOL(key, ...) do { if (viol_gate(key)) vh_viol((key), __VA_ARGS__); } while (0)

static int mode_is(const char *m) { return vh_opt.mode && !strcmp(vh_opt.mode, m); }

/* exact-size heap copy of a C string of length n (n+1 bytes incl. NUL) */
static char *xstr(const char *s, size_t n)
{
	char *p = malloc(n + 1);
	memcpy(p, s, n);
	p[n] = 0;
	return p;
}

/* ------------------------------------------------------------------ */
/* output buffers of an exact length                                   */
#define OB_MAX 160
#define OB_PAD 16
static char *ob_heap[OB_MAX + 1];
static unsigned char ob_can[OB_PAD + OB_MAX + OB_PAD];
static char *ob_get(size_t len)
{
	if (len > OB_MAX) abort();
	if (HAVE_ASAN) {
		if (!ob_heap[len]) ob_heap[len] = malloc(len);
		memset(ob_heap[len], 0xA5, len);
		return ob_heap[len];
	}
	memset(ob_can, 0xA5, sizeof(ob_can));
	return (char *)ob_can + OB_PAD;
}
/* plain flavor: bytes outside [0,len) must be untouched */
static int ob_overrun(size_t len)
{
	size_t i;
	if (HAVE_ASAN) return 0;
	for (i = 0; i < OB_PAD; i++) if (ob_can[i] != 0xA5) return 1;
	for (i = OB_PAD + len; i < sizeof(ob_can); i++) if (ob_can[i] != 0xA5) return 1;
	return 0;
}
static void ob_free(void)
{
	int i;
	for (i = 0; i <= OB_MAX; i++) { free(ob_heap[i]); ob_heap[i] = NULL; }
}

/* ================================================================== */
/* C40: evutil_inet_ntop                                               */

static const char *fam(int af) { return af == AF_INET ? "4" : "6"; }

/* One call with a buffer of exactly `len` bytes.  `full` is the text obtained
 * with a full-size buffer (already verified through the platform parser) or
 * NULL.  Returns 1 when the call produced text, 0 on NULL. */
static int ntop_call(int af, const unsigned char *addr, size_t len, const char *full, char *copy)
{
	size_t alen = af == AF_INET ? 4 : 16;
	char *b = ob_get(len);
	const char *r = evutil_inet_ntop(af, addr, b, len);
	char hx[40];
	vh_stat("ntop_calls");
	if (ob_overrun(len)) {
		VIOL("C40:ntop-writes-outside-buffer", "af=%s addr=%s len=%zu", fam(af), vh_hex(hx, sizeof(hx), addr, alen), len);
		return 0;
	}
	if (!r) {
		vh_stat("ntop_null");
		if (len >= (size_t)(af == AF_INET ? INET_ADDRSTRLEN : INET6_ADDRSTRLEN))
			VIOL("C40:ntop-fails-with-full-size-buffer", "af=%s addr=%s len=%zu -> NULL", fam(af), vh_hex(hx, sizeof(hx), addr, alen), len);
		return 0;
	}
	vh_stat("ntop_text");
	if (r != b) {
		VIOL("C40:ntop-returns-foreign-pointer", "af=%s addr=%s len=%zu", fam(af), vh_hex(hx, sizeof(hx), addr, alen), len);
		return 0;
	}
	if (!memchr(b, 0, len)) {
		char tx[400];
		VIOL("C40:ntop-unterminated", "af=%s addr=%s len=%zu bytes=\"%s\"", fam(af), vh_hex(hx, sizeof(hx), addr, alen), len, vh_jesc(tx, sizeof(tx), b, len));
		return 0;
	}
	if (copy) strcpy(copy, b);
	if (full && !strcmp(b, full))
		return 1;
	{
		unsigned char back[16];
		memset(back, 0, sizeof(back));
		if (inet_pton(af, b, back) != 1 || memcmp(back, addr, alen)) {
			char tx[400];
			const char *key = "C40:ntop-text-is-not-the-address";
			size_t bl = strlen(b);
			if (af == AF_INET6 && full && strlen(full) == len && bl + 1 == len && !strncmp(b, full, bl))
				key = "C40:ntop6-truncated-when-len-equals-strlen";
			VIOL(key, "af=%s addr=%s len=%zu -> \"%s\" (full text \"%s\"); platform inet_pton does not map it back",
				fam(af), vh_hex(hx, sizeof(hx), addr, alen), len, vh_jesc(tx, sizeof(tx), b, bl), full ? full : "?");
		} else if (full)
			vh_stat("ntop_text_differs_from_full_but_valid");
	}
	return 1;
}

/* IPv4: full-size, strlen+1, strlen and (every fourth address) one rotating length 0..18 */
static void ntop4_addr(uint32_t a, int all_lens)
{
	unsigned char ad[4] = { a >> 24, a >> 16, a >> 8, a };
	char full[80];
	size_t L, l;
	full[0] = 0;
	if (!ntop_call(AF_INET, ad, INET_ADDRSTRLEN, NULL, full))
		return;
	L = strlen(full);
	if (all_lens) {
		for (l = 0; l <= INET6_ADDRSTRLEN + 2; l++)
			if (l != INET_ADDRSTRLEN) ntop_call(AF_INET, ad, l, full, NULL);
	} else {
		ntop_call(AF_INET, ad, L + 1, full, NULL);
		ntop_call(AF_INET, ad, L, full, NULL);
		if ((a & 3) == 0) ntop_call(AF_INET, ad, (a * 2654435761u >> 7) % 19, full, NULL);
	}
}

static unsigned v6_word(vh_rng *r)
{
	switch (vh_below(r, 7)) {
	case 0: return 1 + (unsigned)vh_below(r, 15);
	case 1: return 0x10 + (unsigned)vh_below(r, 0xf0);
	case 2: return 0x100 + (unsigned)vh_below(r, 0xf00);
	case 3: return 0x1000 + (unsigned)vh_below(r, 0xf000);
	case 4: return 0xffff;
	default: return 1 + (unsigned)vh_below(r, 0xffff);
	}
}
/* bit i of mask set => word i is zero */
static void v6_from_mask(vh_rng *r, unsigned mask, unsigned char a[16])
{
	int i;
	for (i = 0; i < 8; i++) {
		unsigned w = (mask >> i) & 1 ? 0 : v6_word(r);
		a[2 * i] = w >> 8; a[2 * i + 1] = w & 0xff;
	}
}
static void v6_special(vh_rng *r, unsigned char a[16])
{
	static const unsigned char v4b[] = { 0, 1, 9, 10, 99, 100, 127, 199, 200, 255 };
	int i;
	memset(a, 0, 16);
	switch (vh_below(r, 8)) {
	case 0: /* v4-mapped */
		a[10] = a[11] = 0xff;
		for (i = 12; i < 16; i++) a[i] = vh_chance(r, 1, 2) ? VH_PICK(r, v4b) : (unsigned char)vh_rand(r);
		break;
	case 1: /* v4-compatible */
		for (i = 12; i < 16; i++) a[i] = vh_chance(r, 1, 2) ? VH_PICK(r, v4b) : (unsigned char)vh_rand(r);
		break;
	case 2: a[15] = 1; break;
	case 3: break;
	case 4: memset(a, 0xff, 16); break;
	case 5: a[10] = a[11] = 0xff; break;              /* ::ffff:0:0 */
	case 6: a[8] = a[9] = 0xff; a[10] = a[11] = 0xff; a[12] = 1; a[15] = 2; break;
	default: a[0] = 0xfe; a[1] = 0x80; a[15] = (unsigned char)(1 + vh_below(r, 255)); break;
	}
}
static void ntop6_addr(const unsigned char a[16], int all_lens, vh_rng *r)
{
	char full[80];
	size_t L, l;
	int ok = 0, nul = 0;
	full[0] = 0;
	if (!ntop_call(AF_INET6, a, INET6_ADDRSTRLEN, NULL, full))
		return;
	L = strlen(full);
	if (all_lens) {
		for (l = 0; l <= INET6_ADDRSTRLEN + 2; l++)
			if (l != INET6_ADDRSTRLEN) { if (ntop_call(AF_INET6, a, l, full, NULL)) ok++; else nul++; }
		ntop_call(AF_INET6, a, 64, full, NULL);
	} else {
		ntop_call(AF_INET6, a, L + 1, full, NULL);
		ntop_call(AF_INET6, a, L, full, NULL);
		if (L) ntop_call(AF_INET6, a, L - 1, full, NULL);
		ntop_call(AF_INET6, a, (size_t)vh_below(r, INET6_ADDRSTRLEN + 3), full, NULL);
	}
	vh_distinct(vh_hash_bytes(6, a, 16));
	vh_sample(2, "{\"op\":\"ntop6\",\"addr\":\"%s\",\"lengths\":\"%s\",\"ok\":%d,\"null\":%d}", full, all_lens ? "0..48,64" : "L+1,L,L-1,rand", ok, nul);
}

static void case_ntop4_block(long idx)
{
	uint32_t base = (uint32_t)idx << 16, j;
	for (j = 0; j < 65536; j++) ntop4_addr(base + j, 0);
	vh_stat_add("cases", 65536);
	vh_stat_add("ntop4_addresses", 65536);
	vh_stat("ntop4_blocks_of_65536");
	vh_distinct(vh_hash_bytes(4, &base, 4));
	vh_sample(1, "{\"op\":\"ntop4-block\",\"first\":\"%u.%u.0.0\",\"count\":65536,\"lengths\":\"16,L+1,L,rot(1/4)\"}", base >> 24, (base >> 16) & 255);
}
static void case_ntop4_sample(vh_rng *r)
{
	static const unsigned char b[] = { 0, 1, 9, 10, 99, 100, 199, 200, 254, 255 };
	int i, k;
	for (i = 0; i < 512; i++) {
		uint32_t a = 0;
		for (k = 0; k < 4; k++) a = (a << 8) | (vh_chance(r, 1, 2) ? VH_PICK(r, b) : (unsigned)vh_below(r, 256));
		ntop4_addr(a, 1);
		vh_distinct(vh_hash_bytes(4, &a, 4));
	}
	vh_stat_add("cases", 512);
	vh_stat_add("ntop4_addresses", 512);
}
static void case_ntop6(vh_rng *r, int all_lens)
{
	unsigned m;
	unsigned char a[16];
	int i;
	for (m = 0; m < 256; m++) {
		v6_from_mask(r, m, a);
		ntop6_addr(a, all_lens, r);
	}
	for (i = 0; i < 64; i++) { v6_special(r, a); ntop6_addr(a, all_lens, r); }
	vh_stat_add("cases", 320);
	vh_stat_add("ntop6_addresses", 320);
	vh_stat_add("ntop6_zero_run_masks", 256);
}

/* ================================================================== */
/* C40: evutil_inet_pton vs. the platform parser                        */

/* s is exactly digits '.' digits '.' digits '.' digits ?  If so write the
 * same text without leading zeros (the allowance the property grants). */
static int norm_v4_zeros(const char *s, char *out, size_t cap)
{
	int comp = 0;
	size_t o = 0;
	const char *p = s;
	for (;;) {
		const char *q = p;
		while (*q >= '0' && *q <= '9') q++;
		if (q == p) return 0;
		while (p + 1 < q && *p == '0') p++;
		if (o + (size_t)(q - p) + 2 > cap) return 0;
		memcpy(out + o, p, (size_t)(q - p)); o += (size_t)(q - p);
		comp++;
		if (*q == 0) break;
		if (*q != '.' || comp == 4) return 0;
		out[o++] = '.';
		p = q + 1;
	}
	out[o] = 0;
	return comp == 4;
}
/* reference verdict: platform inet_pton after the leading-zero allowance.
 * *allow is set when the allowance changed the string. */
static int ref_pton(int af, const char *s, unsigned char *out, int *allow)
{
	char tmp[600];
	size_t n = strlen(s);
	*allow = 0;
	if (n + 1 > sizeof(tmp)) return inet_pton(af, s, out);
	if (af == AF_INET) {
		if (norm_v4_zeros(s, tmp, sizeof(tmp))) {
			if (strcmp(tmp, s)) *allow = 1;
			return inet_pton(af, tmp, out);
		}
	} else {
		const char *c = strrchr(s, ':');
		if (c && strchr(c + 1, '.')) {
			size_t pre = (size_t)(c + 1 - s);
			memcpy(tmp, s, pre);
			if (norm_v4_zeros(c + 1, tmp + pre, sizeof(tmp) - pre)) {
				if (strcmp(tmp, s)) *allow = 1;
				return inet_pton(af, tmp, out);
			}
		}
	}
	return inet_pton(af, s, out);
}
/* a decimal run whose value does not fit 32 bits */
static int has_overflowing_number(const char *s)
{
	while (*s) {
		if (*s >= '0' && *s <= '9') {
			const char *q = s;
			unsigned __int128 v = 0;
			while (*q >= '0' && *q <= '9') { if (v < ((unsigned __int128)1 << 100)) v = v * 10 + (unsigned)(*q - '0'); q++; }
			if (v > 0xffffffffu) return 1;
			s = q;
		} else s++;
	}
	return 0;
}
/* Witness class of a string the library accepts but the strict parser
 * rejects.  An accepted string was consumed completely by the parser, so a
 * character of one of these classes can only have been taken by the laxness
 * named.  NULL = none of the known classes. */
static const char *lax_class(int af, const char *s)
{
	size_t n = strlen(s);
	if (strpbrk(s, " \t\n\v\f\r")) return "whitespace-before-number";
	if (strpbrk(s, "+-")) return "sign-before-number";
	if (af == AF_INET6 && (strstr(s, "0x") || strstr(s, "0X"))) return "0x-prefix-in-ipv6-group";
	if (has_overflowing_number(s)) return "ipv4-component-over-32-bits";
	if (af == AF_INET6 && n >= 2 && s[n - 1] == ':' && s[n - 2] != ':') return "ipv6-trailing-colon";
	return NULL;
}

static void pton_one(int af, const char *s, size_t n)
{
	size_t alen = af == AF_INET ? 4 : 16;
	unsigned char want[16], *got = malloc(alen);
	char *xs = xstr(s, n);
	int allow, rr, gr;
	char tx[700], h1[40], h2[40];
	memset(want, 0, sizeof(want));
	memset(got, 0xA5, alen);
	rr = ref_pton(af, s, want, &allow);
	gr = evutil_inet_pton(af, xs, got);
	vh_stat("pton_calls");
	if (allow) vh_stat("pton_leading_zero_allowance_applied");
	if (rr == 1 && gr == 1) {
		vh_stat(af == AF_INET ? "pton4_both_accept" : "pton6_both_accept");
		if (allow) vh_stat("pton_leading_zero_form_accepted");
		if (memcmp(want, got, alen))
			VIOL("C40:pton-wrong-address", "af=%s \"%s\" -> %s, platform gives %s", fam(af), vh_jesc(tx, sizeof(tx), s, n),
				vh_hex(h1, sizeof(h1), got, alen), vh_hex(h2, sizeof(h2), want, alen));
	} else if (rr != 1 && gr == 1) {
		const char *cls = lax_class(af, s);
		char key[120];
		if (cls) snprintf(key, sizeof(key), "C40:pton-accepts-%s", cls);
		else snprintf(key, sizeof(key), "C40:pton%s-accepts-string-the-platform-rejects", fam(af));
		vh_stat("pton_lax_accept");
		VIOL(key, "af=%s \"%s\" accepted as %s; platform inet_pton rejects it", fam(af), vh_jesc(tx, sizeof(tx), s, n), vh_hex(h1, sizeof(h1), got, alen));
	} else if (rr == 1 && gr != 1) {
		/* the leading-zero allowance is a MAY: not accepting such a form is no violation */
		if (allow) vh_stat("pton_leading_zero_form_rejected");
		else VIOL("C40:pton-rejects-valid-address", "af=%s \"%s\" -> %d; platform accepts (%s)", fam(af), vh_jesc(tx, sizeof(tx), s, n), gr, vh_hex(h2, sizeof(h2), want, alen));
	} else {
		vh_stat(af == AF_INET ? "pton4_both_reject" : "pton6_both_reject");
		if (gr != 0) VIOL("C40:pton-bad-return-code", "af=%s \"%s\" -> %d (neither 0 nor 1)", fam(af), vh_jesc(tx, sizeof(tx), s, n), gr);
	}
	free(xs); free(got);
}

/* ---- string generator ---- */
static size_t gen_v4_text(vh_rng *r, char *out, int messy)
{
	int ncomp = (!messy || vh_chance(r, 9, 10)) ? 4 : (vh_chance(r, 1, 2) ? 3 : 5), i;
	size_t o = 0;
	for (i = 0; i < ncomp; i++) {
		unsigned k = messy ? (unsigned)vh_below(r, 100) : (unsigned)vh_below(r, 80);
		if (i) out[o++] = '.';
		if (k < 70) {
			static const unsigned b[] = { 0, 1, 9, 10, 99, 100, 199, 200, 249, 250, 255 };
			o += (size_t)sprintf(out + o, "%u", vh_chance(r, 1, 3) ? VH_PICK(r, b) : (unsigned)vh_below(r, 256));
		} else if (k < 80) {
			int z = vh_chance(r, 1, 8) ? (int)vh_range(r, 5, 30) : (int)vh_range(r, 1, 4);
			while (z--) out[o++] = '0';
			o += (size_t)sprintf(out + o, "%u", (unsigned)vh_below(r, 256));
		} else if (k < 87) {
			o += (size_t)sprintf(out + o, "%u", (unsigned)vh_range(r, 256, vh_chance(r, 1, 2) ? 260 : 99999));
		} else if (k < 91) {
			static const char *const big[] = { "4294967295", "4294967296", "4294967297", "4294967551", "8589934593",
				"18446744073709551615", "18446744073709551616", "18446744073709551617", "99999999999999999999999" };
			o += (size_t)sprintf(out + o, "%s", VH_PICK(r, big));
		} else if (k < 94) {
			/* empty component */
		} else if (k < 97) {
			static const char *const odd[] = { "0x1", "a", "1e1", "1a", "0b1", "o7" };
			o += (size_t)sprintf(out + o, "%s", VH_PICK(r, odd));
		} else {
			o += (size_t)sprintf(out + o, "%s%u", VH_PICK(r, ((const char *const[]){ " ", "+", "-", "\t", "\n" })), (unsigned)vh_below(r, 256));
		}
	}
	out[o] = 0;
	return o;
}
static size_t gen_v6_text(vh_rng *r, char *out, int messy)
{
	unsigned char a[16];
	unsigned w[8];
	int i, ngroups = 8, v4tail, cpos = -1, clen = 0, upper = vh_chance(r, 1, 4), pad = vh_chance(r, 1, 4);
	size_t o = 0;
	if (vh_chance(r, 1, 5)) v6_special(r, a); else v6_from_mask(r, (unsigned)vh_below(r, 256), a);
	for (i = 0; i < 8; i++) w[i] = (unsigned)a[2 * i] << 8 | a[2 * i + 1];
	v4tail = vh_chance(r, 1, 4);
	if (v4tail) ngroups = 6;
	/* choose a zero run to compress: any run (also length 1, also not the longest), or none */
	if (vh_chance(r, 4, 5)) {
		int starts[8], lens[8], nr = 0;
		for (i = 0; i < ngroups;) {
			if (w[i] == 0) { int j = i; while (j < ngroups && w[j] == 0) j++; starts[nr] = i; lens[nr++] = j - i; i = j; }
			else i++;
		}
		if (nr) { int k = (int)vh_below(r, (uint64_t)nr); cpos = starts[k]; clen = lens[k];
			if (clen > 1 && vh_chance(r, 1, 6)) { int cut = (int)vh_range(r, 1, clen - 1); if (vh_chance(r, 1, 2)) cpos += clen - cut; clen = cut; } }
	}
	for (i = 0; i < ngroups; i++) {
		if (i == cpos) {
			out[o++] = ':'; if (i == 0) out[o++] = ':';
			i += clen - 1;
			if (i == ngroups - 1 && !v4tail) { /* "::" at end */ }
			continue;
		}
		o += (size_t)sprintf(out + o, upper ? (pad ? "%04X" : "%X") : (pad ? "%04x" : "%x"), w[i]);
		if (pad && vh_chance(r, 1, 3) && w[i] < 0x100) { /* partial padding */ o -= 4; o += (size_t)sprintf(out + o, "%03x", w[i]); }
		if (i != ngroups - 1 || v4tail) out[o++] = ':';
	}
	if (cpos >= 0 && cpos + clen == ngroups && v4tail && o && out[o - 1] != ':') out[o++] = ':';
	if (v4tail) {
		if (vh_chance(r, 1, 6)) o += gen_v4_text(r, out + o, messy);
		else o += (size_t)sprintf(out + o, "%u.%u.%u.%u", a[12], a[13], a[14], a[15]);
	}
	out[o] = 0;
	if (messy && vh_chance(r, 1, 3)) {
		char tmp[300];
		switch (vh_below(r, 9)) {
		case 0: o += (size_t)sprintf(out + o, ":%x", v6_word(r)); break;                 /* extra group */
		case 1: { char *c = strchr(out, ':'); if (c && c[1] && c[1] != ':') { memmove(out, c + 1, strlen(c + 1) + 1); o = strlen(out); } break; } /* drop first group */
		case 2: snprintf(tmp, sizeof(tmp), "1%s", out); if (strlen(tmp) < 200) { strcpy(out, tmp); o = strlen(out); } break;
		case 3: o += (size_t)sprintf(out + o, "::"); break;
		case 4: snprintf(tmp, sizeof(tmp), ":%s", out); strcpy(out, tmp); o = strlen(out); break;
		case 5: out[o++] = ':'; out[o] = 0; break;                                  /* trailing colon */
		case 6: snprintf(tmp, sizeof(tmp), "0x%s", out); strcpy(out, tmp); o = strlen(out); break;
		case 7: { char *c = strrchr(out, ':'); if (c && c[1] && !strchr(c, '.')) { snprintf(tmp, sizeof(tmp), "%.*s0x%s", (int)(c + 1 - out), out, c + 1); strcpy(out, tmp); o = strlen(out); } break; }
		default: snprintf(tmp, sizeof(tmp), "%s%%%u", out, (unsigned)vh_below(r, 20)); strcpy(out, tmp); o = strlen(out); break;
		}
	}
	return o;
}
static size_t mutate_text(vh_rng *r, char *s, size_t n, size_t cap)
{
	static const char cs[] = " \t\n\r+-0xX:.%/[]gG1aF9,;_\x80\xff";
	int k = (int)vh_range(r, 1, 2);
	while (k--) {
		size_t pos;
		switch (vh_below(r, 5)) {
		case 0: case 1: /* insert */
			if (n + 2 >= cap) break;
			pos = (size_t)vh_below(r, n + 1);
			memmove(s + pos + 1, s + pos, n - pos + 1); s[pos] = cs[vh_below(r, sizeof(cs) - 1)]; n++;
			break;
		case 2: /* delete */
			if (!n) break;
			pos = (size_t)vh_below(r, n);
			memmove(s + pos, s + pos + 1, n - pos); n--;
			break;
		case 3: /* replace */
			if (!n) break;
			s[vh_below(r, n)] = cs[vh_below(r, sizeof(cs) - 1)];
			break;
		default: /* duplicate a char */
			if (!n || n + 2 >= cap) break;
			pos = (size_t)vh_below(r, n);
			memmove(s + pos + 1, s + pos, n - pos + 1); n++;
			break;
		}
	}
	return n;
}
static const char *const PTON_FIXED[] = {
	"1.2.3.4", " 1.2.3.4", "+1.2.3.4", "1.2.3.4 ", "1.2.3", "1.2.3.4.5", "01.2.3.4", "001.002.003.004", "1.2.3.256",
	"0x1.2.3.4", "1.2.3.4\n", "-0.1.2.3", "1. 2.3.4", "1.+2.3.4", "4294967297.2.3.4", "1.2.3.4294967300", "18446744073709551617.2.3.4",
	"", ".", "...", "1..2.3", "1.2.3.", ".1.2.3", "255.255.255.255", "0.0.0.0", "256.0.0.0", "1.2.3.4.", "1,2,3,4",
	"::", "::1", "1::", "0x1::", "::0x1", "0X1::", "1:2:3:4:5:6:7:8", "1:2:3:4:5:6:7::", "::2:3:4:5:6:7:8", "1:2:3:4:5:6:7:8:",
	":1:2:3:4:5:6:7:8", "::1:", "1:", ":", ":::", "1:::2", "1::2::3", "12345::", "::12345", "::ffff:1.2.3.4", "::1.2.3.4",
	"::ffff:01.2.3.4", "::ffff:1.2.3.256", "::ffff: 1.2.3.4", "::ffff:+1.2.3.4", "::1. 2.3.4", "::1.2.3.+4", "1:2:3:4:5:6:1.2.3.4",
	"1:2:3:4:5:6:7:1.2.3.4", "1:2:3:4:5:1.2.3.4", "::1.2.3", "::1.2.3.4.5", "1.2.3.4::", "::g", "fe80::1%1", "::FFFF:1.2.3.4",
	"0:0:0:0:0:0:0:0", "::0", "0::", "ffff:ffff:ffff:ffff:ffff:ffff:ffff:ffff", "ffff:ffff:ffff:ffff:ffff:ffff:255.255.255.255",
	"1:2:3:4:5:6:7", "1:2:3:4:5:6:7:8:9", "::00001", "::0001", "1::8", "1:2::7:8", "::ffff:4294967297.2.3.4", " ::1", "::1 ", "-1::", "+1::",
	"::-1", "1::1.2.3.4", "1:2:3:4:5:6::1.2.3.4", "1:2:3:4:5::1.2.3.4", "::1.2.3.4:5", "[::1]", "::ffff:1.2.3.04",
};
static void pton_string(const char *s, size_t n)
{
	int hasdig = 0; size_t i;
	pton_one(AF_INET, s, n);
	pton_one(AF_INET6, s, n);
	for (i = 0; i < n; i++) if (s[i] >= '0' && s[i] <= '9') hasdig = 1;
	if (hasdig && (memchr(s, '.', n) || memchr(s, ':', n))) vh_distinct(vh_hash_bytes(40, s, n));
}
static void case_pton(vh_rng *r, long idx)
{
	char s[700];
	int i;
	if (idx % 64 == 0) {
		for (i = 0; i < (int)(sizeof(PTON_FIXED) / sizeof(PTON_FIXED[0])); i++)
			pton_string(PTON_FIXED[i], strlen(PTON_FIXED[i]));
		vh_stat_add("cases", (long)(sizeof(PTON_FIXED) / sizeof(PTON_FIXED[0])));
		vh_stat("pton_fixed_list_runs");
	}
	for (i = 0; i < 500; i++) {
		size_t n;
		int kind = (int)vh_below(r, 10);
		if (kind < 2) n = gen_v4_text(r, s, 0);
		else if (kind < 4) n = gen_v4_text(r, s, 1);
		else if (kind < 6) n = gen_v6_text(r, s, 0);
		else if (kind < 8) n = gen_v6_text(r, s, 1);
		else { n = vh_chance(r, 1, 2) ? gen_v4_text(r, s, 0) : gen_v6_text(r, s, 0); n = mutate_text(r, s, n, 300); vh_stat("pton_mutated_strings"); }
		n = strlen(s); /* an inserted NUL cannot happen (cs has none) but keep n honest */
		pton_string(s, n);
		{
			char tx[400];
			vh_sample(3, "{\"op\":\"pton\",\"text\":\"%s\"}", vh_jesc(tx, sizeof(tx), s, n));
		}
	}
	vh_stat_add("cases", 500);
}

/* ================================================================== */
/* C40: evutil_parse_sockaddr_port / evutil_format_sockaddr_port_       */

static void rand_sockaddr(vh_rng *r, struct sockaddr_storage *ss, int *sslen, int want_port)
{
	memset(ss, 0, sizeof(*ss));
	if (vh_chance(r, 1, 2)) {
		struct sockaddr_in *sin = (struct sockaddr_in *)ss;
		static const unsigned char b[] = { 0, 1, 9, 10, 99, 100, 127, 199, 200, 255 };
		unsigned char *p = (unsigned char *)&sin->sin_addr;
		int i;
		sin->sin_family = AF_INET;
		for (i = 0; i < 4; i++) p[i] = vh_chance(r, 1, 2) ? VH_PICK(r, b) : (unsigned char)vh_rand(r);
		sin->sin_port = htons((uint16_t)(want_port ? vh_range(r, 1, 65535) : 0));
		if (want_port && vh_chance(r, 1, 8)) sin->sin_port = htons(VH_PICK(r, ((const uint16_t[]){ 1, 9, 10, 80, 255, 256, 9999, 10000, 32767, 32768, 65534, 65535 })));
		*sslen = sizeof(*sin);
	} else {
		struct sockaddr_in6 *s6 = (struct sockaddr_in6 *)ss;
		s6->sin6_family = AF_INET6;
		if (vh_chance(r, 1, 4)) v6_special(r, s6->sin6_addr.s6_addr);
		else v6_from_mask(r, (unsigned)vh_below(r, 256), s6->sin6_addr.s6_addr);
		s6->sin6_port = htons((uint16_t)(want_port ? vh_range(r, 1, 65535) : 0));
		if (want_port && vh_chance(r, 1, 8)) s6->sin6_port = htons(VH_PICK(r, ((const uint16_t[]){ 1, 9, 10, 80, 255, 256, 9999, 10000, 32767, 32768, 65534, 65535 })));
		*sslen = sizeof(*s6);
	}
}
static int same_endpoint(const struct sockaddr *a, const struct sockaddr *b)
{
	if (a->sa_family != b->sa_family) return 0;
	if (a->sa_family == AF_INET) {
		const struct sockaddr_in *x = (const void *)a, *y = (const void *)b;
		return x->sin_addr.s_addr == y->sin_addr.s_addr && x->sin_port == y->sin_port;
	} else {
		const struct sockaddr_in6 *x = (const void *)a, *y = (const void *)b;
		return !memcmp(&x->sin6_addr, &y->sin6_addr, 16) && x->sin6_port == y->sin6_port && x->sin6_scope_id == y->sin6_scope_id;
	}
}
/* parse `text` with an output block of exactly `cap` bytes; returns rc, fills *out (storage) */
static int parse_exact(const char *text, int cap, struct sockaddr_storage *out, int *outlen)
{
	char *xs = xstr(text, strlen(text));
	struct sockaddr *blk = malloc((size_t)cap);
	int ol = cap, rc;
	memset(blk, 0xA5, (size_t)cap);
	rc = evutil_parse_sockaddr_port(xs, blk, &ol);
	memset(out, 0, sizeof(*out));
	if (rc == 0 && ol >= 0 && ol <= cap) memcpy(out, blk, (size_t)ol);
	*outlen = ol;
	free(blk); free(xs);
	vh_stat("parse_calls");
	return rc;
}
static void sap_roundtrip(vh_rng *r)
{
	struct sockaddr_storage ss, back;
	int sslen, blen, rc;
	char tx[300];
	size_t outlen = 128;
	char *out;
	const char *res;
	rand_sockaddr(r, &ss, &sslen, 1);
	out = malloc(outlen);
	memset(out, 0xA5, outlen);
	res = evutil_format_sockaddr_port_((struct sockaddr *)&ss, out, outlen);
	vh_stat("format_calls");
	if (res != out || !memchr(out, 0, outlen)) {
		VIOL("C40:format-unterminated", "format_sockaddr_port_ family=%d gave no terminated text in 128 bytes", ss.ss_family);
		free(out); return;
	}
	snprintf(tx, sizeof(tx), "%s", out);
	free(out);
	rc = parse_exact(tx, vh_chance(r, 1, 2) ? sslen : (int)sizeof(back), &back, &blen);
	if (rc != 0 || blen != sslen || !same_endpoint((struct sockaddr *)&ss, (struct sockaddr *)&back)) {
		char h1[80], h2[80];
		VIOL("C40:sockaddr-port-roundtrip", "format -> \"%s\" -> parse rc=%d len=%d (want %d) bytes %s vs %s", tx, rc, blen, sslen,
			vh_hex(h1, sizeof(h1), &back, 28), vh_hex(h2, sizeof(h2), &ss, 28));
	} else
		vh_stat(ss.ss_family == AF_INET ? "roundtrip4_ok" : "roundtrip6_ok");
	vh_distinct(vh_hash_bytes(41, tx, strlen(tx)));
	vh_sample(2, "{\"op\":\"format/parse\",\"text\":\"%s\"}", tx);
	/* small output buffers: only memory safety + termination (evutil_snprintf contract) */
	{
		size_t small = (size_t)vh_below(r, strlen(tx) + 2);
		char *o2 = malloc(small);
		memset(o2, 0xA5, small);
		res = evutil_format_sockaddr_port_((struct sockaddr *)&ss, o2, small);
		vh_stat("format_small_buffer_calls");
		if (res != o2 || (small && !memchr(o2, 0, small)))
			VIOL("C40:format-unterminated", "format_sockaddr_port_ with outlen=%zu: no NUL inside the buffer", small);
		else if (small && strncmp(o2, tx, strlen(o2)))
			VIOL("C40:format-truncation-not-a-prefix", "outlen=%zu gives \"%s\", full \"%s\"", small, o2, tx);
		free(o2);
	}
}
/* valid textual forms built with our own renderer; address verified by the platform parser */
static void sap_forms(vh_rng *r)
{
	char addr[300], text[400];
	unsigned char want[16];
	int is6 = vh_chance(r, 1, 2), form, port = 0, rc, blen, cap, need, allow;
	struct sockaddr_storage back;
	unsigned scope = 0;
	if (is6) gen_v6_text(r, addr, 0); else gen_v4_text(r, addr, 0);
	if (ref_pton(is6 ? AF_INET6 : AF_INET, addr, want, &allow) != 1 || allow) { vh_stat("forms_skipped_invalid_addr"); return; }
	port = (int)(vh_chance(r, 1, 4) ? VH_PICK(r, ((const int[]){ 1, 9, 80, 255, 256, 32768, 65534, 65535 })) : vh_range(r, 1, 65535));
	if (is6) {
		form = (int)vh_below(r, 4);
		if (form == 3) { scope = (unsigned)vh_range(r, 1, 99999); }
		switch (form) {
		case 0: snprintf(text, sizeof(text), "[%s]:%d", addr, port); break;
		case 1: snprintf(text, sizeof(text), "[%s]", addr); port = 0; break;
		case 2: snprintf(text, sizeof(text), "%s", addr); port = 0; break;
		default: snprintf(text, sizeof(text), "[%s%%%u]:%d", addr, scope, port); break;
		}
		need = sizeof(struct sockaddr_in6);
	} else {
		form = (int)vh_below(r, 2);
		if (form == 0) snprintf(text, sizeof(text), "%s:%d", addr, port);
		else { snprintf(text, sizeof(text), "%s", addr); port = 0; }
		need = sizeof(struct sockaddr_in);
	}
	/* capacity: exact, larger, or too small */
	switch (vh_below(r, 4)) {
	case 0: cap = need - 1 - (int)vh_below(r, 4); break;
	case 1: cap = (int)sizeof(struct sockaddr_storage); break;
	default: cap = need; break;
	}
	rc = parse_exact(text, cap, &back, &blen);
	if (cap < need) {
		vh_stat("parse_outlen_too_small");
		if (rc != -1) VIOL("C40:parse-ignores-outlen", "\"%s\" with *outlen=%d (need %d) -> rc=%d", text, cap, need, rc);
		return;
	}
	if (rc != 0 || blen != need) {
		VIOL("C40:parse-rejects-valid-form", "\"%s\" -> rc=%d outlen=%d", text, rc, blen);
		return;
	}
	if (is6) {
		struct sockaddr_in6 *s6 = (void *)&back;
		if (s6->sin6_family != AF_INET6 || memcmp(&s6->sin6_addr, want, 16) || ntohs(s6->sin6_port) != port || s6->sin6_scope_id != scope)
			VIOL("C40:parse-wrong-result", "\"%s\" -> family=%d port=%d scope=%u", text, s6->sin6_family, ntohs(s6->sin6_port), s6->sin6_scope_id);
		else vh_stat(scope ? "parse6_scoped_ok" : "parse6_ok");
	} else {
		struct sockaddr_in *s4 = (void *)&back;
		if (s4->sin_family != AF_INET || memcmp(&s4->sin_addr, want, 4) || ntohs(s4->sin_port) != port)
			VIOL("C40:parse-wrong-result", "\"%s\" -> family=%d port=%d", text, s4->sin_family, ntohs(s4->sin_port));
		else vh_stat("parse4_ok");
	}
	vh_distinct(vh_hash_bytes(42, text, strlen(text)));
}
/* must-reject: address part the platform rejects (outside the known lax classes), ports outside 1..65535 */
static void sap_invalid(vh_rng *r)
{
	char addr[300], text[400];
	unsigned char tmp[16];
	int is6 = vh_chance(r, 1, 2), rc, blen, allow, af = is6 ? AF_INET6 : AF_INET;
	struct sockaddr_storage back;
	size_t n;
	if (vh_chance(r, 1, 3)) {
		/* valid address, bad port */
		static const long edge[] = { 65536, 65537, 65540, 70000, 99999, 100000, 131071, 131072, 655350, 2147483647L };
		long port = vh_chance(r, 1, 3) ? 0 : vh_chance(r, 1, 2) ? VH_PICK(r, edge) : vh_range(r, 65536, 99999);  /* CALIBRATED: port 0 in text is refused */
		if (is6) gen_v6_text(r, addr, 0); else gen_v4_text(r, addr, 0);
		if (ref_pton(af, addr, tmp, &allow) != 1) return;
		if (is6) snprintf(text, sizeof(text), "[%s]:%ld", addr, port); else snprintf(text, sizeof(text), "%s:%ld", addr, port);
		rc = parse_exact(text, sizeof(back), &back, &blen);
		vh_stat("parse_bad_port");
		if (rc != -1) VIOL("C40:parse-accepts-port-out-of-range", "\"%s\" -> rc=%d port=%d", text, rc, ntohs(((struct sockaddr_in *)&back)->sin_port));
		return;
	}
	n = is6 ? gen_v6_text(r, addr, 1) : gen_v4_text(r, addr, 1);
	if (vh_chance(r, 1, 2)) n = mutate_text(r, addr, n, 200);
	if (strpbrk(addr, "[]%") || (!is6 && strchr(addr, ':')) || (is6 && !strchr(addr, ':'))) return;
	if (ref_pton(af, addr, tmp, &allow) == 1) return;
	if (lax_class(af, addr)) { vh_stat("parse_invalid_skipped_lax_class"); return; }
	if (is6) snprintf(text, sizeof(text), vh_chance(r, 1, 2) ? "[%s]:80" : "[%s]", addr);
	else snprintf(text, sizeof(text), vh_chance(r, 1, 2) ? "%s:80" : "%s", addr);
	rc = parse_exact(text, sizeof(back), &back, &blen);
	vh_stat("parse_invalid_addr");
	if (rc != -1) {
		char tx[500];
		VIOL("C40:parse-accepts-invalid-address", "\"%s\" -> rc=%d", vh_jesc(tx, sizeof(tx), text, strlen(text)), rc);
	}
}
static void case_sap(vh_rng *r)
{
	int i;
	for (i = 0; i < 200; i++) {
		sap_roundtrip(r);
		sap_forms(r);
		sap_invalid(r);
	}
	vh_stat_add("cases", 600);
}

/* ================================================================== */
/* C41: ASCII helpers (reference definitions are range tests, no tables) */

static unsigned ref_lower(unsigned c) { return (c >= 'A' && c <= 'Z') ? c + 32 : c; }
static unsigned ref_upper(unsigned c) { return (c >= 'a' && c <= 'z') ? c - 32 : c; }
static int ref_isalpha(unsigned c) { return (c >= 'A' && c <= 'Z') || (c >= 'a' && c <= 'z'); }
static int ref_isdigit(unsigned c) { return c >= '0' && c <= '9'; }
static int ref_isalnum(unsigned c) { return ref_isalpha(c) || ref_isdigit(c); }
static int ref_isspace(unsigned c) { return c == ' ' || (c >= 9 && c <= 13); }
static int ref_isxdigit(unsigned c) { return ref_isdigit(c) || (c >= 'a' && c <= 'f') || (c >= 'A' && c <= 'F'); }
static int ref_isprint(unsigned c) { return c >= 0x20 && c <= 0x7e; }
static int ref_islower(unsigned c) { return c >= 'a' && c <= 'z'; }
static int ref_isupper(unsigned c) { return c >= 'A' && c <= 'Z'; }
static int sgn(int v) { return v < 0 ? -1 : v > 0; }
/* strncasecmp by definition: bytes as unsigned char, ASCII case folded; n = (size_t)-1 for strcasecmp */
static int ref_casecmp(const unsigned char *a, const unsigned char *b, size_t n)
{
	size_t i;
	for (i = 0; i < n; i++) {
		unsigned x = ref_lower(a[i]), y = ref_lower(b[i]);
		if (x != y) return x < y ? -1 : 1;
		if (!x) return 0;
	}
	return 0;
}
/* position of the byte that decides the reference comparison (or -1) */
static long casecmp_decider(const unsigned char *a, const unsigned char *b, size_t n)
{
	size_t i;
	for (i = 0; i < n; i++) {
		if (ref_lower(a[i]) != ref_lower(b[i])) return (long)i;
		if (!a[i]) return -1;
	}
	return -1;
}
static void casecmp_check(const char *fn, const char *a, size_t la, const char *b, size_t lb, size_t n, int use_n)
{
	char *xa = xstr(a, la), *xb = xstr(b, lb);
	int got = use_n ? evutil_ascii_strncasecmp(xa, xb, n) : evutil_ascii_strcasecmp(xa, xb);
	int want = ref_casecmp((unsigned char *)xa, (unsigned char *)xb, use_n ? n : (size_t)-1);
	vh_stat(use_n ? "strncasecmp_calls" : "strcasecmp_calls");
	if (want == 0) vh_stat("casecmp_equal"); else vh_stat("casecmp_ordered");
	if (sgn(got) != want) {
		char t1[300], t2[300], key[100];
		long d = casecmp_decider((unsigned char *)xa, (unsigned char *)xb, use_n ? n : (size_t)-1);
		/* witness class: the deciding pair has exactly one byte >= 0x80 (signed-char ordering) */
		int hi = d >= 0 && (((unsigned char)xa[d] >= 0x80) != ((unsigned char)xb[d] >= 0x80)) && want != 0 && sgn(got) == -want;
		snprintf(key, sizeof(key), hi ? "C41:%s-orders-high-bytes-as-negative" : "C41:%s-wrong-result", fn);
		VIOL(key, "%s(\"%s\",\"%s\"%s%zu) = %d, definition gives %d", fn, vh_jesc(t1, sizeof(t1), a, la), vh_jesc(t2, sizeof(t2), b, lb), use_n ? ", n=" : " /", use_n ? n : (size_t)0, got, want);
	}
	free(xa); free(xb);
}
/* exhaustive: first byte a = idx, every second byte b; all single-byte strings plus embeddings */
static void case_ctype(long idx)
{
	unsigned a = (unsigned)idx & 255, b;
	struct { const char *n; int (*f)(char); int (*r)(unsigned); } ct[] = {
		{ "ISALPHA", EVUTIL_ISALPHA_, ref_isalpha }, { "ISALNUM", EVUTIL_ISALNUM_, ref_isalnum }, { "ISSPACE", EVUTIL_ISSPACE_, ref_isspace },
		{ "ISDIGIT", EVUTIL_ISDIGIT_, ref_isdigit }, { "ISXDIGIT", EVUTIL_ISXDIGIT_, ref_isxdigit }, { "ISPRINT", EVUTIL_ISPRINT_, ref_isprint },
		{ "ISLOWER", EVUTIL_ISLOWER_, ref_islower }, { "ISUPPER", EVUTIL_ISUPPER_, ref_isupper } };
	size_t k;
	for (k = 0; k < sizeof(ct) / sizeof(ct[0]); k++) {
		int g = ct[k].f((char)a), w = ct[k].r(a);
		vh_stat("ctype_calls");
		if (w) vh_stat("ctype_members");
		if (g != w) VIOL("C41:ctype-class-wrong", "EVUTIL_%s_(0x%02x) = %d, definition %d", ct[k].n, a, g, w);
	}
	if ((unsigned char)EVUTIL_TOLOWER_((char)a) != ref_lower(a)) VIOL("C41:tolower-wrong", "EVUTIL_TOLOWER_(0x%02x) = 0x%02x", a, (unsigned char)EVUTIL_TOLOWER_((char)a));
	if ((unsigned char)EVUTIL_TOUPPER_((char)a) != ref_upper(a)) VIOL("C41:toupper-wrong", "EVUTIL_TOUPPER_(0x%02x) = 0x%02x", a, (unsigned char)EVUTIL_TOUPPER_((char)a));
	vh_stat_add("casemap_calls", 2);
	for (b = 0; b < 256; b++) {
		char s1[8], s2[8];
		size_t n;
		s1[0] = (char)a; s2[0] = (char)b;
		casecmp_check("strcasecmp", s1, 1, s2, 1, 0, 0);
		for (n = 0; n <= 2; n++) casecmp_check("strncasecmp", s1, 1, s2, 1, n, 1);
		/* embedded after a case-differing common prefix, followed by differing tails */
		memcpy(s1, "xY", 2); s1[2] = (char)a; s1[3] = 'p'; memcpy(s2, "Xy", 2); s2[2] = (char)b; s2[3] = 'q';
		casecmp_check("strcasecmp", s1, 4, s2, 4, 0, 0);
		for (n = 2; n <= 4; n++) casecmp_check("strncasecmp", s1, 4, s2, 4, n, 1);
		vh_stat("byte_pairs");
	}
	vh_stat_add("cases", 256);
	vh_distinct(vh_hash_bytes(410, &a, sizeof(a)));
	vh_sample(1, "{\"op\":\"ctype+casecmp\",\"first_byte\":%u,\"second_bytes\":\"0..255\"}", a);
}

/* ---- random strings ---- */
static size_t rand_ascii(vh_rng *r, char *s, size_t maxlen)
{
	static const char edge[] = "@AZ[`az{ \t\r\n09_-:;/\\\x7f\x80\xc1\xe1\xff\x01";
	size_t n = vh_chance(r, 1, 10) ? 0 : (size_t)vh_below(r, maxlen + 1), i;
	int style = (int)vh_below(r, 4);
	for (i = 0; i < n; i++) {
		unsigned c;
		switch (style) {
		case 0: c = "abAB"[vh_below(r, 4)]; break;                /* tiny alphabet: many partial matches */
		case 1: c = (unsigned)vh_range(r, 'A', 'z'); break;
		case 2: c = (unsigned char)edge[vh_below(r, sizeof(edge) - 1)]; break;
		default: c = 1 + (unsigned)vh_below(r, 255); break;
		}
		if (vh_chance(r, 1, 12)) c = (unsigned char)edge[vh_below(r, sizeof(edge) - 1)];
		s[i] = (char)c;
	}
	s[n] = 0;
	return n;
}
static void flip_case(vh_rng *r, char *s, size_t n, unsigned num, unsigned den)
{
	size_t i;
	for (i = 0; i < n; i++) {
		unsigned c = (unsigned char)s[i];
		if (ref_isalpha(c) && vh_chance(r, num, den)) s[i] = (char)(c ^ 0x20);
	}
}
static void str_casecmp(vh_rng *r)
{
	char a[80], b[80];
	size_t la = rand_ascii(r, a, 24), lb, n;
	if (vh_chance(r, 3, 4)) {
		memcpy(b, a, la + 1); lb = la;
		flip_case(r, b, lb, 1, 2);
		switch (vh_below(r, 4)) {
		case 0: break;
		case 1: if (lb) { b[vh_below(r, lb)] = (char)(1 + vh_below(r, 255)); } break;
		case 2: if (lb) { lb = (size_t)vh_below(r, lb); b[lb] = 0; } break;
		default: b[lb++] = (char)(1 + vh_below(r, 255)); b[lb] = 0; break;
		}
	} else lb = rand_ascii(r, b, 24);
	n = vh_chance(r, 1, 8) ? (size_t)vh_range(r, 1000, 100000) : (size_t)vh_below(r, (la > lb ? la : lb) + 3);
	casecmp_check("strcasecmp", a, la, b, lb, 0, 0);
	casecmp_check("strncasecmp", a, la, b, lb, n, 1);
	{ uint64_t h = vh_hash_bytes(411, a, la); vh_distinct(vh_hash_bytes(h, b, lb) + n); }
}
static void str_casestr(vh_rng *r)
{
	char hay[100], nd[100], t1[400], t2[400];
	size_t lh = rand_ascii(r, hay, 40), ln, i, j;
	long want = -1, got;
	char *xh, *xn;
	const char *res;
	if (lh && vh_chance(r, 3, 4)) {
		size_t st = (size_t)vh_below(r, lh), len = (size_t)vh_below(r, lh - st + 1);
		memcpy(nd, hay + st, len); nd[len] = 0; ln = len;
		flip_case(r, nd, ln, 1, 2);
		if (ln && vh_chance(r, 1, 4)) nd[vh_below(r, ln)] = (char)(1 + vh_below(r, 255));
		if (vh_chance(r, 1, 8)) { nd[ln++] = 'q'; nd[ln] = 0; }
	} else ln = rand_ascii(r, nd, 6);
	ln = strlen(nd);
	for (i = 0; i + ln <= lh && want < 0; i++) {
		for (j = 0; j < ln; j++) if (ref_lower((unsigned char)hay[i + j]) != ref_lower((unsigned char)nd[j])) break;
		if (j == ln) want = (long)i;
	}
	xh = xstr(hay, lh); xn = xstr(nd, ln);
	res = evutil_ascii_strcasestr(xh, xn);
	got = res ? (long)(res - xh) : -1;
	vh_stat("strcasestr_calls");
	if (want >= 0) vh_stat("strcasestr_found"); else vh_stat("strcasestr_absent");
	if (res && (res < xh || res > xh + lh)) got = -2;
	if (got != want)
		VIOL("C41:strcasestr-wrong-result", "strcasestr(\"%s\",\"%s\") -> offset %ld, definition %ld", vh_jesc(t1, sizeof(t1), hay, lh), vh_jesc(t2, sizeof(t2), nd, ln), got, want);
	free(xh); free(xn);
	{ uint64_t h = vh_hash_bytes(412, hay, lh); vh_distinct(vh_hash_bytes(h, nd, ln)); }
	vh_sample(1, "{\"op\":\"strcasestr\",\"hay\":\"%s\",\"needle\":\"%s\",\"offset\":%ld}", vh_jesc(t1, sizeof(t1), hay, lh), vh_jesc(t2, sizeof(t2), nd, ln), want);
}
static void str_rtrim(vh_rng *r)
{
	char s[100], want[100], t1[400], t2[400];
	static const char ws[] = " \t \t\r\n\v\f\xa0";
	size_t n = rand_ascii(r, s, 20), k = (size_t)vh_below(r, 8), wl;
	char *xs;
	while (k--) s[n++] = vh_chance(r, 5, 6) ? " \t"[vh_below(r, 2)] : ws[vh_below(r, sizeof(ws) - 1)];
	s[n] = 0;
	n = strlen(s);
	memcpy(want, s, n + 1); wl = n;
	while (wl && (want[wl - 1] == ' ' || want[wl - 1] == '\t')) want[--wl] = 0;
	xs = xstr(s, n);
	evutil_rtrim_lws_(xs);
	vh_stat("rtrim_calls");
	if (wl != n) vh_stat("rtrim_trimmed"); else vh_stat("rtrim_unchanged");
	if (wl == 0 && n) vh_stat("rtrim_all_whitespace");
	if (strlen(xs) != wl || memcmp(xs, want, wl))
		VIOL("C41:rtrim-wrong-result", "rtrim_lws_(\"%s\") -> \"%s\"", vh_jesc(t1, sizeof(t1), s, n), vh_jesc(t2, sizeof(t2), xs, strlen(xs)));
	free(xs);
	vh_distinct(vh_hash_bytes(413, s, n));
	if (vh_chance(r, 1, 50)) { evutil_rtrim_lws_(NULL); vh_stat("rtrim_null"); }
}
/* evutil_snprintf: every buffer size 0..len+2 in an exact-size heap block.
 * CALIBRATED: buflen==0 returns 0 (the implementation's documented early return);
 * otherwise the C99 value (length of the complete output), always terminated,
 * content = longest prefix that fits. */
static void str_snprintf(vh_rng *r)
{
	char full[600], a1[80], t1[700];
	const char *fmtname;
	int want, kind = (int)vh_below(r, 8), got;
	size_t bl, la = rand_ascii(r, a1, 40);
	long long v1 = (long long)vh_rand(r) >> vh_below(r, 64);
	int i1 = (int)vh_rand(r) >> vh_below(r, 32), w = (int)vh_below(r, 20);
	unsigned u1 = (unsigned)vh_rand(r) >> vh_below(r, 32);
	if (vh_chance(r, 1, 2)) v1 = -v1;
#define FMT(buf, cap) ( \
	kind == 0 ? evutil_snprintf(buf, cap, "%s", a1) : \
	kind == 1 ? evutil_snprintf(buf, cap, "%d.%d.%d.%d", i1 & 255, (i1 >> 8) & 255, (int)(u1 & 255), w) : \
	kind == 2 ? evutil_snprintf(buf, cap, "[%s]:%d", a1, i1) : \
	kind == 3 ? evutil_snprintf(buf, cap, "%*d|%-*u|%x", w, i1, w, u1, u1) : \
	kind == 4 ? evutil_snprintf(buf, cap, "%lld %ld %c%%", v1, (long)i1, 'A' + w) : \
	kind == 5 ? evutil_snprintf(buf, cap, "%.*s<%5s>", w, a1, "ab") : \
	kind == 6 ? evutil_snprintf(buf, cap, "%s", "") : \
	            evutil_snprintf(buf, cap, "%08x:%zu:%s", u1, (size_t)u1, a1))
#define REF(buf, cap) ( \
	kind == 0 ? snprintf(buf, cap, "%s", a1) : \
	kind == 1 ? snprintf(buf, cap, "%d.%d.%d.%d", i1 & 255, (i1 >> 8) & 255, (int)(u1 & 255), w) : \
	kind == 2 ? snprintf(buf, cap, "[%s]:%d", a1, i1) : \
	kind == 3 ? snprintf(buf, cap, "%*d|%-*u|%x", w, i1, w, u1, u1) : \
	kind == 4 ? snprintf(buf, cap, "%lld %ld %c%%", v1, (long)i1, 'A' + w) : \
	kind == 5 ? snprintf(buf, cap, "%.*s<%5s>", w, a1, "ab") : \
	kind == 6 ? snprintf(buf, cap, "%s", "") : \
	            snprintf(buf, cap, "%08x:%zu:%s", u1, (size_t)u1, a1))
	(void)la; (void)fmtname;
	want = REF(full, sizeof(full));
	if (want < 0 || (size_t)want >= sizeof(full)) return;
	for (bl = 0; bl <= (size_t)want + 2; bl++) {
		char *b = malloc(bl);
		size_t fit = bl ? (bl - 1 < (size_t)want ? bl - 1 : (size_t)want) : 0;
		memset(b, 0xA5, bl);
		got = FMT(b, bl);
		vh_stat("snprintf_calls");
		if (bl == 0) {
			vh_stat("snprintf_zero_size");
			if (got != 0) VIOL("C41:snprintf-zero-size-return", "kind=%d buflen=0 -> %d", kind, got);
		} else {
			if (bl <= (size_t)want) vh_stat("snprintf_truncated"); else vh_stat("snprintf_fits");
			if (got != want)
				VIOL("C41:snprintf-return-value", "kind=%d buflen=%zu full=\"%s\" -> %d want %d", kind, bl, vh_jesc(t1, sizeof(t1), full, (size_t)want), got, want);
			else if (b[fit] != 0 || memcmp(b, full, fit))
				VIOL("C41:snprintf-content-or-termination", "kind=%d buflen=%zu full=\"%s\": buffer is not the terminated %zu-byte prefix", kind, bl, vh_jesc(t1, sizeof(t1), full, (size_t)want), fit);
		}
		free(b);
	}
	{ uint64_t h = vh_hash_bytes(414, full, (size_t)want); vh_distinct(h + (uint64_t)kind); }
#undef FMT
#undef REF
}

/* ---- evutil_sockaddr_cmp ---- */
static void cmp_mutate(vh_rng *r, struct sockaddr_storage *d, const struct sockaddr_storage *s)
{
	*d = *s;
	if (d->ss_family == AF_INET) {
		struct sockaddr_in *x = (void *)d;
		unsigned char *p = (unsigned char *)&x->sin_addr;
		switch (vh_below(r, 5)) {
		case 0: break;
		case 1: p[vh_below(r, 4)] ^= (unsigned char)(1u << vh_below(r, 8)); break;
		case 2: x->sin_port ^= htons((uint16_t)(1u << vh_below(r, 16))); break;
		case 3: memset(x->sin_zero, (int)vh_below(r, 256), sizeof(x->sin_zero)); break;    /* not part of the address */
		default: p[3] ^= 1; x->sin_port ^= htons(1); break;
		}
	} else {
		struct sockaddr_in6 *x = (void *)d;
		switch (vh_below(r, 7)) {
		case 0: break;
		case 1: x->sin6_addr.s6_addr[vh_below(r, 16)] ^= (unsigned char)(1u << vh_below(r, 8)); break;
		case 2: x->sin6_addr.s6_addr[15] ^= (unsigned char)(1u << vh_below(r, 8)); break;   /* last byte only */
		case 3: x->sin6_port ^= htons((uint16_t)(1u << vh_below(r, 16))); break;
		case 4: x->sin6_flowinfo = (uint32_t)vh_rand(r); break;                      /* not part of the address */
		case 5: x->sin6_addr.s6_addr[0] ^= (unsigned char)(1u << vh_below(r, 8)); break;
		default: x->sin6_addr.s6_addr[15] ^= 1; x->sin6_port ^= htons(1); break;
		}
	}
}
static int sa_equal(const struct sockaddr_storage *a, const struct sockaddr_storage *b, int port)
{
	if (a->ss_family != b->ss_family) return 0;
	if (a->ss_family == AF_INET) {
		const struct sockaddr_in *x = (const void *)a, *y = (const void *)b;
		return x->sin_addr.s_addr == y->sin_addr.s_addr && (!port || x->sin_port == y->sin_port);
	} else {
		const struct sockaddr_in6 *x = (const void *)a, *y = (const void *)b;
		return !memcmp(&x->sin6_addr, &y->sin6_addr, 16) && (!port || x->sin6_port == y->sin6_port);
	}
}
static int sa_cmp(const struct sockaddr_storage *a, const struct sockaddr_storage *b, int port)
{
	/* exact-size heap copies: reading past sockaddr_in / sockaddr_in6 is an ASan report */
	size_t la = a->ss_family == AF_INET ? sizeof(struct sockaddr_in) : sizeof(struct sockaddr_in6);
	size_t lb = b->ss_family == AF_INET ? sizeof(struct sockaddr_in) : sizeof(struct sockaddr_in6);
	static void *blk[2][2];   /* exact-size blocks, reused: [operand][is6] */
	void *xa, *xb;
	int v;
	if (!blk[0][0]) { int o; for (o = 0; o < 2; o++) { blk[o][0] = malloc(sizeof(struct sockaddr_in)); blk[o][1] = malloc(sizeof(struct sockaddr_in6)); } }
	xa = blk[0][a->ss_family != AF_INET]; xb = blk[1][b->ss_family != AF_INET];
	memcpy(xa, a, la); memcpy(xb, b, lb);
	v = evutil_sockaddr_cmp(xa, xb, port);
	vh_stat("sockaddr_cmp_calls");
	return v;
}
static void sa_describe(const struct sockaddr_storage *a, char *out, size_t cap)
{
	char h[80];
	if (a->ss_family == AF_INET) { const struct sockaddr_in *x = (const void *)a; snprintf(out, cap, "v4:%s:%u", vh_hex(h, sizeof(h), &x->sin_addr, 4), ntohs(x->sin_port)); }
	else { const struct sockaddr_in6 *x = (const void *)a; snprintf(out, cap, "v6:%s:%u", vh_hex(h, sizeof(h), &x->sin6_addr, 16), ntohs(x->sin6_port)); }
}
static void cmp_triple(vh_rng *r)
{
	struct sockaddr_storage s[3];
	int l, i, j, port;
	char d1[100], d2[100], d3[100];
	rand_sockaddr(r, &s[0], &l, 1);
	for (i = 1; i < 3; i++) {
		if (vh_chance(r, 3, 4)) cmp_mutate(r, &s[i], &s[(int)vh_below(r, (uint64_t)i)]);
		else rand_sockaddr(r, &s[i], &l, 1);
	}
	for (port = 0; port < 2; port++) {
		int c[3][3];
		for (i = 0; i < 3; i++) for (j = 0; j < 3; j++) c[i][j] = sgn(sa_cmp(&s[i], &s[j], port));
		for (i = 0; i < 3; i++) {
			if (c[i][i] != 0) { sa_describe(&s[i], d1, sizeof(d1)); VIOL("C41:sockaddr-cmp-not-reflexive", "cmp(%s,%s,port=%d) = %d", d1, d1, port, c[i][i]); }
			for (j = 0; j < 3; j++) {
				int eq = sa_equal(&s[i], &s[j], port);
				if (i != j) { if (eq) vh_stat("cmp_equal_pairs"); else vh_stat("cmp_unequal_pairs"); }
				if (port && !eq && sa_equal(&s[i], &s[j], 0)) vh_stat("cmp_pairs_differing_only_in_port");
				sa_describe(&s[i], d1, sizeof(d1)); sa_describe(&s[j], d2, sizeof(d2));
				if ((c[i][j] == 0) != eq)
					VIOL(eq ? "C41:sockaddr-cmp-equal-addresses-differ" : "C41:sockaddr-cmp-different-addresses-equal", "cmp(%s,%s,port=%d) = %d", d1, d2, port, c[i][j]);
				if (c[i][j] != -c[j][i])
					VIOL("C41:sockaddr-cmp-not-antisymmetric", "cmp(%s,%s,port=%d)=%d but reversed=%d", d1, d2, port, c[i][j], c[j][i]);
			}
		}
		{
			int p[6][3] = { {0,1,2},{0,2,1},{1,0,2},{1,2,0},{2,0,1},{2,1,0} }, k;
			for (k = 0; k < 6; k++) {
				int x = p[k][0], y = p[k][1], z = p[k][2];
				if (c[x][y] <= 0 && c[y][z] <= 0) {
					vh_stat("cmp_transitivity_checks");
					if (c[x][z] > 0 || ((c[x][y] < 0 || c[y][z] < 0) && c[x][z] == 0)) {
						sa_describe(&s[x], d1, sizeof(d1)); sa_describe(&s[y], d2, sizeof(d2)); sa_describe(&s[z], d3, sizeof(d3));
						VIOL("C41:sockaddr-cmp-not-transitive", "a=%s b=%s c=%s port=%d: a?b=%d b?c=%d a?c=%d", d1, d2, d3, port, c[x][y], c[y][z], c[x][z]);
					}
				}
			}
		}
	}
	if (s[0].ss_family != s[1].ss_family) vh_stat("cmp_mixed_family_triples");
	{ uint64_t h = vh_hash_bytes(415, &s[0], 28); h = vh_hash_bytes(h, &s[1], 28); vh_distinct(vh_hash_bytes(h, &s[2], 28)); }
	sa_describe(&s[0], d1, sizeof(d1)); sa_describe(&s[1], d2, sizeof(d2)); sa_describe(&s[2], d3, sizeof(d3));
	vh_sample(1, "{\"op\":\"sockaddr_cmp\",\"a\":\"%s\",\"b\":\"%s\",\"c\":\"%s\"}", d1, d2, d3);
}
static void case_str(vh_rng *r)
{
	int i;
	for (i = 0; i < 100; i++) { str_casecmp(r); str_casestr(r); str_rtrim(r); str_snprintf(r); }
	vh_stat_add("cases", 400);
}
static void case_sacmp(vh_rng *r)
{
	int i;
	for (i = 0; i < 300; i++) cmp_triple(r);
	vh_stat_add("cases", 300);
}

/* ================================================================== */
/* C46: bounded random choices                                          */

#define DRAW_BOUND 1024   /* CALIBRATED: generous; the worst observed run of rejected draws is reported in the stats */
static const int32_t WR_TOPS[] = { 1, 2, 3, 5, 7, 32, 33, 1000, 1024, 65535, 1 << 30, 0x7fffffff };
static volatile uint32_t wd_state; static volatile int32_t wd_top;
static void on_watchdog(int sig)
{
	char b[160];
	int n = snprintf(b, sizeof(b), "\nWATCHDOG h_util: no progress for 600 s (mode %s, last weakrand state=%u top=%d) -- inconclusive\n", vh_opt.mode ? vh_opt.mode : "?", wd_state, wd_top);
	(void)sig;
	if (n > 0) { ssize_t w = write(2, b, (size_t)n); (void)w; }
	_exit(3);
}
static long wr_maxdraws;
/* one evaluation: the real function from `state` with bound `top`.  A draw is
 * one step of the library's own evutil_weakrand_(), counted on a copy. */
static inline void wr_eval(uint32_t state, int32_t top)
{
	struct evutil_weakrand_state st, cp;
	int32_t v;
	long n = 0;
	st.seed = state; cp.seed = state;
	wd_state = state; wd_top = top;
	v = evutil_weakrand_range_(&st, top);
	if (v < 0 || v >= top) {
		VIOL(v == top ? "C46:weakrand-range-returns-top" : "C46:weakrand-range-out-of-range", "evutil_weakrand_range_(state=%u, top=%d) = %d", state, top, v);
		return;
	}
	do { evutil_weakrand_(&cp); n++; } while (cp.seed != st.seed && n < DRAW_BOUND);
	if (cp.seed != st.seed) {
		VIOL("C46:weakrand-range-draws-not-bounded", "evutil_weakrand_range_(state=%u, top=%d): end state %u not reached within %d draws", state, top, st.seed, DRAW_BOUND);
		return;
	}
	if (n > wr_maxdraws) wr_maxdraws = n;
	if (n > 1) { vh_stat("wr_evaluations_with_redraw"); vh_stat_add("wr_rejected_draws", n - 1); if (n > 8) vh_stat("wr_evaluations_over_8_draws"); if (n > 32) vh_stat("wr_evaluations_over_32_draws"); }
	if (v == 0) vh_stat("wr_result_lowest");
	if (v == top - 1) vh_stat("wr_result_highest");
}
static void case_wr_block(long blk)
{
	uint32_t base = (uint32_t)blk << 16, j;
	size_t t;
	for (t = 0; t < sizeof(WR_TOPS) / sizeof(WR_TOPS[0]); t++)
		for (j = 0; j < 65536; j++) wr_eval(base + j, WR_TOPS[t]);
	vh_stat_add("cases", 65536L * (long)(sizeof(WR_TOPS) / sizeof(WR_TOPS[0])));
	vh_stat_add("wr_states", 65536);
	vh_stat("wr_blocks_of_65536_states");
	vh_distinct(vh_hash_bytes(460, &base, 4));
	vh_sample(1, "{\"op\":\"weakrand_range\",\"states\":\"%u..%u\",\"tops\":\"1,2,3,5,7,32,33,1000,1024,65535,2^30,2^31-1\"}", base, base + 65535);
}
static int32_t rand_top(vh_rng *r)
{
	switch (vh_below(r, 6)) {
	case 0: return (int32_t)vh_range(r, 1, 64);
	case 1: { int32_t p = (int32_t)(1u << vh_range(r, 1, 30)); return p + (int32_t)vh_range(r, -1, 1); }
	case 2: return 0x7fffffff - (int32_t)vh_below(r, 1000);
	case 3: return (int32_t)vh_range(r, 0x3fffffff - 1000, 0x40000000 + 1000);
	case 4: return (int32_t)(0x7fffffff / vh_range(r, 2, 1000)) + (int32_t)vh_range(r, -1, 1);
	default: return (int32_t)vh_range(r, 1, 0x7fffffff);
	}
}
static void case_wr_random(vh_rng *r)
{
	int i;
	for (i = 0; i < 4096; i++) {
		int32_t top = rand_top(r);
		uint32_t st = (uint32_t)vh_rand(r) & 0x7fffffff;
		int k, reps = vh_chance(r, 1, 8) ? 64 : 1;
		for (k = 0; k < reps; k++) wr_eval(st + (uint32_t)k, top);   /* runs of neighbouring states */
		if (i < 60) { uint64_t h = vh_hash_bytes(461, &top, 4); vh_distinct(vh_hash_bytes(h, &st, 4)); }
		vh_stat_add("cases", reps);
		vh_stat("wr_random_tops");
	}
	vh_sample(1, "{\"op\":\"weakrand_range\",\"random_state_top_pairs\":4096}");
}

/* ---- evutil_secure_rng_get_bytes ---- */
static void case_rng(long idx)
{
	size_t n = (size_t)(idx % 4097), i;
	unsigned char *b = malloc(n), *seen = calloc(n + 1, 1);
	int k, bad = 0;
	if (evutil_secure_rng_init() != 0) { vh_stat("rng_init_failed"); free(b); free(seen); return; }
	for (k = 0; k < 16; k++) {
		unsigned char sent = (unsigned char)(0x5a + 37 * k);
		memset(b, sent, n);
		evutil_secure_rng_get_bytes(b, n);
		vh_stat("rng_calls");
		for (i = 0; i < n; i++) if (b[i] != sent) seen[i] = 1;
	}
	for (i = 0; i < n; i++) if (!seen[i]) { if (!bad) VIOL("C46:secure-rng-leaves-byte-unfilled", "length %zu: byte %zu kept the sentinel in 16 of 16 calls", n, i); bad++; }
	vh_stat_add("rng_bytes_requested", (long)n * 16);
	vh_stat_add("rng_positions_checked", (long)n);
	if (n == 0) vh_stat("rng_zero_length");
	vh_stat("cases");
	if (n) vh_distinct(vh_hash_bytes(462, &n, sizeof(n)));
	vh_sample(1, "{\"op\":\"secure_rng_get_bytes\",\"length\":%zu,\"calls\":16,\"unfilled_positions\":%d}", n, bad);
	free(b); free(seen);
}

/* ---- end to end: poll / select dispatch start index ---- */
#define E2E_MAX 64
static int e2_fired[2 * E2E_MAX], e2_order[8 * E2E_MAX], e2_norder;
static int e2_rfd[E2E_MAX];
int __real_read(int, void *, size_t); int __real_write(int, const void *, size_t); int __real_close(int); int __real_pipe2(int *, int);
static void e2_read_cb(evutil_socket_t fd, short what, void *arg)
{
	int k = (int)(intptr_t)arg; char c;
	(void)what;
	if (__real_read(fd, &c, 1) != 1) vh_stat("e2e_spurious_read_event");
	e2_fired[k]++; if (e2_norder < 8 * E2E_MAX) e2_order[e2_norder++] = k;
}
static void e2_write_cb(evutil_socket_t fd, short what, void *arg)
{
	int k = (int)(intptr_t)arg;
	(void)fd; (void)what;
	e2_fired[E2E_MAX + k]++;
}
/* state whose next raw output (per the documented LCG) is `target`; workload steering only.  Whether the
 * steering worked is measured afterwards with the library's own step function. */
static uint32_t lcg_preimage(uint32_t target)
{
	static uint32_t inv;
	if (!inv) { uint32_t a = 1103515245u, x = a; int i; for (i = 0; i < 5; i++) x *= 2 - a * x; inv = x; }
	return ((target - 12345u) * inv) & 0x7fffffff;
}
static long draws_between(uint32_t from, uint32_t to)
{
	struct evutil_weakrand_state cp; long n = 0;
	cp.seed = from;
	while (cp.seed != to && n < 64) { evutil_weakrand_(&cp); n++; }
	return cp.seed == to ? n : -1;
}
static int e2_wait_n[8], e2_nwaits;
static void e2_wait_hook(int kind, int64_t timeout_us, void *a, void *b, void *c, int n)
{
	(void)kind; (void)timeout_us; (void)a; (void)b; (void)c;
	if (e2_nwaits < 8) e2_wait_n[e2_nwaits] = n;
	e2_nwaits++;
}
static void case_dispatch(vh_rng *r, const char *method)
{
	struct event_config *cfg = event_config_new();
	struct event_base *base;
	struct event *rev[E2E_MAX], *wev[E2E_MAX];
	int wfd[E2E_MAX], n = (int)vh_range(r, 1, E2E_MAX), i, round, rounds = 12, haswr[E2E_MAX], maxfd = 0, nslots = 0, selmax = 0;
	event_config_avoid_method(cfg, "epoll");
	if (!strcmp(method, "select")) event_config_avoid_method(cfg, "poll");
	if (!vclk_on) { vclk_enable(1000000); vclk_wait_hook = e2_wait_hook; }
	base = event_base_new_with_config(cfg);
	event_config_free(cfg);
	if (!base || strcmp(event_base_get_method(base), method)) { vh_stat("e2e_backend_unavailable"); if (base) event_base_free(base); return; }
	for (i = 0; i < n; i++) {
		int p[2];
		if (__real_pipe2(p, O_NONBLOCK | O_CLOEXEC)) { n = i; break; }
		e2_rfd[i] = p[0]; wfd[i] = p[1];
		rev[i] = event_new(base, p[0], EV_READ | EV_PERSIST, e2_read_cb, (void *)(intptr_t)i);
		event_add(rev[i], NULL);
		nslots++;
		if (p[0] > maxfd) maxfd = p[0];
		haswr[i] = vh_chance(r, 1, 6);
		wev[i] = haswr[i] ? event_new(base, p[1], EV_WRITE, e2_write_cb, (void *)(intptr_t)i) : NULL;
		if (haswr[i]) { nslots++; if (p[1] > maxfd) maxfd = p[1]; }
	}
	if (!strcmp(method, "select") && n > 0 && vh_chance(r, 1, 3)) {
		/* an add that would grow the fd sets fails for lack of memory: it must leave the tables as they were (the
		 * dispatches below draw their starting descriptor from them) */
		int hp[2];
		if (!__real_pipe2(hp, O_NONBLOCK | O_CLOEXEC)) {
			int hi = fcntl(hp[0], F_DUPFD, (maxfd / 64 + 1) * 64 + (int)vh_below(r, 130)), k2;
			if (hi >= 0 && hi < 1000) {
				for (k2 = 1; k2 <= 6; k2++) {
					struct event *he = event_new(base, hi, EV_READ | EV_PERSIST, e2_read_cb, (void *)(intptr_t)(E2E_MAX - 1));
					int rc;
					if (!he) break;
					mf_arm(k2); rc = event_add(he, NULL); mf_arm(0);
					vh_stat(rc ? "select_add_failed_by_injected_oom" : "select_add_survived_injected_oom");
					if (rc == 0) { event_del(he); if (hi > selmax) selmax = hi; if (hi > maxfd) maxfd = hi; }
					event_free(he);
					if (rc == 0) break;      /* the tables have grown now: nothing left to fail */
				}
			}
			if (hi >= 0) __real_close(hi);
			__real_close(hp[0]); __real_close(hp[1]);
		}
	}
	for (round = 0; round < rounds && n > 0; round++) {
		int ready[E2E_MAX], wready[E2E_MAX], nready = 0, range, k;
		uint32_t target, div, start, after;
		long draws;
		for (i = 0; i < n; i++) {
			ready[i] = vh_chance(r, 1, 1 + (unsigned)vh_below(r, 4));
			if (ready[i]) { nready++; if (__real_write(wfd[i], "x", 1) != 1) ready[i] = 0, nready--; }
			wready[i] = haswr[i] && vh_chance(r, 1, 2);
			if (wready[i]) { event_add(wev[i], NULL); nready++; }
		}
		/* number of slots the backend chooses from */
		{
			int cnt = n; for (i = 0; i < n; i++) if (wready[i]) cnt++;
			range = !strcmp(method, "poll") ? cnt : maxfd + 1;
			/* CALIBRATED: select's table spans 0..highest fd ever registered on this base */
			if (!strcmp(method, "select")) { for (i = 0; i < n; i++) { if (e2_rfd[i] > selmax) selmax = e2_rfd[i]; if (wready[i] && wfd[i] > selmax) selmax = wfd[i]; } range = selmax + 1; }
		}
		div = 0x7fffffffu / (uint32_t)range;
		switch (vh_below(r, 8)) {
		case 0: target = 0; break;
		case 1: target = 0x7fffffff; break;                               /* raw maximum */
		case 2: target = div * (uint32_t)range - 1; break;                  /* last accepted raw value */
		case 3: target = div * (uint32_t)range; break;                      /* first rejected raw value (if <= max) */
		case 4: target = div * (uint32_t)(range - 1); break;
		case 5: target = 0x7fffffff - (uint32_t)vh_below(r, 4); break;
		case 6: target = div * (uint32_t)vh_below(r, (uint64_t)range + 1); break;
		default: target = (uint32_t)vh_rand(r) & 0x7fffffff; break;
		}
		if (target > 0x7fffffff) target = 0x7fffffff;
		start = lcg_preimage(target);
		base->weakrand_seed.seed = start;
		memset(e2_fired, 0, sizeof(e2_fired)); e2_norder = 0; e2_nwaits = 0;
		event_base_loop(base, EVLOOP_NONBLOCK);
		after = base->weakrand_seed.seed;
		draws = draws_between(start, after);
		vh_stat_add(!strcmp(method, "poll") ? "e2e_poll_dispatches" : "e2e_select_dispatches", e2_nwaits);
		/* the wait wrapper saw the table size the backend chooses from: does the steering model agree? */
		if (e2_nwaits && e2_wait_n[0] == range) vh_stat("e2e_range_model_matches"); else vh_stat("e2e_range_model_differs");
		/* poll chooses only when something was ready (first pass); select chooses in every pass */
		if (draws < 0) vh_stat("e2e_draws_unknown");
		else if (draws == 0) vh_stat("e2e_no_choice_made");
		else { vh_stat("e2e_choices"); if (draws > (!strcmp(method, "poll") ? 1 : e2_nwaits)) vh_stat("e2e_choices_with_redraw"); }
		if (target >= div * (uint32_t)range) vh_stat("e2e_steered_to_rejected_raw_value");
		if (target == 0x7fffffff) vh_stat("e2e_steered_to_raw_maximum");
		for (i = 0; i < n; i++) {
			if (e2_fired[i] != (ready[i] ? 1 : 0))
				VIOL(ready[i] ? (!strcmp(method, "poll") ? "C46:poll-ready-fd-not-dispatched-once" : "C46:select-ready-fd-not-dispatched-once") : "C46:e2e-unready-fd-dispatched",
					"%s backend, %d slots, weakrand state %u (raw %u): read fd #%d ready=%d callbacks=%d", method, range, start, target, i, ready[i], e2_fired[i]);
			if (e2_fired[E2E_MAX + i] != (wready[i] ? 1 : 0))
				VIOL(!strcmp(method, "poll") ? "C46:poll-ready-fd-not-dispatched-once" : "C46:select-ready-fd-not-dispatched-once",
					"%s backend, %d slots, weakrand state %u (raw %u): write fd #%d armed=%d callbacks=%d", method, range, start, target, i, wready[i], e2_fired[E2E_MAX + i]);
		}
		vh_stat_add("e2e_ready_fds", nready);
		/* evidence only: callback order of the read events is a rotation of the slot order */
		for (k = 1, i = 0; i + 1 < e2_norder; i++) if (e2_order[i + 1] < e2_order[i]) k++;
		if (e2_norder > 1) vh_stat(k <= 2 ? "e2e_order_is_rotation" : "e2e_order_not_rotation");
		if (e2_norder > 1 && e2_order[0] != 0 && k <= 2) vh_stat("e2e_started_mid_table");
		{ uint64_t h = vh_hash_bytes(463, ready, sizeof(int) * (size_t)n); h = vh_hash_bytes(h, &target, 4); if (nready) vh_distinct(h + (uint64_t)range); }
		vh_sample(1, "{\"op\":\"%s-dispatch\",\"slots\":%d,\"ready\":%d,\"weakrand_state\":%u,\"raw_next\":%u,\"draws\":%ld}", method, range, nready, start, target, draws);
		vh_stat("cases");
	}
	for (i = 0; i < n; i++) {
		event_free(rev[i]); if (wev[i]) event_free(wev[i]);
		__real_close(e2_rfd[i]); __real_close(wfd[i]);
	}
	event_base_free(base);
}


/* ---- end to end, threaded-poll variant (added after seeded defect C46-2 was missed): with locking enabled poll_dispatch
 * scans a snapshot of nfds slots while other threads may register more descriptors; the start index must be chosen inside
 * the snapshot.  Registrations "from another thread" are made from the wait hook, which runs while the loop has released
 * the base lock inside poll().  Phase A makes extra pipes readable and registered (so stale POLLIN results exist in the
 * private copy of the table), phase B removes them, drains them, and re-registers them during the next wait: any callback
 * for such an (empty) descriptor means a slot outside the snapshot was scanned. */
#define X_MAX 24
static struct event_base *x_base;
static struct event *x_ev[X_MAX];
static int x_rfd[X_MAX], x_wfd[X_MAX], x_n, x_phaseb, x_added_in_hook, x_fired_unready;
int __real_poll(struct pollfd *, nfds_t, int);
static void x_cb(evutil_socket_t fd, short what, void *arg)
{
	char c; struct pollfd p; (void)what; (void)arg;
	p.fd = fd; p.events = POLLIN; p.revents = 0;
	if (__real_poll(&p, 1, 0) <= 0 || !(p.revents & POLLIN)) x_fired_unready++;
	else if (__real_read(fd, &c, 1) != 1) x_fired_unready++;
}
static void x_wait_hook(int kind, int64_t timeout_us, void *a, void *b, void *c, int n)
{
	int i;
	(void)kind; (void)timeout_us; (void)a; (void)b; (void)c; (void)n;
	if (!x_phaseb || x_added_in_hook) return;
	x_added_in_hook = 1;
	for (i = 0; i < x_n; i++) event_add(x_ev[i], NULL);   /* "another thread" registers while we sit in poll() */
}
static void case_dispatch_mt(vh_rng *r)
{
	static int threads_on;
	struct event_config *cfg = event_config_new();
	struct event *rev[E2E_MAX];
	int wfd[E2E_MAX], n = (int)vh_range(r, 1, 24), i, round;
	if (!threads_on) { evthread_use_pthreads(); threads_on = 1; }
	event_config_avoid_method(cfg, "epoll");
	if (!vclk_on) vclk_enable(1000000);
	vclk_wait_hook = x_wait_hook;
	x_base = event_base_new_with_config(cfg);
	event_config_free(cfg);
	if (!x_base || strcmp(event_base_get_method(x_base), "poll")) { vh_stat("e2e_backend_unavailable"); if (x_base) event_base_free(x_base); return; }
	for (i = 0; i < n; i++) {
		int p[2];
		if (__real_pipe2(p, O_NONBLOCK | O_CLOEXEC)) { n = i; break; }
		e2_rfd[i] = p[0]; wfd[i] = p[1];
		rev[i] = event_new(x_base, p[0], EV_READ | EV_PERSIST, e2_read_cb, (void *)(intptr_t)i);
		event_add(rev[i], NULL);
	}
	x_n = (int)vh_range(r, 1, X_MAX);
	for (i = 0; i < x_n; i++) {
		int p[2];
		if (__real_pipe2(p, O_NONBLOCK | O_CLOEXEC)) { x_n = i; break; }
		x_rfd[i] = p[0]; x_wfd[i] = p[1];
		x_ev[i] = event_new(x_base, p[0], EV_READ | EV_PERSIST, x_cb, NULL);
	}
	for (round = 0; round < 6; round++) {
		uint32_t target;
		int nready = 0;
		/* phase A: extras registered normally and readable -> their slots in the table copy carry POLLIN */
		x_phaseb = 0; x_fired_unready = 0;
		for (i = 0; i < x_n; i++) { event_add(x_ev[i], NULL); if (__real_write(x_wfd[i], "y", 1) != 1) {} }
		event_base_loop(x_base, EVLOOP_NONBLOCK);
		for (i = 0; i < x_n; i++) event_del(x_ev[i]);
		/* phase B: some base descriptors ready, extras (now empty) re-registered during the wait */
		memset(e2_fired, 0, sizeof(e2_fired)); e2_norder = 0;
		for (i = 0; i < n; i++) if (vh_chance(r, 1, 2)) { if (__real_write(wfd[i], "x", 1) == 1) nready++; else e2_fired[i] = -1000; }
		/* steer the start index to the top of whatever range the backend draws from */
		target = vh_chance(r, 1, 2) ? (0x7fffffffu / (uint32_t)(n + x_n)) * (uint32_t)(n + x_n) - 1 - (uint32_t)vh_below(r, 3) : ((uint32_t)vh_rand(r) & 0x7fffffff);
		x_base->weakrand_seed.seed = lcg_preimage(target);
		x_phaseb = 1; x_added_in_hook = 0;
		event_base_loop(x_base, EVLOOP_NONBLOCK);
		x_phaseb = 0;
		vh_stat("e2e_mt_rounds"); vh_stat_add("e2e_mt_registrations_during_wait", x_added_in_hook ? x_n : 0); vh_stat_add("e2e_ready_fds", nready);
		if (x_fired_unready)
			VIOL("C46:e2e-unready-fd-dispatched", "threaded poll backend: %d callback(s) for descriptors registered during the wait that were not readable (table snapshot %d, %d registered meanwhile, raw %u)",
			     x_fired_unready, n, x_n, target);
		for (i = 0; i < x_n; i++) event_del(x_ev[i]);
		{ uint64_t h = vh_hash_bytes(977, &target, 4); h = vh_hash_bytes(h, &n, 4); h = vh_hash_bytes(h, &x_n, 4); if (nready) vh_distinct(h + (uint64_t)round); }
		vh_stat("cases");
	}
	for (i = 0; i < n; i++) { event_free(rev[i]); __real_close(e2_rfd[i]); __real_close(wfd[i]); }
	for (i = 0; i < x_n; i++) { event_free(x_ev[i]); __real_close(x_rfd[i]); __real_close(x_wfd[i]); }
	event_base_free(x_base); x_base = NULL;
	vclk_wait_hook = NULL;
}

/* ---- end to end: first member served in a rate-limit group ---- */
static void case_group(vh_rng *r)
{
	struct event_base *base = event_base_new();
	struct ev_token_bucket_cfg *cfg;
	struct bufferevent_rate_limit_group *g, *g2;
	struct bufferevent *bev[16][2];
	int member[16], other[16], n = 16, i, round, nm = 0;
	struct timeval tick = { 1, 0 };
	if (!base) return;
	cfg = ev_token_bucket_cfg_new(1000, 1000, 1000, 1000, &tick);
	g = bufferevent_rate_limit_group_new(base, cfg);
	g2 = bufferevent_rate_limit_group_new(base, cfg);   /* members also leave by being moved straight into another group */
	for (i = 0; i < n; i++) {
		other[i] = 0;
		bufferevent_pair_new(base, 0, bev[i]);
		bufferevent_enable(bev[i][0], EV_READ | EV_WRITE);
		member[i] = 0;
	}
	for (round = 0; round < 40; round++) {
		int want = (int)vh_range(r, 1, 16), wr = vh_chance(r, 1, 2);
		uint32_t div, target, start, after;
		long draws;
		ev_ssize_t lim;
		/* adjust membership to `want` members, random choice of who */
		while (nm != want) {
			i = (int)vh_below(r, 16);
			if (nm < want && !member[i]) { if (bufferevent_add_to_rate_limit_group(bev[i][0], g) == 0) { member[i] = 1; other[i] = 0; nm++; } }
			else if (nm > want && member[i]) {
				if (g2 && vh_chance(r, 1, 2)) { if (bufferevent_add_to_rate_limit_group(bev[i][0], g2) == 0) { other[i] = 1; vh_stat("group_members_moved_to_other_group"); } else continue; }
				else bufferevent_remove_from_rate_limit_group(bev[i][0]);
				member[i] = 0; nm--;
			}
		}
		/* exhaust the group bucket: every member must be suspended */
		lim = wr ? bufferevent_rate_limit_group_get_write_limit(g) : bufferevent_rate_limit_group_get_read_limit(g);
		if (lim <= 0) { vh_stat("group_unexpected_level"); break; }
		if (wr) bufferevent_rate_limit_group_decrement_write(g, lim + 5); else bufferevent_rate_limit_group_decrement_read(g, lim + 5);
		for (i = 0; i < 16; i++) {
			struct bufferevent_private *p = BEV_UPCAST(bev[i][0]);
			int susp = !!((wr ? p->write_suspended : p->read_suspended) & BEV_SUSPEND_BW_GROUP);
			if (susp != member[i]) VIOL("C46:group-suspend-missed-member", "group of %d: bufferevent #%d member=%d suspended=%d after exhausting the %s bucket", nm, i, member[i], susp, wr ? "write" : "read");
		}
		div = 0x7fffffffu / (uint32_t)nm;
		switch (vh_below(r, 6)) {
		case 0: target = 0; break;
		case 1: target = 0x7fffffff; break;
		case 2: target = div * (uint32_t)nm - 1; break;
		case 3: target = div * (uint32_t)nm; break;
		case 4: target = div * (uint32_t)vh_below(r, (uint64_t)nm + 1); break;
		default: target = (uint32_t)vh_rand(r) & 0x7fffffff; break;
		}
		if (target > 0x7fffffff) target = 0x7fffffff;
		start = lcg_preimage(target);
		g->weakrand_seed.seed = start;
		/* refill: the group picks a random first member and must unsuspend every member */
		if (wr) bufferevent_rate_limit_group_decrement_write(g, -1000); else bufferevent_rate_limit_group_decrement_read(g, -1000);
		after = g->weakrand_seed.seed;
		draws = draws_between(start, after);
		vh_stat("group_unsuspend_rounds");
		if (draws > 0) { vh_stat("group_choices"); if (draws > 1) vh_stat("group_choices_with_redraw"); }
		else if (draws == 0) vh_stat("group_no_choice_made"); else vh_stat("group_draws_unknown");
		if (target >= div * (uint32_t)nm) vh_stat("group_steered_to_rejected_raw_value");
		for (i = 0; i < 16; i++) {
			struct bufferevent_private *p = BEV_UPCAST(bev[i][0]);
			int susp = !!((wr ? p->write_suspended : p->read_suspended) & BEV_SUSPEND_BW_GROUP);
			if (susp) VIOL("C46:group-member-not-served", "group of %d, weakrand state %u (raw %u): bufferevent #%d (member=%d) still suspended after the %s bucket was refilled", nm, start, target, i, member[i], wr ? "write" : "read");
		}
		{ uint64_t h = vh_hash_bytes(464, member, sizeof(member)); h = vh_hash_bytes(h, &target, 4); vh_distinct(h + (uint64_t)wr); }
		vh_sample(1, "{\"op\":\"group-unsuspend\",\"members\":%d,\"weakrand_state\":%u,\"raw_next\":%u,\"draws\":%ld}", nm, start, target, draws);
		vh_stat("cases");
	}
	for (i = 0; i < n; i++) { if (member[i] || other[i]) bufferevent_remove_from_rate_limit_group(bev[i][0]); bufferevent_free(bev[i][0]); bufferevent_free(bev[i][1]); }
	bufferevent_rate_limit_group_free(g);
	if (g2) bufferevent_rate_limit_group_free(g2);
	ev_token_bucket_cfg_free(cfg);
	event_base_loop(base, EVLOOP_NONBLOCK);
	event_base_free(base);
}

/* @@MAIN@@ */
int main(int argc, char **argv)
{
	long idx; vh_rng r;
	vh_init(argc, argv);
	signal(SIGALRM, on_watchdog);
	if (mode_is("select")) mf_install();   /* allocation faults for the select tables (seed C46-4) */
	while (vh_next_case(&idx, &r)) {
		alarm(600);
		if (mode_is("ntop4")) case_ntop4_block(idx * (vh_opt.n1 > 0 ? vh_opt.n1 : 1) + vh_opt.n2);
		else if (mode_is("ntop4s")) case_ntop4_sample(&r);
		else if (mode_is("ntop6")) case_ntop6(&r, 1);
		else if (mode_is("ntop6f")) case_ntop6(&r, 0);
		else if (mode_is("pton")) case_pton(&r, idx);
		else if (mode_is("sap")) case_sap(&r);
		else if (mode_is("ctype")) case_ctype(idx);
		else if (mode_is("str")) case_str(&r);
		else if (mode_is("sacmp")) case_sacmp(&r);
		else if (mode_is("wr")) case_wr_block(idx * (vh_opt.n1 > 0 ? vh_opt.n1 : 1) + vh_opt.n2);
		else if (mode_is("wrr")) case_wr_random(&r);
		else if (mode_is("rng")) case_rng(idx);
		else if (mode_is("poll")) case_dispatch(&r, "poll");
		else if (mode_is("select")) case_dispatch(&r, "select");
		else if (mode_is("pollmt")) case_dispatch_mt(&r);
		else if (mode_is("group")) case_group(&r);
		else { fprintf(stderr, "h_util: unknown mode\n"); return 2; }
	}
	alarm(0);
	if (wr_maxdraws) { char nm[48]; snprintf(nm, sizeof(nm), "wr_shards_whose_max_draws_was_%ld", wr_maxdraws); vh_stat(nm); }
	ob_free();
	vh_finish();
	return 0;
}
