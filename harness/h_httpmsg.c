/* h_httpmsg: script interpreter for C26 (serialization), C27 (exactly-once
 * completion) and C30 (routing).  All intelligence is in Python
 * (lib/gen/httpmsggen.py, lib/checks/C26.py C27.py C30.py); this file only does
 * the API calls a script asks for and prints what it observes.
 *
 *   h_httpmsg --arg <scriptfile>
 *
 * Script: one command per line, blank-separated tokens.  Data tokens:
 *   hex digits = bytes, "." = empty, "-" = NULL, "@<n>x<hh>" = n copies of byte hh.
 * Trace (stdout): "T <case> <event> ..." ; everything else follows vh.h.
 *
 * Raw peers (clients of evhttp servers, and fake servers for evhttp client
 * connections) are plain non-blocking sockets serviced by the harness between
 * loop calls and from the wait hook; they use the unwrapped syscalls so that
 * sysfault plans only see the library's own I/O.
 */
#include "vh.h"
#include <errno.h>
#include <fcntl.h>
#include <unistd.h>
#include <ctype.h>
#include <sched.h>
#include <sys/ioctl.h>
#include <linux/sockios.h>
#include <sys/socket.h>
#include <sys/uio.h>
#include <netinet/in.h>
#include <netinet/tcp.h>
#include <arpa/inet.h>
#include <event2/event.h>
#include <event2/http.h>
#include <event2/buffer.h>
#include <event2/bufferevent.h>
#include <event2/keyvalq_struct.h>

ssize_t __real_read(int, void *, size_t);
ssize_t __real_write(int, const void *, size_t);
int __real_close(int);
int __real_socket(int, int, int);
int __real_connect(int, const struct sockaddr *, socklen_t);
int __real_accept(int, struct sockaddr *, socklen_t *);
int __real_ioctl(int, unsigned long, ...);
int __real_clock_gettime(clockid_t, struct timespec *);

static struct event_base *base;
static long cs = -1;          /* current case id */
static long nprogress;        /* bumped by every harness callback / peer action */
static int stopped;           /* a callback asked to stop the case ("base free") */
static int in_case;
static long census0_blocks, census0_bytes;
static int quietrx;           /* log only lengths of received peer data */

#define TR(...) do { printf("T %ld ", cs); printf(__VA_ARGS__); putchar('\n'); } while (0)

/* ------------------------------------------------------------ data tokens */
struct blob { char *p; size_t n; int isnull; };
static int hexv(int c) { return c >= '0' && c <= '9' ? c - '0' : c >= 'a' && c <= 'f' ? c - 'a' + 10 : c >= 'A' && c <= 'F' ? c - 'A' + 10 : -1; }
static struct blob blob_parse(const char *t)
{
	struct blob b = { NULL, 0, 0 };
	size_t i, l;
	if (!t || !strcmp(t, "-")) { b.isnull = 1; b.p = calloc(1, 1); return b; }
	if (!strcmp(t, ".")) { b.p = calloc(1, 1); return b; }
	if (t[0] == '@') {
		unsigned long n; unsigned bytev = 0x41;
		char *e;
		n = strtoul(t + 1, &e, 10);
		if (*e == 'x') bytev = (unsigned)strtoul(e + 1, NULL, 16);
		b.p = malloc(n + 1); memset(b.p, (int)bytev, n); b.p[n] = 0; b.n = n;
		return b;
	}
	l = strlen(t);
	b.p = malloc(l / 2 + 1);
	for (i = 0; i + 1 < l; i += 2) b.p[b.n++] = (char)(hexv(t[i]) * 16 + hexv(t[i + 1]));
	b.p[b.n] = 0;
	return b;
}
static void blob_free(struct blob *b) { free(b->p); b->p = NULL; }
static char *hexs(const void *p, size_t n)
{
	static char *buf; static size_t cap;
	const unsigned char *s = p; size_t i;
	static const char hd[] = "0123456789abcdef";
	if (n == 0) return ".";
	if (cap < 2 * n + 1) { cap = 2 * n + 64; buf = realloc(buf, cap); }
	for (i = 0; i < n; i++) { buf[2 * i] = hd[s[i] >> 4]; buf[2 * i + 1] = hd[s[i] & 15]; }
	buf[2 * n] = 0;
	return buf;
}
static char *hexz(const char *s) { return s ? hexs(s, strlen(s)) : "-"; }

/* ------------------------------------------------------------ ext methods */
#define MAXEXT 4
static struct { char name[32]; unsigned type; int hasbody; } exts[MAXEXT];
static int nexts;
static int ext_cmp(struct evhttp_ext_method *m)
{
	int i;
	if (m->method == NULL) {
		for (i = 0; i < nexts; i++) if (exts[i].type == m->type) {
			m->method = exts[i].name;
			m->flags = exts[i].hasbody ? EVHTTP_METHOD_HAS_BODY : 0;
			return 0;
		}
		return -1;
	}
	for (i = 0; i < nexts; i++) if (!strcmp(exts[i].name, m->method)) { m->type = exts[i].type; return 0; }
	return -1;
}

/* ------------------------------------------------------------ raw peers */
struct pstep { long k; int act; struct blob data; };
#define MAXPEER 64
#define MAXPROG 24
struct peer {
	int used, fd, lsn, id;
	struct pstep prog[MAXPROG]; int nprog, pc;
	long since, total;
	int eof, deaf;
};
static struct peer peers[MAXPEER];
#define MAXLSN 4
struct lsn { int used, fd, port, listening; char *progs[24]; int nprogs, naccepted; };
static struct lsn lsns[MAXLSN];
static int next_auto_peer;

static void set_nb(int fd) { int fl = fcntl(fd, F_GETFL); fcntl(fd, F_SETFL, fl | O_NONBLOCK); }
static struct peer *peer_by_id(int id)
{
	int i;
	for (i = 0; i < MAXPEER; i++) if (peers[i].used && peers[i].id == id) return &peers[i];
	return NULL;
}
static struct peer *peer_new(int id)
{
	int i;
	for (i = 0; i < MAXPEER; i++) if (!peers[i].used) {
		memset(&peers[i], 0, sizeof(peers[i]));
		peers[i].used = 1; peers[i].id = id; peers[i].fd = -1; peers[i].lsn = -1;
		return &peers[i];
	}
	return NULL;
}
static void peer_close(struct peer *p, int rst)
{
	if (p->fd < 0) return;
	if (rst) { struct linger lg = { 1, 0 }; setsockopt(p->fd, SOL_SOCKET, SO_LINGER, &lg, sizeof(lg)); }
	__real_close(p->fd);
	p->fd = -1;
	nprogress++;
}
static void peer_send(struct peer *p, const char *d, size_t n)
{
	size_t off = 0; int spins = 0;
	if (p->fd < 0) { TR("ptx %d closed", p->id); return; }
	while (off < n) {
		ssize_t w = __real_write(p->fd, d + off, n - off);
		if (w > 0) { off += (size_t)w; continue; }
		if (w < 0 && (errno == EAGAIN || errno == EINTR) && spins++ < 3) continue;
		break;
	}
	TR("ptx %d %zu/%zu", p->id, off, n);
	nprogress++;
}
static void peer_parse_prog(struct peer *p, const char *spec)
{
	/* steps separated by ',' ; each  <k>:<act>[<data>] */
	char *dup = strdup(spec), *sv = NULL, *tok;
	for (tok = strtok_r(dup, ",", &sv); tok && p->nprog < MAXPROG; tok = strtok_r(NULL, ",", &sv)) {
		struct pstep *s = &p->prog[p->nprog];
		char *c = strchr(tok, ':');
		if (!c) continue;
		s->k = strtol(tok, NULL, 10);
		s->act = c[1];
		s->data = blob_parse(c[2] ? c + 2 : ".");
		p->nprog++;
	}
	free(dup);
}
static void peer_run_prog(struct peer *p)
{
	while (p->pc < p->nprog && p->prog[p->pc].k <= p->since) {
		struct pstep *s = &p->prog[p->pc];
		if (s->act == 'n') return;            /* stall for ever */
		p->since -= s->k;
		p->pc++;
		switch (s->act) {
		case 's': peer_send(p, s->data.p, s->data.n); break;
		case 'c': TR("pact %d close", p->id); peer_close(p, 0); break;
		case 'r': TR("pact %d reset", p->id); peer_close(p, 1); break;
		case 'z': { int sz = 4096; TR("pact %d deaf", p->id); p->deaf = 1; setsockopt(p->fd, SOL_SOCKET, SO_RCVBUF, &sz, sizeof(sz)); break; }   /* never reads again */
		case 'w': TR("pact %d shutwr", p->id); if (p->fd >= 0) shutdown(p->fd, SHUT_WR); nprogress++; break;
		default: break;
		}
		if (p->fd < 0) return;
	}
}
static char rxbuf[65536];
static void peer_service(struct peer *p)
{
	int guard = 0;
	while (p->fd >= 0 && !p->eof && !p->deaf && guard++ < 64) {
		ssize_t n = __real_read(p->fd, rxbuf, sizeof(rxbuf));
		if (n > 0) {
			if (quietrx) TR("prxq %d %zd", p->id, n); else TR("prx %d %s", p->id, hexs(rxbuf, (size_t)n));
			p->since += n; p->total += n; nprogress++;
			{ int one = 1; setsockopt(p->fd, IPPROTO_TCP, TCP_QUICKACK, &one, sizeof(one)); }
			peer_run_prog(p);
			continue;
		}
		if (n == 0) { TR("peof %d", p->id); p->eof = 1; nprogress++; break; }
		if (errno == EINTR) continue;
		if (errno == EAGAIN) break;
		TR("perr %d %d", p->id, errno);
		p->eof = 1; nprogress++;
		break;
	}
	if (p->fd >= 0) peer_run_prog(p);
}
static void lsn_service(struct lsn *l, int lid)
{
	int guard = 0;
	while (l->used && l->listening && guard++ < 32) {
		int fd = __real_accept(l->fd, NULL, NULL);
		struct peer *p;
		if (fd < 0) break;
		set_nb(fd);
		p = peer_new(100 + next_auto_peer++);
		if (!p) { __real_close(fd); break; }
		p->fd = fd; p->lsn = lid;
		if (l->nprogs) peer_parse_prog(p, l->progs[l->naccepted < l->nprogs ? l->naccepted : l->nprogs - 1]);
		l->naccepted++;
		TR("pacc %d %d", lid, p->id);
		nprogress++;
		peer_run_prog(p);
	}
}
static void service_peers(void)
{
	int i;
	for (i = 0; i < MAXLSN; i++) if (lsns[i].used) lsn_service(&lsns[i], i);
	for (i = 0; i < MAXPEER; i++) if (peers[i].used) peer_service(&peers[i]);
}
static long nwaits_in_call;
static void wait_hook(int kind, int64_t timeout_us, void *a, void *b, void *c, int n)
{
	(void)kind; (void)timeout_us; (void)a; (void)b; (void)c; (void)n;
	if (!in_case) return;
	service_peers();
	if (++nwaits_in_call > 200000 && base) { TR("runaway"); event_base_loopbreak(base); }
}
static int blocked;
static void forever_hook(void) { blocked = 1; if (base) event_base_loopbreak(base); }

/* ------------------------------------------------------------ servers */
#define MAXSRV 12
struct srv { int used; struct evhttp *h; int port; int root; int isvhost; };
static struct srv srvs[MAXSRV];

enum { OP_HDR = 1, OP_REPLY, OP_ERROR, OP_START, OP_CHUNK, OP_END, OP_HOLD, OP_RMHDR };
struct op { int kind, code; struct blob a, b; };
#define MAXCB 48
#define MAXOPS 40
struct cbent { int used, srv; struct op ops[MAXOPS]; int nops; long calls; };
static struct cbent cbs[MAXCB];
#define MAXHELD 32
struct held { int used; struct evhttp_request *req; int cb, pc, started, token; };
static struct held helds[MAXHELD];
static int next_token;

static void on_complete(struct evhttp_request *req, void *arg)
{
	(void)req;
	nprogress++;
	TR("sdone %ld", (long)(intptr_t)arg);
}
/* run the reply program of cb from op index pc for req; returns when the
 * request is answered or a hold is reached */
static void run_prog(int cbid, struct evhttp_request *req, int pc, int started, int token)
{
	struct cbent *c = &cbs[cbid];
	for (; pc < c->nops; pc++) {
		struct op *o = &c->ops[pc];
		switch (o->kind) {
		case OP_HDR: {
			int r = evhttp_add_header(evhttp_request_get_output_headers(req), o->a.p, o->b.p);
			TR("ah %d %d %d", cbid, pc, r);
			break;
		}
		case OP_RMHDR: {
			int r = evhttp_remove_header(evhttp_request_get_output_headers(req), o->a.p);
			TR("rh %d %d %d", cbid, pc, r);
			break;
		}
		case OP_REPLY: {
			struct evbuffer *eb = o->b.isnull ? NULL : evbuffer_new();
			if (eb && o->b.n) evbuffer_add(eb, o->b.p, o->b.n);
			TR("sreply %d %d %d", cbid, token, o->code);
			evhttp_send_reply(req, o->code, o->a.isnull ? NULL : o->a.p, eb);
			if (eb) evbuffer_free(eb);
			return;
		}
		case OP_ERROR:
			TR("serror %d %d %d", cbid, token, o->code);
			evhttp_send_error(req, o->code, o->a.isnull ? NULL : o->a.p);
			return;
		case OP_START:
			TR("sstart %d %d %d", cbid, token, o->code);
			evhttp_send_reply_start(req, o->code, o->a.isnull ? NULL : o->a.p);
			started = 1;
			break;
		case OP_CHUNK: {
			struct evbuffer *eb = evbuffer_new();
			if (o->a.n) evbuffer_add(eb, o->a.p, o->a.n);
			TR("schunk %d %d %zu", cbid, token, o->a.n);
			evhttp_send_reply_chunk(req, eb);
			evbuffer_free(eb);
			break;
		}
		case OP_END:
			TR("send %d %d", cbid, token);
			evhttp_send_reply_end(req);
			return;
		case OP_HOLD: {
			int i;
			for (i = 0; i < MAXHELD; i++) if (!helds[i].used) {
				helds[i].used = 1; helds[i].req = req; helds[i].cb = cbid; helds[i].pc = pc + 1;
				helds[i].started = started; helds[i].token = token;
				TR("shold %d %d", cbid, token);
				return;
			}
			break; /* table full: fall through the program */
		}
		}
	}
	/* program ended without answering */
	if (started) { TR("send %d %d", cbid, token); evhttp_send_reply_end(req); }
	else { TR("sreply %d %d 200", cbid, token); evhttp_send_reply(req, 200, "OK", NULL); }
}
static void srv_cb(struct evhttp_request *req, void *arg)
{
	int cbid = (int)(intptr_t)arg;
	struct cbent *c = &cbs[cbid];
	const char *uri = evhttp_request_get_uri(req);
	const char *host = evhttp_request_get_host(req);
	struct evbuffer *in = evhttp_request_get_input_buffer(req);
	int token = ++next_token;
	nprogress++;
	c->calls++;
	TR("scb %d %d type=%u conns=%d blen=%zu uri=%s", cbid, token, (unsigned)evhttp_request_get_command(req),
	   evhttp_get_connection_count(srvs[srvs[c->srv].root].h), in ? evbuffer_get_length(in) : 0, hexz(uri));
	TR("shost %d %s", token, hexz(host));
	evhttp_request_set_on_complete_cb(req, on_complete, (void *)(intptr_t)token);
	run_prog(cbid, req, 0, 0, token);
}
static void resume_held(struct held *h)
{
	struct evhttp_request *req = h->req;
	int cb = h->cb, pc = h->pc, st = h->started, tok = h->token;
	h->used = 0;
	TR("sresume %d %d conn=%d", cb, tok, evhttp_request_get_connection(req) ? 1 : 0);
	run_prog(cb, req, pc, st, tok);
}

/* ------------------------------------------------------------ client side */
#define MAXCON 6
struct con { int used, alive, autofree, everused; struct evhttp_connection *c; };
static struct con cons[MAXCON];
enum { RS_NONE, RS_NEW, RS_MADE, RS_DONE, RS_CANCELLED, RS_CONFREED, RS_MKFAIL, RS_FAILING };
struct act { int when; /* 'c' completion 'e' error 'k' chunk 'h' header */ char what[12]; int target; int fired; };
#define MAXREQ 24
struct rq { int used, id, state, con; struct evhttp_request *r; struct act acts[6]; int nacts; int hdr_ret; };
static struct rq rqs[MAXREQ];

static int con_usable(int cid);
static int pending_on(int con)
{
	int i, n = 0;
	for (i = 0; i < MAXREQ; i++) if (rqs[i].used && rqs[i].state == RS_MADE && rqs[i].con == con) n++;
	return n;
}
static void do_mk(struct rq *q, int con, unsigned type, const char *uri);
struct mkargs { int con; unsigned type; struct blob uri; int set; };
static struct mkargs mkargs[MAXREQ];

static void do_cancel(int rid, const char *ctx)
{
	struct rq *q = &rqs[rid];
	if (!q->used || q->state != RS_MADE) { TR("cancel %d skip %s", rid, ctx); return; }
	q->state = RS_CANCELLED;
	TR("cancel %d begin %s", rid, ctx);
	evhttp_cancel_request(q->r);
	q->r = NULL;
	TR("cancel %d end %s", rid, ctx);
	/* CALIBRATED: cancelling the last request of a free-on-completion connection frees it */
	if (cons[q->con].autofree && pending_on(q->con) == 0) cons[q->con].alive = 0;
}
static void do_freecon(int cid, const char *ctx)
{
	int i;
	struct con *c = &cons[cid];
	if (!con_usable(cid)) { TR("freecon %d skip %s", cid, ctx); return; }
	c->alive = 0;
	for (i = 0; i < MAXREQ; i++) if (rqs[i].used && rqs[i].state == RS_MADE && rqs[i].con == cid) { rqs[i].state = RS_CONFREED; rqs[i].r = NULL; }
	TR("freecon %d begin %s", cid, ctx);
	evhttp_connection_free(c->c);
	c->c = NULL;
	TR("freecon %d end %s", cid, ctx);
}
static void run_acts(struct rq *q, int when)
{
	int i;
	for (i = 0; i < q->nacts; i++) {
		struct act *a = &q->acts[i];
		if (a->when != when || a->fired) continue;
		a->fired = 1;
		if (!strcmp(a->what, "cancel")) do_cancel(a->target, "incb");
		else if (!strcmp(a->what, "freecon")) do_freecon(a->target, "incb");
		else if (!strcmp(a->what, "stop")) { TR("stop %d", q->id); stopped = 1; event_base_loopbreak(base); }
		else if (!strcmp(a->what, "mk")) {
			struct rq *n = &rqs[a->target];
			if (n->used && n->state == RS_NEW && mkargs[a->target].set && con_usable(mkargs[a->target].con))
				do_mk(n, mkargs[a->target].con, mkargs[a->target].type, mkargs[a->target].uri.p);
			else TR("mk %d skip", a->target);
		}
	}
}
static void req_done(struct evhttp_request *req, void *arg)
{
	struct rq *q = arg;
	int st = q->state;
	nprogress++;
	if (req) {
		struct evbuffer *in = evhttp_request_get_input_buffer(req);
		size_t bl = in ? evbuffer_get_length(in) : 0;
		unsigned char *bp = bl ? evbuffer_pullup(in, bl > 64 ? 64 : (ev_ssize_t)bl) : NULL;
		TR("ccb %d st=%d code=%d blen=%zu body=%s", q->id, st, evhttp_request_get_response_code(req), bl,
		   hexs(bp, bp ? (bl > 64 ? 64 : bl) : 0));
	} else
		TR("ccb %d st=%d null", q->id, st);
	if (q->state == RS_MADE || q->state == RS_FAILING) { q->state = RS_DONE; q->r = NULL; }
	/* CALIBRATED: a free-on-completion connection goes away with its last request when the
	 * connection was closed/failed; the harness only needs "has no pending request" */
	run_acts(q, 'c');
}
static void req_err(enum evhttp_request_error err, void *arg)
{
	struct rq *q = arg;
	nprogress++;
	TR("ecb %d st=%d err=%d", q->id, q->state, (int)err);
	/* the library has already released the request: it is neither cancellable nor pending any more */
	if (q->state == RS_MADE) { q->state = RS_FAILING; q->r = NULL; }
	run_acts(q, 'e');
}
static void req_chunk(struct evhttp_request *req, void *arg)
{
	struct rq *q = arg;
	struct evbuffer *in = evhttp_request_get_input_buffer(req);
	nprogress++;
	TR("kcb %d st=%d len=%zu", q->id, q->state, in ? evbuffer_get_length(in) : 0);
	run_acts(q, 'k');
}
static int req_hdr(struct evhttp_request *req, void *arg)
{
	struct rq *q = arg;
	nprogress++;
	TR("hcb %d st=%d code=%d", q->id, q->state, evhttp_request_get_response_code(req));
	run_acts(q, 'h');
	return q->hdr_ret;
}
static void con_closed(struct evhttp_connection *evcon, void *arg)
{
	(void)evcon;
	nprogress++;
	TR("clo %ld", (long)(intptr_t)arg);
}
/* a free-on-completion connection belongs to the library once its last request is gone */
static int con_usable(int cid)
{
	struct con *c = &cons[cid];
	if (!c->used || !c->alive) return 0;
	if (c->autofree && c->everused && pending_on(cid) == 0) return 0;
	return 1;
}
static void do_mk(struct rq *q, int con, unsigned type, const char *uri)
{
	int r;
	cons[con].everused = 1;
	q->con = con;
	q->state = RS_MADE;
	TR("mk %d begin con=%d", q->id, con);
	r = evhttp_make_request(cons[con].c, q->r, (enum evhttp_cmd_type)type, uri);
	TR("mk %d ret=%d", q->id, r);
	if (r != 0 && q->state == RS_MADE) { q->state = RS_MKFAIL; q->r = NULL; }
}

/* ------------------------------------------------------------ stepping */
/* Sockets the library does I/O on (learnt through the sysfault observer), so that the idle
 * test can ask the kernel whether bytes are still on their way: loopback TCP hands bulk data to
 * the receiver from a tasklet (TSQ) / the softirq backlog, which on a loaded machine can run
 * after the writer's syscall returned. */
#define MAXFD 4096
static unsigned char libfd[MAXFD];
static void sf_obs(int sym, int fd, long req, long res)
{
	(void)req;
	if (sym == SF_close) { if (fd >= 0 && fd < MAXFD) libfd[fd] = 0; return; }
	if (sym == SF_accept4 || sym == SF_accept) { if (res >= 0 && res < MAXFD) libfd[res] = 1; return; }
	if ((sym == SF_connect || sym == SF_writev || sym == SF_readv) && fd >= 0 && fd < MAXFD) libfd[fd] = 1;
}
/* 2: some socket still has unsent bytes queued; 1: sent but not yet acknowledged; 0: nothing in flight */
static int any_deaf(void) { int i; for (i = 0; i < MAXPEER; i++) if (peers[i].used && peers[i].fd >= 0 && peers[i].deaf) return 1; return 0; }
static int inflight(void)
{
	int i, worst = 0, n;
	/* a peer that never reads keeps its sender's queue full for ever: nothing to wait for */
	if (any_deaf()) return 0;
	for (i = 0; i < MAXFD + MAXPEER; i++) {
		int fd = i < MAXFD ? (libfd[i] ? i : -1) : (peers[i - MAXFD].used ? peers[i - MAXFD].fd : -1);
		if (fd < 0) continue;
		n = 0;
		if (__real_ioctl(fd, SIOCOUTQNSD, &n) == 0 && n > 0) return 2;
		n = 0;
		if (__real_ioctl(fd, SIOCOUTQ, &n) == 0 && n > 0) worst = 1;
	}
	return worst;
}
static void step_idle(void)
{
	int it, quiet = 0, grace = 0;
	struct timespec t0, t1;
	if (!base) return;
	__real_clock_gettime(CLOCK_MONOTONIC, &t0);
	/* idle = two consecutive rounds (library loop + peer service) without any callback or peer
	 * activity, with a yield in between: on a heavily loaded machine the loopback ACK/window
	 * update that makes a socket writable again may be processed by ksoftirqd a moment later */
	for (it = 0; it < 4000; it++) {
		long before = nprogress;
		nwaits_in_call = 0;
		event_base_loop(base, EVLOOP_NONBLOCK);
		service_peers();
		if (stopped) break;
		if (nprogress == before) {
			int fl = inflight();
			if (fl == 2 || (fl == 1 && grace < 20)) {
				/* bytes on their way: give the kernel real time (bounded; watchdog 3 s) */
				struct timespec ts = { 0, 50000 };
				if (fl == 1) grace++;
				nanosleep(&ts, NULL);
				__real_clock_gettime(CLOCK_MONOTONIC, &t1);
				if (t1.tv_sec - t0.tv_sec >= 3) { TR("inflight-timeout"); break; }
				it--;            /* waiting is not a loop round */
				continue;
			}
			if (++quiet >= 2) break;
			sched_yield();
		} else {
			quiet = 0;
			grace = 0;
		}
	}
	if (it >= 4000) TR("noidle");
}
static void tick(void)
{
	int64_t t0 = vclk_mono_us;
	if (!base || stopped) return;
	blocked = 0; vclk_blocked_forever = 0; nwaits_in_call = 0;
	/* returns 1 when no event is registered at all: nothing can ever happen again */
	if (event_base_loop(base, EVLOOP_ONCE) == 1) blocked = 1;
	TR("tick %lld%s", (long long)(vclk_mono_us - t0), blocked ? " blocked" : "");
	step_idle();
}
static int all_settled(void)
{
	int i;
	for (i = 0; i < MAXREQ; i++) if (rqs[i].used && rqs[i].state == RS_MADE) return 0;
	return 1;
}

/* ------------------------------------------------------------ case begin/end */
static void case_begin(long id)
{
	cs = id; vh_cur_case = id;
	stopped = 0; blocked = 0; quietrx = 0; next_auto_peer = 0; next_token = 0; nexts = 0;
	sf_reset();
	memset(libfd, 0, sizeof(libfd));
	memset(peers, 0, sizeof(peers)); memset(lsns, 0, sizeof(lsns)); memset(srvs, 0, sizeof(srvs));
	memset(cbs, 0, sizeof(cbs)); memset(helds, 0, sizeof(helds)); memset(cons, 0, sizeof(cons));
	memset(rqs, 0, sizeof(rqs)); memset(mkargs, 0, sizeof(mkargs));
	census0_blocks = mf_live_blocks; census0_bytes = mf_live_bytes;
	base = event_base_new();
	in_case = 1;
	vh_stat("cases");
}
static void case_end(void)
{
	int i, j;
	stopped = 0;
	TR("teardown");
	/* answer what the user still holds (evhttp_free requires no request being served) */
	for (i = 0; i < MAXHELD; i++) if (helds[i].used) {
		struct held *h = &helds[i];
		h->used = 0;
		TR("sfinish %d %d", h->cb, h->token);
		if (h->started) evhttp_send_reply_end(h->req); else evhttp_send_reply(h->req, 200, "OK", NULL);
	}
	for (i = 0; i < MAXCON; i++) if (cons[i].used && cons[i].alive) {
		do_freecon(i, "teardown");                              /* skips connections the library owns */
	}
	for (i = 0; i < MAXREQ; i++) if (rqs[i].used && rqs[i].state == RS_NEW && rqs[i].r) {
		evhttp_request_free(rqs[i].r);                          /* created but never made: still the caller's */
		rqs[i].r = NULL;
	}
	for (i = 0; i < MAXPEER; i++) if (peers[i].used) {
		if (peers[i].fd >= 0) { __real_close(peers[i].fd); peers[i].fd = -1; }
	}
	for (i = 0; i < MAXLSN; i++) if (lsns[i].used && lsns[i].fd >= 0) { __real_close(lsns[i].fd); lsns[i].fd = -1; lsns[i].listening = 0; }
	step_idle();    /* lets servers and free-on-completion connections see the closes */
	stopped = 0;
	for (i = 0; i < MAXSRV; i++) if (srvs[i].used && !srvs[i].isvhost) evhttp_free(srvs[i].h);
	in_case = 0;
	event_base_free(base);
	base = NULL;
	TR("census %ld %ld", mf_live_blocks - census0_blocks, mf_live_bytes - census0_bytes);
	for (i = 0; i < MAXPEER; i++) if (peers[i].used) for (j = 0; j < peers[i].nprog; j++) blob_free(&peers[i].prog[j].data);
	for (i = 0; i < MAXLSN; i++) for (j = 0; j < lsns[i].nprogs; j++) free(lsns[i].progs[j]);
	for (i = 0; i < MAXCB; i++) for (j = 0; j < cbs[i].nops; j++) { blob_free(&cbs[i].ops[j].a); blob_free(&cbs[i].ops[j].b); }
	for (i = 0; i < MAXREQ; i++) if (mkargs[i].set) blob_free(&mkargs[i].uri);
	TR("end");
}

/* ------------------------------------------------------------ commands */
#define MAXTOK 16
static int A(const char *s) { return s ? atoi(s) : 0; }

static void cmd(char **t, int nt)
{
	const char *c = t[0];
	if (!strcmp(c, "case")) { case_begin(atol(t[1])); return; }
	if (!in_case) return;
	if (!strcmp(c, "end")) { case_end(); return; }
	if (stopped) return;
	if (!strcmp(c, "step")) step_idle();
	else if (!strcmp(c, "tick")) tick();
	else if (!strcmp(c, "drain")) {
		int n = A(t[1]), i;
		step_idle();
		for (i = 0; i < n && !stopped && !all_settled(); i++) { tick(); if (blocked) break; }
		TR("drained %d settled=%d", i, all_settled());
	}
	else if (!strcmp(c, "quietrx")) quietrx = A(t[1]);
	else if (!strcmp(c, "extm") && nt >= 4 && nexts < MAXEXT) {
		exts[nexts].type = (unsigned)strtoul(t[1], NULL, 0);
		snprintf(exts[nexts].name, sizeof(exts[nexts].name), "%s", t[2]);
		exts[nexts].hasbody = A(t[3]); nexts++;
	}
	else if (!strcmp(c, "sfshort") && nt >= 3) sf_plan(!strcmp(t[1], "readv") ? SF_readv : SF_writev, 0, SFA_SHORT, atol(t[2]));
	else if (!strcmp(c, "sferr") && nt >= 4) sf_plan(!strcmp(t[1], "readv") ? SF_readv : SF_writev, atol(t[2]), SFA_ERRNO, atol(t[3]));
	/* ---- servers */
	else if (!strcmp(c, "srv") && nt >= 2) {
		int s = A(t[1]);
		struct evhttp_bound_socket *bs;
		struct sockaddr_in sin; socklen_t sl = sizeof(sin);
		srvs[s].used = 1; srvs[s].root = s; srvs[s].isvhost = 0;
		srvs[s].h = evhttp_new(base);
		evhttp_set_ext_method_cmp(srvs[s].h, ext_cmp);
		bs = evhttp_bind_socket_with_handle(srvs[s].h, "127.0.0.1", 0);
		if (!bs) { TR("srv %d bindfail", s); return; }
		getsockname(evhttp_bound_socket_get_fd(bs), (struct sockaddr *)&sin, &sl);
		srvs[s].port = ntohs(sin.sin_port);
		TR("srv %d ok", s);
	}
	else if (!strcmp(c, "vhost") && nt >= 4) {
		int par = A(t[1]), s = A(t[2]), r;
		struct blob pat = blob_parse(t[3]);
		srvs[s].used = 1; srvs[s].root = srvs[par].root; srvs[s].isvhost = 1;
		srvs[s].h = evhttp_new(base);
		r = evhttp_add_virtual_host(srvs[par].h, pat.p, srvs[s].h);
		TR("vhost %d %d %d", par, s, r);
		blob_free(&pat);
	}
	else if (!strcmp(c, "alias") && nt >= 3) {
		struct blob al = blob_parse(t[2]);
		int r = evhttp_add_server_alias(srvs[A(t[1])].h, al.p);
		TR("alias %d %d", A(t[1]), r);
		blob_free(&al);
	}
	else if (!strcmp(c, "srvopt") && nt >= 4) {
		struct evhttp *h = srvs[A(t[1])].h;
		if (!strcmp(t[2], "maxconn")) evhttp_set_max_connections(h, A(t[3]));
		else if (!strcmp(t[2], "allowed")) evhttp_set_allowed_methods(h, (ev_uint32_t)strtoul(t[3], NULL, 0));
		else if (!strcmp(t[2], "timeout")) evhttp_set_timeout(h, A(t[3]));
		else if (!strcmp(t[2], "ctype")) {
			static char ctbuf[256];
			struct blob b = blob_parse(t[3]);
			if (b.isnull) evhttp_set_default_content_type(h, NULL);
			else { snprintf(ctbuf, sizeof(ctbuf), "%s", b.p); evhttp_set_default_content_type(h, ctbuf); }
			blob_free(&b);
		}
	}
	else if (!strcmp(c, "cb") && nt >= 4) {
		int s = A(t[1]), id = A(t[2]), r;
		struct blob p = blob_parse(t[3]);
		cbs[id].used = 1; cbs[id].srv = s;
		r = evhttp_set_cb(srvs[s].h, p.p, srv_cb, (void *)(intptr_t)id);
		TR("cb %d %d %d", s, id, r);
		blob_free(&p);
	}
	else if (!strcmp(c, "gencb") && nt >= 3) {
		int s = A(t[1]), id = A(t[2]);
		cbs[id].used = 1; cbs[id].srv = s;
		evhttp_set_gencb(srvs[s].h, srv_cb, (void *)(intptr_t)id);
	}
	else if (!strcmp(c, "rp") && nt >= 3) {
		int id = A(t[1]);
		struct cbent *cb = &cbs[id];
		struct op *o;
		if (cb->nops >= MAXOPS) return;
		o = &cb->ops[cb->nops];
		memset(o, 0, sizeof(*o));
		if (!strcmp(t[2], "hdr") && nt >= 5) { o->kind = OP_HDR; o->a = blob_parse(t[3]); o->b = blob_parse(t[4]); }
		else if (!strcmp(t[2], "rmhdr") && nt >= 4) { o->kind = OP_RMHDR; o->a = blob_parse(t[3]); }
		else if (!strcmp(t[2], "reply") && nt >= 6) { o->kind = OP_REPLY; o->code = A(t[3]); o->a = blob_parse(t[4]); o->b = blob_parse(t[5]); }
		else if (!strcmp(t[2], "error") && nt >= 5) { o->kind = OP_ERROR; o->code = A(t[3]); o->a = blob_parse(t[4]); }
		else if (!strcmp(t[2], "start") && nt >= 5) { o->kind = OP_START; o->code = A(t[3]); o->a = blob_parse(t[4]); }
		else if (!strcmp(t[2], "chunk") && nt >= 4) { o->kind = OP_CHUNK; o->a = blob_parse(t[3]); }
		else if (!strcmp(t[2], "end")) o->kind = OP_END;
		else if (!strcmp(t[2], "hold")) o->kind = OP_HOLD;
		else return;
		cb->nops++;
	}
	else if (!strcmp(c, "resume") && nt >= 2) {
		int i;
		if (!strcmp(t[1], "all")) { for (i = 0; i < MAXHELD; i++) if (helds[i].used) resume_held(&helds[i]); }
		else for (i = 0; i < MAXHELD; i++) if (helds[i].used && helds[i].token == A(t[1])) { resume_held(&helds[i]); break; }
	}
	/* ---- raw client peers of a server */
	else if (!strcmp(c, "pc") && nt >= 3) {
		struct peer *p = peer_new(A(t[1]));
		struct sockaddr_in sin;
		int r;
		if (!p) return;
		memset(&sin, 0, sizeof(sin));
		sin.sin_family = AF_INET; sin.sin_addr.s_addr = htonl(INADDR_LOOPBACK); sin.sin_port = htons((uint16_t)srvs[A(t[2])].port);
		p->fd = __real_socket(AF_INET, SOCK_STREAM, 0);
		r = __real_connect(p->fd, (struct sockaddr *)&sin, sizeof(sin));
		set_nb(p->fd);
		{ int one = 1; setsockopt(p->fd, IPPROTO_TCP, TCP_NODELAY, &one, sizeof(one)); }
		TR("pc %d %d", p->id, r == 0 ? 0 : errno);
	}
	else if (!strcmp(c, "pprog") && nt >= 3) {
		struct peer *p = peer_by_id(A(t[1]));
		if (p) peer_parse_prog(p, t[2]);
	}
	else if (!strcmp(c, "psend") && nt >= 3) {
		struct peer *p = peer_by_id(A(t[1]));
		struct blob b = blob_parse(t[2]);
		if (p) peer_send(p, b.p, b.n);
		blob_free(&b);
	}
	else if ((!strcmp(c, "pclose") || !strcmp(c, "prst") || !strcmp(c, "pshut")) && nt >= 2) {
		struct peer *p = peer_by_id(A(t[1]));
		if (!p) return;
		TR("%s %d", c, p->id);
		if (!strcmp(c, "pshut")) { if (p->fd >= 0) shutdown(p->fd, SHUT_WR); }
		else peer_close(p, !strcmp(c, "prst"));
	}
	/* ---- raw listeners (fake servers) */
	else if (!strcmp(c, "lsn") && nt >= 2) {
		int l = A(t[1]);
		struct sockaddr_in sin; socklen_t sl = sizeof(sin);
		memset(&sin, 0, sizeof(sin));
		sin.sin_family = AF_INET; sin.sin_addr.s_addr = htonl(INADDR_LOOPBACK);
		lsns[l].used = 1;
		lsns[l].fd = __real_socket(AF_INET, SOCK_STREAM, 0);
		bind(lsns[l].fd, (struct sockaddr *)&sin, sizeof(sin));
		getsockname(lsns[l].fd, (struct sockaddr *)&sin, &sl);
		lsns[l].port = ntohs(sin.sin_port);
		set_nb(lsns[l].fd);
		/* "refuse": bound but not listening => ECONNREFUSED, and nobody else can get the port */
		if (!(nt >= 3 && !strcmp(t[2], "refuse"))) { listen(lsns[l].fd, 64); lsns[l].listening = 1; }
		TR("lsn %d %d", l, lsns[l].listening);
	}
	else if (!strcmp(c, "lsnlisten") && nt >= 2) {
		int l = A(t[1]);
		if (lsns[l].used && !lsns[l].listening) { listen(lsns[l].fd, 64); lsns[l].listening = 1; TR("lsnlisten %d", l); }
	}
	else if (!strcmp(c, "lprog") && nt >= 3) {
		struct lsn *l = &lsns[A(t[1])];
		if (l->nprogs < 24) l->progs[l->nprogs++] = strdup(t[2]);
	}
	/* ---- evhttp client */
	else if (!strcmp(c, "con") && nt >= 3) {
		int id = A(t[1]), i;
		struct con *k = &cons[id];
		k->used = 1; k->alive = 1;
		k->c = evhttp_connection_base_new(base, NULL, "127.0.0.1", (ev_uint16_t)lsns[A(t[2])].port);
		evhttp_connection_set_ext_method_cmp(k->c, ext_cmp);
		evhttp_connection_set_closecb(k->c, con_closed, (void *)(intptr_t)id);
		for (i = 3; i + 1 < nt; i += 2) {
			if (!strcmp(t[i], "retries")) evhttp_connection_set_retries(k->c, A(t[i + 1]));
			else if (!strcmp(t[i], "timeout")) evhttp_connection_set_timeout(k->c, A(t[i + 1]));
			else if (!strcmp(t[i], "ctimeout")) { struct timeval tv = { A(t[i + 1]), 0 }; evhttp_connection_set_connect_timeout_tv(k->c, &tv); }
			else if (!strcmp(t[i], "retrytv")) { struct timeval tv = { A(t[i + 1]) / 1000, (A(t[i + 1]) % 1000) * 1000 }; evhttp_connection_set_initial_retry_tv(k->c, &tv); }
			else if (!strcmp(t[i], "flags")) evhttp_connection_set_flags(k->c, (int)strtol(t[i + 1], NULL, 0));
			else if (!strcmp(t[i], "autofree") && A(t[i + 1])) { k->autofree = 1; evhttp_connection_free_on_completion(k->c); }
		}
		TR("con %d %d", id, k->c ? 1 : 0);
	}
	else if (!strcmp(c, "rq") && nt >= 2) {
		int id = A(t[1]), i;
		struct rq *q = &rqs[id];
		memset(q, 0, sizeof(*q));
		q->used = 1; q->id = id; q->state = RS_NEW;
		q->r = evhttp_request_new(req_done, q);
		for (i = 2; i < nt; i++) {
			if (!strcmp(t[i], "errcb")) evhttp_request_set_error_cb(q->r, req_err);
			else if (!strcmp(t[i], "chunkcb")) evhttp_request_set_chunked_cb(q->r, req_chunk);
			else if (!strcmp(t[i], "hdrcb")) evhttp_request_set_header_cb(q->r, req_hdr);
			else if (!strcmp(t[i], "hdrfail")) { evhttp_request_set_header_cb(q->r, req_hdr); q->hdr_ret = -1; }
		}
	}
	else if (!strcmp(c, "rqh") && nt >= 4) {
		struct rq *q = &rqs[A(t[1])];
		struct blob n = blob_parse(t[2]), v = blob_parse(t[3]);
		if (q->used && q->state == RS_NEW) {
			int r = evhttp_add_header(evhttp_request_get_output_headers(q->r), n.p, v.p);
			TR("rqh %d %d", q->id, r);
		}
		blob_free(&n); blob_free(&v);
	}
	else if (!strcmp(c, "rqb") && nt >= 3) {
		struct rq *q = &rqs[A(t[1])];
		struct blob b = blob_parse(t[2]);
		if (q->used && q->state == RS_NEW && b.n) evbuffer_add(evhttp_request_get_output_buffer(q->r), b.p, b.n);
		blob_free(&b);
	}
	else if (!strcmp(c, "rqbz") && nt >= 3) {
		/* rqbz <rid> <nbytes>: a body of that many 'A's (too big to spell out in the script) */
		struct rq *q = &rqs[A(t[1])];
		long n = atol(t[2]);
		if (q->used && q->state == RS_NEW && n > 0) {
			static char blk[65536];
			memset(blk, 'A', sizeof(blk));
			while (n > 0) { size_t k = n > (long)sizeof(blk) ? sizeof(blk) : (size_t)n; evbuffer_add(evhttp_request_get_output_buffer(q->r), blk, k); n -= (long)k; }
		}
	}
	else if (!strcmp(c, "oncb") && nt >= 5) {
		/* oncb <rid> <c|e|k|h> <cancel|freecon|stop|mk> <target> */
		struct rq *q = &rqs[A(t[1])];
		if (q->used && q->nacts < 6) {
			struct act *a = &q->acts[q->nacts++];
			a->when = t[2][0]; snprintf(a->what, sizeof(a->what), "%s", t[3]); a->target = A(t[4]); a->fired = 0;
		}
	}
	else if (!strcmp(c, "mk") && nt >= 5) {
		/* mk <rid> <cid> <type> <uri> [later] */
		int id = A(t[1]);
		struct rq *q = &rqs[id];
		struct blob u = blob_parse(t[4]);
		if (nt >= 6 && !strcmp(t[5], "later")) {
			mkargs[id].con = A(t[2]); mkargs[id].type = (unsigned)strtoul(t[3], NULL, 0); mkargs[id].uri = u; mkargs[id].set = 1;
			return;
		}
		if (q->used && q->state == RS_NEW && con_usable(A(t[2]))) do_mk(q, A(t[2]), (unsigned)strtoul(t[3], NULL, 0), u.p);
		else TR("mk %d skip", id);
		blob_free(&u);
	}
	else if (!strcmp(c, "cancel") && nt >= 2) do_cancel(A(t[1]), "script");
	else if (!strcmp(c, "freecon") && nt >= 2) do_freecon(A(t[1]), "script");
	else TR("badcmd %s", c);
}

static void run_script(const char *path)
{
	FILE *f = fopen(path, "r");
	char *line = NULL; size_t cap = 0; ssize_t n;
	if (!f) { perror(path); exit(2); }
	while ((n = getline(&line, &cap, f)) > 0) {
		char *t[MAXTOK]; int nt = 0; char *sv = NULL, *tok;
		if (vh_opt.only >= 0) {
			/* replay: only the lines of that case */
			if (!strncmp(line, "case ", 5) && atol(line + 5) != vh_opt.only) { in_case = 0; continue; }
		}
		for (tok = strtok_r(line, " \t\r\n", &sv); tok && nt < MAXTOK; tok = strtok_r(NULL, " \t\r\n", &sv)) t[nt++] = tok;
		if (!nt || t[0][0] == '#') continue;
		cmd(t, nt);
		if (vh_nviol > 50) break;
	}
	free(line);
	fclose(f);
}

/* one complete exchange outside any case, so that one-time allocations of
 * the library do not show up in the first case's census */
static void warmup(void)
{
	static char w1[] = "case", w2[] = "-1";
	char *a[2] = { w1, w2 };
	const char *script[] = {
		"srv 0", "gencb 0 0", "pc 1 0", "psend 1 474554202f20485454502f312e300d0a0d0a", "step",
		"lsn 0", "lprog 0 18:s485454502f312e3120323030204f4b0d0a436f6e74656e742d4c656e6774683a20300d0a0d0a",
		"con 0 0", "rq 0", "mk 0 0 1 2f", "drain 3", "end", NULL };
	int i;
	FILE *sav = stdout;
	(void)sav;
	cmd(a, 2);
	for (i = 0; script[i]; i++) {
		char buf[256], *t[MAXTOK], *sv = NULL, *tok; int nt = 0;
		snprintf(buf, sizeof(buf), "%s", script[i]);
		for (tok = strtok_r(buf, " ", &sv); tok && nt < MAXTOK; tok = strtok_r(NULL, " ", &sv)) t[nt++] = tok;
		cmd(t, nt);
	}
}

int main(int argc, char **argv)
{
	vh_init(argc, argv);
	mf_install();
	vclk_enable(1000000);
	vclk_wait_hook = wait_hook;
	vclk_forever_hook = forever_hook;
	sf_observer = sf_obs;
	if (!vh_opt.arg) { fprintf(stderr, "usage: h_httpmsg --arg script\n"); return 2; }
	warmup();
	vh_stat_add("cases", -1);
	run_script(vh_opt.arg);
	vh_finish();
	return 0;
}
