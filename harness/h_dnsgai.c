/* h_dnsgai: thin scripted driver for C38 (evdns_getaddrinfo) and C39 (resolv.conf / hosts / set_option).
 *
 * Usage: h_dnsgai --arg <scriptfile> [--cases N --first K | --only K] [--n1 <ifmask>]
 *
 * --n1 bit0: getifaddrs() reports a global IPv4 address, bit1: a global IPv6 address (the loopback
 *   addresses are always reported).  evutil.c caches the interface check per process, hence per process.
 *
 * The harness owns 3 fake nameservers (plain non-blocking UDP sockets on 127.0.0.1, serviced between loop
 * steps, no libevent code).  They answer from a per-case rule table written by Python: the C side only
 * extracts (lower-cased question name, qtype) from a query and glues header + echoed question + the
 * pre-encoded answer section together.  Time is virtual (vclock); it moves only in T / W commands.
 * All intelligence (generators, reference parser, oracles) is in lib/checks/C38.py, C39.py,
 * lib/ref/resolvconf.py, lib/gen/gaigen.py.
 *
 * evdns.c is #included so that (a) DUMP can print the configuration the parser really stored (struct
 * evdns_base fields, search list, hosts db), (b) gethostname() is scripted (search_set_from_hostname),
 * (c) transaction ids / 0x20 bits come from a seeded generator (reproducible cases).
 *
 * Script (one command per line, blank separated; <h..> = hex, "-" = empty string, "NULL" = NULL pointer):
 *   CASE <idx>
 *   B <flags>                       event_base_new + evdns_base_new(flags)
 *   HN <hname>                      what gethostname() returns from now on (this case)
 *   RC <flags> <hcontent>           write resolv.conf (@P0@..@P2@ -> fake server ports), parse   -> RETRC rc
 *   RCX <flags> <0|1>               parse a non-existing file (0) / NULL filename (1)            -> RETRC rc
 *   LH <hcontent|NULL|MISSING>      write hosts file + evdns_base_load_hosts (NULL: NULL name; MISSING: no such file) -> RETLH rc
 *   CH                              evdns_base_clear_host_addresses
 *   O <hname> <hval|NULL>           evdns_base_set_option                                       -> RETO rc
 *   NS <srv>                        evdns_base_nameserver_ip_add("127.0.0.1:<port>")             -> RETNS rc
 *   NSA <hstring>                   evdns_base_nameserver_ip_add(string) (@P0@ substituted)      -> RETNS rc
 *   SA <hdomain> | SN <n> | SC      evdns_base_search_add / search_ndots_set / search_clear
 *   AR <srv|-1> <hname|*> <qtype> <delay_us> <rcode|-1=drop> <ancount> <hanswer> <max_uses|0>   answer rule
 *   DUMP                            NSCOUNT / NSADDR / CFG / HE lines (see dump())
 *   G <rid> <hnode|NULL> <hserv|NULL> <N | H fam socktype proto flags>   evdns_getaddrinfo      -> GCB.., RET
 *   MF <n>                          (exploration only, with --n2 1 = lock monitor on) fail the n-th allocation inside the next G -> MFAIL failed locks_held
 *   X <rid>                         evdns_getaddrinfo_cancel (skipped when already reported)
 *   S                               step the loop to the idle point                              -> IDLE t
 *   T <us>                          advance virtual time by us (running timers)
 *   W <max_us>                      advance until every issued request reported, at most max_us  -> WAIT t dt done
 *   F                               free the evdns_base (fail_requests=1) and the event_base now (a case may build several)
 *   E                               end of case: free everything, census                         -> LEAK n / END
 * Trace: Q <srv> <t> <hex>  (every datagram captured), A <srv> <t> <rule> <hex> (every reply sent),
 *        GCB <rid> <t> <err> <n> {fam/socktype/proto/addrlen/addrhex/port/scope/flags/canonhex}*, RET <rid> <t> <pending>
 */
#include "vh.h"
#include <errno.h>
#include <unistd.h>
#include <fcntl.h>
#include <ctype.h>
#include <signal.h>
#include <sys/socket.h>
#include <netinet/in.h>
#include <arpa/inet.h>
#include <ifaddrs.h>
#include <net/if.h>
#include <event2/event.h>
#include <event2/util.h>
#include <event2/dns.h>

static int hg_gethostname(char *name, size_t len);
static void hg_rng_bytes(void *buf, size_t n);
#define gethostname hg_gethostname
#define evutil_secure_rng_get_bytes hg_rng_bytes
#include "evdns.c"
#undef gethostname
#undef evutil_secure_rng_get_bytes
#undef log
#undef MIN
#undef MAX

/* ------------------------------------------------------------------ scripted environment */
static vh_rng g_rng;
static void hg_rng_bytes(void *buf, size_t n)
{
	unsigned char *p = buf;
	size_t i;
	for (i = 0; i < n; i++) p[i] = (unsigned char)vh_rand(&g_rng);
}
static char g_hostname[300] = "vm";
static int hg_gethostname(char *name, size_t len)
{
	size_t l = strlen(g_hostname);
	vh_stat("gethostname_calls");
	if (l + 1 > len) { errno = ENAMETOOLONG; return -1; }
	memcpy(name, g_hostname, l + 1);
	return 0;
}
/* replaces libc getifaddrs for evutil_check_interfaces (deterministic AI_ADDRCONFIG) */
static struct ifaddrs g_ifa[4];
static struct sockaddr_in g_if4[2];
static struct sockaddr_in6 g_if6[2];
int getifaddrs(struct ifaddrs **ifap)
{
	int n = 0;
	memset(g_ifa, 0, sizeof(g_ifa)); memset(g_if4, 0, sizeof(g_if4)); memset(g_if6, 0, sizeof(g_if6));
	g_if4[0].sin_family = AF_INET; g_if4[0].sin_addr.s_addr = htonl(0x7f000001);
	g_ifa[n].ifa_name = (char *)"lo"; g_ifa[n].ifa_addr = (struct sockaddr *)&g_if4[0]; n++;
	g_if6[0].sin6_family = AF_INET6; g_if6[0].sin6_addr.s6_addr[15] = 1;
	g_ifa[n].ifa_name = (char *)"lo"; g_ifa[n].ifa_addr = (struct sockaddr *)&g_if6[0]; n++;
	if (vh_opt.n1 & 1) {
		g_if4[1].sin_family = AF_INET; g_if4[1].sin_addr.s_addr = htonl(0x5db8d822); /* 93.184.216.34 */
		g_ifa[n].ifa_name = (char *)"eth0"; g_ifa[n].ifa_addr = (struct sockaddr *)&g_if4[1]; n++;
	}
	if (vh_opt.n1 & 2) {
		g_if6[1].sin6_family = AF_INET6; g_if6[1].sin6_addr.s6_addr[0] = 0x20; g_if6[1].sin6_addr.s6_addr[1] = 0x01;
		g_if6[1].sin6_addr.s6_addr[2] = 0x0d; g_if6[1].sin6_addr.s6_addr[3] = 0xb8; g_if6[1].sin6_addr.s6_addr[15] = 2;
		g_ifa[n].ifa_name = (char *)"eth0"; g_ifa[n].ifa_addr = (struct sockaddr *)&g_if6[1]; n++;
	}
	{ int i; for (i = 0; i + 1 < n; i++) g_ifa[i].ifa_next = &g_ifa[i + 1]; }
	*ifap = &g_ifa[0];
	vh_stat("getifaddrs_calls");
	return 0;
}
void freeifaddrs(struct ifaddrs *ifa) { (void)ifa; }

/* ------------------------------------------------------------------ small utils */
static int hexval(int c) { return c >= '0' && c <= '9' ? c - '0' : c >= 'a' && c <= 'f' ? c - 'a' + 10 : c >= 'A' && c <= 'F' ? c - 'A' + 10 : -1; }
static int unhex(const char *s, unsigned char *out, int cap)
{
	int n = 0;
	if (!strcmp(s, "-")) return 0;
	while (s[0] && s[1] && n < cap) {
		int a = hexval(s[0]), b = hexval(s[1]);
		if (a < 0 || b < 0) break;
		out[n++] = (unsigned char)(a * 16 + b); s += 2;
	}
	return n;
}
static void puthex(const void *pv, int n)
{
	static const char d[] = "0123456789abcdef";
	const unsigned char *p = pv;
	int i;
	if (n <= 0) { putchar('-'); return; }
	for (i = 0; i < n; i++) { putchar(d[p[i] >> 4]); putchar(d[p[i] & 15]); }
}
ssize_t __real_write(int, const void *, size_t);
static void die(const char *m) { fprintf(stderr, "h_dnsgai: %s\n", m); exit(2); }

/* ------------------------------------------------------------------ state */
#define NSRV 3
#define MAXRULE 96
#define MAXREQ 64
#define MSGCAP 4096
#define FILECAP (1 << 20)

struct rule { int srv, qtype, rcode, ancount, anslen, any; int64_t delay; long max_uses, used; char name[300]; unsigned char *ans; };
static struct rule g_rule[MAXRULE];
static int g_nrule;
static int g_srv[NSRV], g_port[NSRV];
struct delayed { int64_t due; int s; unsigned char *msg; int len, rule; struct sockaddr_in to; struct delayed *next; };
static struct delayed *g_delayed;
struct ureq { void *handle; int ncb, done, issued; };
static struct ureq g_req[MAXREQ];
static struct event_base *g_evb;
static struct evdns_base *g_dns;
static int64_t g_t0;
static long g_ncb, g_case, g_mf_base, g_mf_next;
static int64_t now_rel(void) { return vclk_mono_us - g_t0; }

/* ------------------------------------------------------------------ fake servers */
static void mk_servers(void)
{
	int i;
	for (i = 0; i < NSRV; i++) {
		struct sockaddr_in sin; socklen_t sl = sizeof(sin);
		g_srv[i] = socket(AF_INET, SOCK_DGRAM | SOCK_NONBLOCK, 0);
		memset(&sin, 0, sizeof(sin)); sin.sin_family = AF_INET; sin.sin_addr.s_addr = htonl(INADDR_LOOPBACK);
		if (g_srv[i] < 0 || bind(g_srv[i], (struct sockaddr *)&sin, sizeof(sin)) < 0) die("udp bind");
		getsockname(g_srv[i], (struct sockaddr *)&sin, &sl);
		g_port[i] = ntohs(sin.sin_port);
	}
	printf("PORTS %d %d %d\n", g_port[0], g_port[1], g_port[2]);
}
static void reset_servers(void)
{
	int i;
	unsigned char tmp[2048];
	for (i = 0; i < NSRV; i++) while (recv(g_srv[i], tmp, sizeof(tmp), 0) >= 0) ;
	for (i = 0; i < g_nrule; i++) free(g_rule[i].ans);
	g_nrule = 0;
	while (g_delayed) { struct delayed *d = g_delayed; g_delayed = d->next; free(d->msg); free(d); }
}
static void send_reply(int si, int rule, const unsigned char *msg, int len, const struct sockaddr_in *to)
{
	ssize_t r = sendto(g_srv[si], msg, (size_t)len, 0, (const struct sockaddr *)to, sizeof(*to));
	printf("A %d %lld %d ", si, (long long)now_rel(), rule); puthex(msg, len); putchar('\n');
	(void)r;
	vh_stat("replies_sent");
}
/* question name -> lower-case dotted text; returns offset after the name or -1 */
static int qname_text(const unsigned char *q, int len, char *out, int cap)
{
	int j = 12, o = 0;
	if (len < 13) return -1;
	for (;;) {
		int l, k;
		if (j >= len) return -1;
		l = q[j++];
		if (l == 0) break;
		if (l & 0xc0) return -1;
		if (j + l > len || o + l + 2 > cap) return -1;
		if (o) out[o++] = '.';
		for (k = 0; k < l; k++) { int c = q[j + k]; out[o++] = (c >= 'A' && c <= 'Z') ? (char)(c + 32) : (char)c; }
		j += l;
	}
	out[o] = 0;
	return j;
}
static int service_all(void)
{
	int i, did = 0;
	static unsigned char buf[MSGCAP], out[MSGCAP * 2];
	for (i = 0; i < NSRV; i++) {
		for (;;) {
			struct sockaddr_in from; socklen_t fl = sizeof(from);
			ssize_t r = recvfrom(g_srv[i], buf, sizeof(buf), 0, (struct sockaddr *)&from, &fl);
			char name[300];
			int e, k, qtype, ri = -1, n;
			struct rule *ru = NULL;
			if (r < 0) break;
			did++;
			vh_stat("queries_captured");
			printf("Q %d %lld ", i, (long long)now_rel()); puthex(buf, (int)r); putchar('\n');
			e = qname_text(buf, (int)r, name, sizeof(name));
			if (e < 0 || e + 4 > r) { vh_stat("queries_unparsed"); continue; }
			qtype = buf[e] << 8 | buf[e + 1];
			for (k = 0; k < g_nrule; k++) {
				struct rule *c = &g_rule[k];
				if (c->srv >= 0 && c->srv != i) continue;
				if (c->qtype != qtype && c->qtype != 255) continue;
				if (!c->any && strcmp(c->name, name)) continue;
				if (c->max_uses > 0 && c->used >= c->max_uses) continue;
				ru = c; ri = k; break;
			}
			if (ru) ru->used++;
			if (ru && ru->rcode < 0) { printf("A %d %lld %d drop\n", i, (long long)now_rel(), ri); vh_stat("queries_dropped"); continue; }
			/* header: id, QR|RD|RA|rcode (default: NXDOMAIN), qd=1, an */
			out[0] = buf[0]; out[1] = buf[1];
			out[2] = 0x81; out[3] = (unsigned char)(0x80 | (ru ? ru->rcode & 15 : 3));
			out[4] = 0; out[5] = 1; out[6] = (unsigned char)(ru ? ru->ancount >> 8 : 0); out[7] = (unsigned char)(ru ? ru->ancount & 255 : 0);
			out[8] = out[9] = out[10] = out[11] = 0;
			memcpy(out + 12, buf + 12, (size_t)(e + 4 - 12));
			n = e + 4;
			if (ru && ru->anslen) { memcpy(out + n, ru->ans, (size_t)ru->anslen); n += ru->anslen; }
			if (!ru || ru->delay <= 0) send_reply(i, ri, out, n, &from);
			else {
				struct delayed *d = calloc(1, sizeof(*d)), **pp = &g_delayed;
				d->due = vclk_mono_us + ru->delay; d->s = i; d->rule = ri;
				d->msg = malloc((size_t)n); memcpy(d->msg, out, (size_t)n); d->len = n; d->to = from;
				while (*pp && (*pp)->due <= d->due) pp = &(*pp)->next;
				d->next = *pp; *pp = d;
				vh_stat("replies_delayed");
			}
		}
	}
	while (g_delayed && g_delayed->due <= vclk_mono_us) {
		struct delayed *d = g_delayed; g_delayed = d->next;
		send_reply(d->s, d->rule, d->msg, d->len, &d->to);
		free(d->msg); free(d);
		did++;
	}
	return did;
}

/* Nothing may leave the loopback fake servers: sendto() on a nameserver socket whose address is not one of the fake
 * servers, and every TCP connect(), fail with ENETUNREACH (sysfault plan installed in main). */
static int foreign_fd(int fd)
{
	int i, t = 0;
	socklen_t l = sizeof(t);
	for (i = 0; i < NSRV; i++) if (fd == g_srv[i]) return 0;
	if (g_dns && g_dns->server_head) {
		struct nameserver *ns = g_dns->server_head;
		do {
			if (ns->socket == fd) {
				struct sockaddr_in *sin = (struct sockaddr_in *)&ns->address;
				if (sin->sin_family == AF_INET && sin->sin_addr.s_addr == htonl(INADDR_LOOPBACK))
					for (i = 0; i < NSRV; i++) if (ntohs(sin->sin_port) == g_port[i]) return 0;
				vh_stat("sends_to_foreign_nameserver_blocked");
				return 1;
			}
			ns = ns->next;
		} while (ns != g_dns->server_head);
	}
	if (getsockopt(fd, SOL_SOCKET, SO_TYPE, &t, &l) == 0 && t == SOCK_STREAM) { vh_stat("tcp_connects_blocked"); return 1; }
	return 0;
}

/* ------------------------------------------------------------------ stepping */
static void settle(void)
{
	int rounds = 0, quiet = 0;
	if (!g_evb) return;
	while (quiet < 3 && rounds < 5000) {
		long cb0 = g_ncb;
		int p;
		event_base_loop(g_evb, EVLOOP_NONBLOCK);
		p = service_all();
		if (g_ncb == cb0 && p == 0 && event_base_get_num_events(g_evb, EVENT_BASE_COUNT_ACTIVE) == 0) quiet++; else quiet = 0;
		rounds++;
	}
	if (rounds >= 5000) { printf("STUCK %lld\n", (long long)now_rel()); vh_stat("stuck"); }
}
static void tick_cb(evutil_socket_t fd, short what, void *arg) { (void)fd; (void)what; (void)arg; }
static int all_reported(void)
{
	int i;
	for (i = 0; i < MAXREQ; i++) if (g_req[i].issued && !g_req[i].done) return 0;
	return 1;
}
/* advance virtual time by at most `us`; with until_done stop as soon as every request reported */
static void advance(int64_t us, int until_done)
{
	int64_t target = vclk_mono_us + us;
	struct event *tick;
	int guard = 0;
	if (!g_evb) { vclk_advance(us); return; }
	tick = evtimer_new(g_evb, tick_cb, NULL);
	settle();
	while (vclk_mono_us < target && guard++ < 200000) {
		int64_t due = target;
		struct timeval tv;
		if (until_done && all_reported()) break;
		if (g_delayed && g_delayed->due < due) due = g_delayed->due;
		if (due < vclk_mono_us) due = vclk_mono_us;
		tv.tv_sec = (due - vclk_mono_us) / 1000000; tv.tv_usec = (due - vclk_mono_us) % 1000000;
		evtimer_add(tick, &tv);
		event_base_loop(g_evb, EVLOOP_ONCE);
		evtimer_del(tick);
		settle();
	}
	event_free(tick);
}

/* ------------------------------------------------------------------ callbacks */
static void gai_cb(int err, struct evutil_addrinfo *res, void *arg)
{
	int rid = (int)(intptr_t)arg;
	struct ureq *u = &g_req[rid];
	struct evutil_addrinfo *ai;
	int n = 0;
	g_ncb++;
	for (ai = res; ai; ai = ai->ai_next) n++;
	printf("GCB %d %lld %d %d", rid, (long long)now_rel(), err, n);
	for (ai = res; ai; ai = ai->ai_next) {
		int port = -1; unsigned scope = 0;
		printf(" %d/%d/%d/%d/", ai->ai_family, ai->ai_socktype, ai->ai_protocol, (int)ai->ai_addrlen);
		if (ai->ai_addr && ai->ai_addr->sa_family == AF_INET && ai->ai_addrlen >= sizeof(struct sockaddr_in)) {
			struct sockaddr_in *s4 = (struct sockaddr_in *)ai->ai_addr;
			puthex(&s4->sin_addr, 4); port = ntohs(s4->sin_port);
		} else if (ai->ai_addr && ai->ai_addr->sa_family == AF_INET6 && ai->ai_addrlen >= sizeof(struct sockaddr_in6)) {
			struct sockaddr_in6 *s6 = (struct sockaddr_in6 *)ai->ai_addr;
			puthex(&s6->sin6_addr, 16); port = ntohs(s6->sin6_port); scope = s6->sin6_scope_id;
		} else putchar('?');
		printf("/%d/%u/%x/", port, scope, (unsigned)ai->ai_flags);
		if (ai->ai_canonname) { if (!*ai->ai_canonname) putchar('E'); else puthex(ai->ai_canonname, (int)strlen(ai->ai_canonname)); } else putchar('-');
	}
	putchar('\n');
	if (res) evutil_freeaddrinfo(res);
	vh_stat("gai_callbacks");
	if (err == 0) vh_stat("gai_callbacks_ok"); else vh_stat("gai_callbacks_err");
	if (u->done) vh_stat("gai_double_callback");
	u->ncb++; u->done = 1;
}
static void log_cb(int sev, const char *msg)
{
	if (sev == EVENT_LOG_ERR) fprintf(stderr, "[err] %s\n", msg);
	else if (sev == EVENT_LOG_WARN) vh_stat("lib_warnings");
	if (vh_opt.verbose > 1) fprintf(stderr, "[log%d] %s\n", sev, msg);
}

/* ------------------------------------------------------------------ content helpers */
/* replace @P0@..@P2@ by the decimal port of fake server 0..2 */
static int subst_ports(const unsigned char *in, int n, unsigned char *out, int cap)
{
	int i = 0, o = 0;
	while (i < n && o + 8 < cap) {
		if (in[i] == '@' && i + 3 < n && in[i + 1] == 'P' && in[i + 2] >= '0' && in[i + 2] < '0' + NSRV && in[i + 3] == '@') {
			o += snprintf((char *)out + o, 8, "%d", g_port[in[i + 2] - '0']);
			i += 4;
		} else out[o++] = in[i++];
	}
	return o;
}
static unsigned char *g_fbuf, *g_fbuf2;
static const char *write_file(const char *suffix, const char *hex)
{
	static char fn[128];
	int l, l2;
	FILE *f;
	l = unhex(hex, g_fbuf, FILECAP);
	l2 = subst_ports(g_fbuf, l, g_fbuf2, FILECAP + 64);
	snprintf(fn, sizeof(fn), "dg-%ld-%s", (long)getpid(), suffix);
	f = fopen(fn, "wb");
	if (!f) die("cannot write work file");
	if (l2) fwrite(g_fbuf2, 1, (size_t)l2, f);
	fclose(f);
	return fn;
}
static void put_tv(const char *k, const struct timeval *tv) { printf(" %s=%lld", k, (long long)tv->tv_sec * 1000000LL + tv->tv_usec); }
static void dump(void)
{
	int n, i;
	struct evdns_base *b = g_dns;
	struct hosts_entry *he;
	if (!b) return;
	n = evdns_base_count_nameservers(b);
	printf("NSCOUNT %d\n", n);
	for (i = 0; i <= n; i++) {           /* index n must be refused */
		struct sockaddr_storage ss;
		int r;
		memset(&ss, 0, sizeof(ss));
		r = evdns_base_get_nameserver_addr(b, i, (struct sockaddr *)&ss, sizeof(ss));
		printf("NSADDR %d %d %d ", i, r, r > 0 ? ss.ss_family : 0);
		if (r > 0 && ss.ss_family == AF_INET) { struct sockaddr_in *s = (struct sockaddr_in *)&ss; puthex(&s->sin_addr, 4); printf(" %d 0\n", ntohs(s->sin_port)); }
		else if (r > 0 && ss.ss_family == AF_INET6) { struct sockaddr_in6 *s = (struct sockaddr_in6 *)&ss; puthex(&s->sin6_addr, 16); printf(" %d %u\n", ntohs(s->sin6_port), s->sin6_scope_id); }
		else printf("- 0 0\n");
	}
	/* what the parser stored (read straight from struct evdns_base) */
	printf("CFG");
	if (b->global_search_state) {
		struct search_domain *d;
		int k = 0;
		printf(" ndots=%d nsearch=%d search=", b->global_search_state->ndots, b->global_search_state->num_domains);
		for (d = b->global_search_state->head; d; d = d->next, k++) {
			if (k) putchar(',');
			if (d->len) puthex(((unsigned char *)d) + sizeof(struct search_domain), d->len); else putchar('E');
		}
		if (!k) putchar('-');
	} else printf(" ndots=none nsearch=0 search=-");
	put_tv("timeout", &b->global_timeout);
	put_tv("skew", &b->global_getaddrinfo_allow_skew);
	put_tv("probe_init", &b->global_nameserver_probe_initial_timeout);
	put_tv("tcp_idle", &b->global_tcp_idle_timeout);
	printf(" max_timeouts=%d max_inflight=%d attempts=%d randcase=%d max_probe=%d backoff=%d rcvbuf=%d sndbuf=%d tcpflags=%d udpsize=%d nheads=%d",
	    b->global_max_nameserver_timeout, b->global_max_requests_inflight, b->global_max_retransmits, b->global_randomize_case,
	    (int)b->ns_max_probe_timeout, (int)b->ns_timeout_backoff_factor, b->so_rcvbuf, b->so_sndbuf, (int)b->global_tcp_flags, (int)b->global_max_udp_size, b->n_req_heads);
	printf(" bind=");
	if (b->global_outgoing_addrlen) {
		struct sockaddr *sa = (struct sockaddr *)&b->global_outgoing_address;
		if (sa->sa_family == AF_INET) { struct sockaddr_in *s = (struct sockaddr_in *)sa; printf("4/"); puthex(&s->sin_addr, 4); printf("/%d", ntohs(s->sin_port)); }
		else if (sa->sa_family == AF_INET6) { struct sockaddr_in6 *s = (struct sockaddr_in6 *)sa; printf("6/"); puthex(&s->sin6_addr, 16); printf("/%d", ntohs(s->sin6_port)); }
		else printf("?");
	} else putchar('-');
	putchar('\n');
	i = 0;
	TAILQ_FOREACH(he, &b->hostsdb, next) {
		printf("HE %d %d ", i++, he->addr.sa.sa_family);
		if (he->addr.sa.sa_family == AF_INET) puthex(&he->addr.sin.sin_addr, 4);
		else if (he->addr.sa.sa_family == AF_INET6) puthex(&he->addr.sin6.sin6_addr, 16);
		else putchar('?');
		putchar(' ');
		if (he->hostname[0]) puthex(he->hostname, (int)strlen(he->hostname)); else putchar('E');
		printf(" %u\n", he->addr.sa.sa_family == AF_INET6 ? he->addr.sin6.sin6_scope_id : 0);
	}
	printf("HECOUNT %d\n", i);
	vh_stat("dumps");
}

/* ------------------------------------------------------------------ commands */
static void free_all(void)
{
	if (g_dns) {
		/* Pending user lookups are cancelled first (each reports EVUTIL_EAI_CANCEL and is freed), then the base is freed
		 * with fail_requests=0.  Deliberately not evdns_base_free(base, 1): with a nameserver probe in flight that schedules
		 * nameserver_probe_callback for an already freed nameserver (heap-use-after-free at evdns.c nameserver_probe_callback)
		 * - a defect of the request engine outside C38/C39 (passed on to the C34 owner). */
		int pending = !all_reported(), i;
		for (i = 0; i < MAXREQ; i++)
			if (g_req[i].issued && !g_req[i].done && g_req[i].handle) evdns_getaddrinfo_cancel(g_req[i].handle);
		if (pending) settle();
		evdns_base_free(g_dns, 0);
		g_dns = NULL;
		if (pending) vh_stat("bases_freed_with_pending_requests");
	}
	settle();
	advance(10 * 1000000LL, 0);
	if (!all_reported()) { printf("NEVERREPORTED\n"); vh_stat("requests_never_reported"); }
	if (g_evb) { event_base_free(g_evb); g_evb = NULL; }
	memset(g_req, 0, sizeof(g_req));
}
#define MAXTOK 16
static int split(char *line, char **tok, int max)
{
	int n = 0;
	char *p = line;
	while (*p && n < max) {
		while (*p == ' ') p++;
		if (!*p) break;
		tok[n++] = p;
		while (*p && *p != ' ') p++;
		if (*p) *p++ = 0;
	}
	return n;
}
/* hex token -> malloc'd NUL-terminated string; "NULL" -> NULL */
static char *tokstr(const char *t)
{
	size_t cap;
	char *s;
	int l;
	if (!strcmp(t, "NULL")) return NULL;
	cap = strlen(t) / 2 + 2;
	s = malloc(cap);
	l = unhex(t, (unsigned char *)s, (int)cap - 1);
	s[l] = 0;
	return s;
}
static void run_cmd(char *line)
{
	char *tok[MAXTOK];
	int n = split(line, tok, MAXTOK);
	const char *c;
	if (!n) return;
	c = tok[0];
	if (!strcmp(c, "G") && n >= 5) {
		int rid = atoi(tok[1]);
		char *node = tokstr(tok[2]), *serv = tokstr(tok[3]);
		struct evutil_addrinfo hints, *hp = NULL;
		struct evdns_getaddrinfo_request *h;
		struct ureq *u;
		if (rid < 0 || rid >= MAXREQ) die("rid");
		u = &g_req[rid];
		memset(u, 0, sizeof(*u));
		if (!strcmp(tok[4], "H") && n >= 9) {
			memset(&hints, 0, sizeof(hints));
			hints.ai_family = atoi(tok[5]); hints.ai_socktype = atoi(tok[6]); hints.ai_protocol = atoi(tok[7]);
			hints.ai_flags = (int)strtol(tok[8], NULL, 0);
			hp = &hints;
		}
		u->issued = 1;
		if (g_mf_next > 0) mf_arm(g_mf_next);
		h = evdns_getaddrinfo(g_dns, node, serv, hp, gai_cb, (void *)(intptr_t)rid);
		if (g_mf_next > 0) {
			printf("MFAIL %ld %d\n", mf_failed, vh_opt.n2 ? lm_held_now() : -1);
			mf_arm(0); g_mf_next = 0;
		}
		if (!u->done) u->handle = h;
		if (!h && !u->done) { vh_stat("gai_null_without_callback"); u->done = 1; }
		printf("RET %d %lld %d\n", rid, (long long)now_rel(), h != NULL);
		vh_stat(h ? "gai_started" : "gai_immediate");
		free(node); free(serv);
	} else if (!strcmp(c, "MF") && n >= 2) {
		g_mf_next = atol(tok[1]);
	} else if (!strcmp(c, "X") && n >= 2) {
		int rid = atoi(tok[1]);
		struct ureq *u = &g_req[rid];
		if (!g_dns || !u->issued || !u->handle || u->done) { printf("XSKIP %d %lld\n", rid, (long long)now_rel()); return; }
		printf("XDONE %d %lld\n", rid, (long long)now_rel());
		evdns_getaddrinfo_cancel(u->handle);
		vh_stat("gai_cancels");
	} else if (!strcmp(c, "B")) {
		if (g_dns || g_evb) die("B while a base is alive");
		g_evb = event_base_new();
		if (!g_evb) die("event_base_new");
		g_dns = evdns_base_new(g_evb, n >= 2 ? (int)strtol(tok[1], NULL, 0) : 0);
		if (!g_dns) die("evdns_base_new");
	} else if (!strcmp(c, "HN") && n >= 2) {
		int l = unhex(tok[1], (unsigned char *)g_hostname, sizeof(g_hostname) - 1);
		g_hostname[l] = 0;
	} else if (!strcmp(c, "RC") && n >= 3) {
		const char *fn = write_file("resolv.conf", tok[2]);
		int r = evdns_base_resolv_conf_parse(g_dns, (int)strtol(tok[1], NULL, 0), fn);
		unlink(fn);
		printf("RETRC %d\n", r);
		vh_stat("resolv_conf_parsed");
	} else if (!strcmp(c, "RCX") && n >= 3) {
		int r = evdns_base_resolv_conf_parse(g_dns, (int)strtol(tok[1], NULL, 0), atoi(tok[2]) ? NULL : "dg-no-such-file.conf");
		printf("RETRC %d\n", r);
		vh_stat("resolv_conf_missing");
	} else if (!strcmp(c, "LH") && n >= 2) {
		int r;
		if (!strcmp(tok[1], "NULL")) r = evdns_base_load_hosts(g_dns, NULL);
		else if (!strcmp(tok[1], "MISSING")) r = evdns_base_load_hosts(g_dns, "dg-no-such-hosts");
		else { const char *fn = write_file("hosts", tok[1]); r = evdns_base_load_hosts(g_dns, fn); unlink(fn); }
		printf("RETLH %d\n", r);
		vh_stat("hosts_loaded");
	} else if (!strcmp(c, "CH")) {
		evdns_base_clear_host_addresses(g_dns);
	} else if (!strcmp(c, "O") && n >= 3) {
		char *name = tokstr(tok[1]), *val = tokstr(tok[2]);
		int r = evdns_base_set_option(g_dns, name ? name : "", val);
		printf("RETO %d\n", r);
		vh_stat("set_option_calls");
		free(name); free(val);
	} else if (!strcmp(c, "NS") && n >= 2) {
		char a[64];
		snprintf(a, sizeof(a), "127.0.0.1:%d", g_port[atoi(tok[1]) % NSRV]);
		printf("RETNS %d\n", evdns_base_nameserver_ip_add(g_dns, a));
	} else if (!strcmp(c, "NSA") && n >= 2) {
		unsigned char raw[600], sub[700];
		int l = unhex(tok[1], raw, sizeof(raw)), l2 = subst_ports(raw, l, sub, sizeof(sub) - 1);
		sub[l2] = 0;
		printf("RETNS %d\n", evdns_base_nameserver_ip_add(g_dns, (char *)sub));
	} else if (!strcmp(c, "SA") && n >= 2) {
		char *d = tokstr(tok[1]);
		evdns_base_search_add(g_dns, d ? d : "");
		free(d);
	} else if (!strcmp(c, "SN") && n >= 2) {
		evdns_base_search_ndots_set(g_dns, atoi(tok[1]));
	} else if (!strcmp(c, "SC")) {
		evdns_base_search_clear(g_dns);
	} else if (!strcmp(c, "AR") && n >= 9) {
		struct rule *r;
		int l;
		if (g_nrule >= MAXRULE) die("too many rules");
		r = &g_rule[g_nrule++];
		memset(r, 0, sizeof(*r));
		r->srv = atoi(tok[1]);
		if (!strcmp(tok[2], "*")) r->any = 1;
		else { l = unhex(tok[2], (unsigned char *)r->name, sizeof(r->name) - 1); r->name[l] = 0; }
		r->qtype = atoi(tok[3]); r->delay = strtoll(tok[4], NULL, 0); r->rcode = atoi(tok[5]); r->ancount = atoi(tok[6]);
		r->ans = malloc(MSGCAP);
		r->anslen = unhex(tok[7], r->ans, MSGCAP - 600);
		r->max_uses = atol(tok[8]);
	} else if (!strcmp(c, "DUMP")) {
		dump();
	} else if (!strcmp(c, "F")) {
		free_all();
		printf("FREED %lld\n", (long long)now_rel());
	} else if (!strcmp(c, "S")) {
		settle();
		printf("IDLE %lld\n", (long long)now_rel());
	} else if (!strcmp(c, "T") && n >= 2) {
		advance(strtoll(tok[1], NULL, 0), 0);
		printf("TIME %lld\n", (long long)now_rel());
	} else if (!strcmp(c, "W") && n >= 2) {
		int64_t t0 = vclk_mono_us;
		advance(strtoll(tok[1], NULL, 0), 1);
		printf("WAIT %lld %lld %d\n", (long long)now_rel(), (long long)(vclk_mono_us - t0), all_reported());
	} else {
		fprintf(stderr, "h_dnsgai: bad command '%s' (%d tokens)\n", c, n);
		exit(2);
	}
}

/* CPU-time watchdog: a case costs milliseconds; 40 s of CPU inside one case is a livelock in the code under test */
void __sanitizer_print_stack_trace(void) __attribute__((weak));
static void cpu_watchdog(int sig)
{
	char buf[160];
	int n = snprintf(buf, sizeof(buf), "\nVIOL hang:cpu-watchdog case=%ld no progress after 40 s of CPU time inside one case\n", vh_cur_case);
	(void)sig;
	if (n > 0) { ssize_t w = __real_write(1, buf, (size_t)n); (void)w; }
	n = snprintf(buf, sizeof(buf), "\nATCASE %ld cpu-watchdog\n", vh_cur_case);
	if (n > 0) { ssize_t w = __real_write(2, buf, (size_t)n); (void)w; }
	if (__sanitizer_print_stack_trace) __sanitizer_print_stack_trace();
	_exit(3);
}
static void arm_watchdog(void)
{
	struct itimerval it;
	memset(&it, 0, sizeof(it));
	it.it_value.tv_sec = 40;
	setitimer(ITIMER_PROF, &it, NULL);
}
static void case_begin(long idx)
{
	arm_watchdog();
	g_case = idx; vh_cur_case = idx;
	reset_servers();
	memset(g_req, 0, sizeof(g_req));
	g_ncb = 0;
	g_t0 = vclk_mono_us;
	strcpy(g_hostname, "vm");
	vh_rng_seed(&g_rng, vh_mix64(vh_opt.seed) ^ (uint64_t)idx);
	g_mf_base = mf_live_blocks;
	printf("CASE %ld\n", idx);
}
static void case_end(void)
{
	free_all();
	printf("LEAK %ld\n", mf_live_blocks - g_mf_base);
	if (mf_live_blocks != g_mf_base) vh_stat("cases_with_leak");
	printf("END %ld\n", g_case);
	vh_stat("cases");
}

int main(int argc, char **argv)
{
	FILE *f;
	char *line = NULL;
	size_t cap = 0;
	ssize_t len;
	long idx = -1, ran = 0;
	int active = 0;
	vh_init(argc, argv);
	if (!vh_opt.arg) die("need --arg <script>");
	mf_install();
	if (vh_opt.n2) lm_install();
	event_set_log_callback(log_cb);
	vclk_enable(1000000000LL);
	signal(SIGPROF, cpu_watchdog);
	g_fbuf = malloc(FILECAP + 1); g_fbuf2 = malloc(FILECAP + 64);
	mk_servers();
	sf_fd_filter = foreign_fd;
	sf_plan(SF_sendto, 0, SFA_ERRNO, ENETUNREACH);
	sf_plan(SF_connect, 0, SFA_ERRNO, ENETUNREACH);
	/* warm-up: one-time global allocations must not count as a leak */
	{
		struct evutil_addrinfo hints;
		vh_rng_seed(&g_rng, 1);
		g_evb = event_base_new(); g_dns = evdns_base_new(g_evb, 0);
		evdns_base_nameserver_ip_add(g_dns, "127.0.0.1:9");
		memset(&hints, 0, sizeof(hints)); hints.ai_flags = EVUTIL_AI_NUMERICHOST;
		g_req[0].issued = 1;
		evdns_getaddrinfo(g_dns, "127.0.0.1", "80", &hints, gai_cb, (void *)(intptr_t)0);
		hints.ai_flags = EVUTIL_AI_ADDRCONFIG;
		g_req[1].issued = 1;
		evdns_getaddrinfo(g_dns, NULL, "http", &hints, gai_cb, (void *)(intptr_t)1);
		memset(g_req, 0, sizeof(g_req));
		evdns_base_free(g_dns, 0); g_dns = NULL; event_base_free(g_evb); g_evb = NULL;
		printf("WARMUPDONE\n");
	}
	f = fopen(vh_opt.arg, "r");
	if (!f) die("cannot open script");
	while ((len = getline(&line, &cap, f)) > 0) {
		while (len > 0 && (line[len - 1] == '\n' || line[len - 1] == '\r')) line[--len] = 0;
		if (!len || line[0] == '#') continue;
		if (!strncmp(line, "CASE ", 5)) {
			if (active) { case_end(); active = 0; }
			idx = atol(line + 5);
			if (vh_opt.only >= 0 ? idx != vh_opt.only : (idx < vh_opt.first || ran >= vh_opt.cases)) continue;
			case_begin(idx); active = 1; ran++;
			continue;
		}
		if (!active) continue;
		if (!strcmp(line, "E")) { case_end(); active = 0; continue; }
		run_cmd(line);
	}
	if (active) case_end();
	fclose(f);
	free(line);
	vh_finish();
	return 0;
}
